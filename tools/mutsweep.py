#!/usr/bin/env python3
"""tools/mutsweep.py -- automatic, systematic mutation sweep of /repo/src against the 20 checks.

    python3 tools/mutsweep.py gen      [--seed 20260926] [--n 900]     enumerate + sample mutants -> /var/tmp/mutsweep/queue.json
    python3 tools/mutsweep.py setup    [--workers 3]                   worker worktrees + harness copies + warm builds
    python3 tools/mutsweep.py run      [--workers 3] [--minutes 150]   process the queue (resumable; results written after every mutant)
    python3 tools/mutsweep.py confirm  [--all-checks]                  sequential re-run of the survivors (no other worker active)
    python3 tools/mutsweep.py one ID                                   run one mutant of the queue on worker 0 (debugging)
    python3 tools/mutsweep.py report                                   counts / per-file ratios / histogram (stdout, markdown)
    python3 tools/mutsweep.py cleanup                                  remove worktrees and target dirs

Per mutant:  textual edit in the worker's scratch worktree of /repo
  stage 1  cargo build --lib of the harness copy (qmc with all harness features, cfg qmc_verif)      fail -> compile-fail
  stage 2  cargo test --workspace --offline in the worktree (default features: the pinned suite)     fail -> killed-by-tests
  stage 3  the mapped checks, in order, through VERIF_REPO/VERIF_HARNESS_DIR/VERIF_TARGET_DIR/VERIF_OUT_DIR;
           first VIOLATION -> caught(Cxx, broken obligations); all green -> survivor
Nothing in /repo, /verif/evidence, the shared cargo target, the checks or the harness is modified.  C13/C14/C18 (the checks that
rewrite lean/QmcModel/Generated/{Fields,Ambient,PoolCaps}.lean without a lock of their own) are serialised across workers and the
generated files are put back after each of them.
"""
import argparse
import json
import os
import random
import re
import shutil
import subprocess
import sys
import threading
import time

ROOT = "/var/tmp/mutsweep"
REPO = "/repo"
VERIF = "/verif"
RESULTS = os.path.join(VERIF, "design_notes", "mutsweep_results.json")
QUEUE = os.path.join(ROOT, "queue.json")
GEN_DIR = os.path.join(VERIF, "lean", "QmcModel", "Generated")
GEN_FILES = ["Fields.lean", "Ambient.lean", "PoolCaps.lean"]
HARNESS_FEATURES = {"tempering", "parallel-tempering", "serialize", "autocorrelations"}
RUSTFLAGS = "--cfg qmc_verif --cap-lints warn"
SERIALISED = {"C13", "C14", "C18"}

# ---------------------------------------------------------------------------------------------------------------------
# target files and the checks mapped to each (ordered: cheap and likely first).  Derived from the `anchors.files` of
# properties.jsonl plus reading of the shared infrastructure.  Properties anchored on the enclosing fn are tried first.
# ---------------------------------------------------------------------------------------------------------------------
FILE_CHECKS = {
    "src/sse/fast_ops.rs": ["C11", "C06", "C07", "C12", "C08", "C18", "C09", "C17", "C14", "C03", "C05", "C04", "C01"],
    "src/sse/qmc_traits/op_container.rs": ["C11", "C06", "C07", "C12", "C16", "C04", "C01"],
    "src/sse/qmc_traits/diagonal.rs": ["C08", "C12", "C13", "C06", "C01", "C04"],
    "src/sse/qmc_traits/heatbath.rs": ["C08", "C13", "C02", "C14", "C04"],
    "src/sse/qmc_traits/cluster.rs": ["C09", "C06", "C07", "C18", "C01", "C04"],
    "src/sse/qmc_traits/directed_loop.rs": ["C06", "C07", "C13", "C18", "C04"],
    "src/sse/qmc_traits/rvb.rs": ["C03", "C06", "C07", "C18", "C14"],
    "src/sse/qmc_traits/qmc_stepper.rs": ["C17", "C20", "C01"],
    "src/sse/qmc_traits/diagonal_subsection.rs": ["C11", "C03", "C12", "C06"],
    "src/sse/qmc_ising.rs": ["C12", "C13", "C06", "C07", "C09", "C15", "C17", "C14", "C03", "C02", "C05", "C10", "C18", "C20", "C01"],
    "src/sse/qmc_runner.rs": ["C16", "C13", "C12", "C15", "C06", "C07", "C17", "C10", "C02", "C14", "C20", "C04"],
    "src/sse/qmc_types.rs": ["C04", "C06", "C13"],
    "src/sse/ham.rs": ["C08", "C06", "C12", "C01", "C04"],
    "src/sse/parallel_tempering/tempering_container.rs": ["C13", "C10", "C05", "C17", "C20", "C14"],
    "src/sse/parallel_tempering/tempering_traits.rs": ["C10", "C05", "C13"],
    "src/sse/autocorrelations.rs": ["C20"],
    "src/classical/graph.rs": ["C19"],
    "src/util/allocator.rs": ["C18", "C14", "C11"],
    "src/sse/fast_op_alloc.rs": ["C18", "C14", "C11"],
    "src/util/bondcontainer.rs": ["C18", "C03", "C14"],
    "src/util/vec_help.rs": ["C03", "C18"],
}
# relative sampling weight of a file (on top of sqrt(#candidates))
FILE_PRIO = {
    "src/sse/fast_ops.rs": 1.6, "src/sse/qmc_ising.rs": 1.3, "src/sse/qmc_runner.rs": 1.3, "src/sse/qmc_traits/rvb.rs": 1.2,
    "src/sse/qmc_traits/diagonal.rs": 1.5, "src/sse/qmc_traits/heatbath.rs": 1.5, "src/sse/qmc_traits/cluster.rs": 1.5,
    "src/sse/qmc_traits/directed_loop.rs": 1.5, "src/sse/parallel_tempering/tempering_container.rs": 1.3,
    "src/classical/graph.rs": 1.2,
}
OPCLASSES = ["rel", "arith", "const", "bool", "method", "range", "stmtdel", "cond", "argswap"]


# ---------------------------------------------------------------------------------------------------------------------
# source scanning
# ---------------------------------------------------------------------------------------------------------------------
def mask_source(src):
    """same-length copy of src with comments, string and char literal contents replaced by spaces (newlines kept)"""
    out = list(src)
    i, n = 0, len(src)

    def blank(a, b):
        for k in range(a, b):
            if out[k] != "\n":
                out[k] = " "

    while i < n:
        c = src[i]
        if src.startswith("//", i):
            j = src.find("\n", i)
            j = n if j < 0 else j
            blank(i, j)
            i = j
        elif src.startswith("/*", i):
            depth, j = 1, i + 2
            while j < n and depth:
                if src.startswith("/*", j):
                    depth += 1; j += 2
                elif src.startswith("*/", j):
                    depth -= 1; j += 2
                else:
                    j += 1
            blank(i, j)
            i = j
        elif c == '"' or (c == "r" and re.match(r'r#*"', src[i:i + 6]) and (i == 0 or not (src[i - 1].isalnum() or src[i - 1] == "_"))):
            if c == "r":
                m = re.match(r'r(#*)"', src[i:])
                close = '"' + m.group(1)
                j = src.find(close, i + len(m.group(0)))
                j = n if j < 0 else j + len(close)
                blank(i + len(m.group(0)), j - len(close))
            else:
                j = i + 1
                while j < n and src[j] != '"':
                    j += 2 if src[j] == "\\" else 1
                blank(i + 1, j)
                j += 1
            i = j
        elif c == "'":
            m = re.match(r"'(\\.[^']*|[^\\'])'", src[i:i + 12])
            if m:
                blank(i + 1, i + len(m.group(0)) - 1)
                i += len(m.group(0))
            else:
                i += 1
        else:
            i += 1
    return "".join(out)


HEADER_KW = re.compile(r"^(pub(\([a-z]+\))?\s+)?(unsafe\s+)?(fn|impl|trait|struct|enum|type|where|mod|use|const|static|extern)\b")


def item_end(masked, start):
    """index just past the item/statement that starts at `start` (after an attribute): first `;` or `,` at depth 0, or the `}`
    that closes the first `{` opened at depth 0"""
    par = br = 0
    i, n = start, len(masked)
    while i < n:
        c = masked[i]
        if c in "([":
            par += 1
        elif c in ")]":
            par -= 1
            if par < 0:
                return i
        elif c == "{":
            br += 1
        elif c == "}":
            br -= 1
            if br == 0 and par == 0:
                return i + 1
            if br < 0:
                return i
        elif c in ";," and par == 0 and br == 0:
            return i + 1
        i += 1
    return n


def scan_file(relpath, repo=REPO):
    """-> list of dict(line (1-based), text, masked, fn, eligible)"""
    src = open(os.path.join(repo, relpath)).read()
    masked = mask_source(src)
    skip = [False] * (len(src) + 1)

    def mark(a, b):
        for k in range(a, min(b, len(src))):
            skip[k] = True

    # attribute-guarded items that are not part of the behaviour under test
    for m in re.finditer(r"#\[cfg\(([^\]]*)\)\]", masked):
        # the feature name is a string literal: read it from the source text
        cond = src[m.start(1):m.end(1)]
        drop = False
        if cond.strip() in ("test", "qmc_verif"):
            drop = True
        fm = re.match(r'\s*feature\s*=\s*"([^"]+)"\s*$', cond)
        if fm and fm.group(1) not in HARNESS_FEATURES:
            drop = True
        if drop:
            mark(m.start(), item_end(masked, m.end()))
    for m in re.finditer(r"\bimpl\b[^{;]*\bDebug\s+for\b", masked):
        mark(m.start(), item_end(masked, m.start()))
    for m in re.finditer(r"\b(debug_assert(_eq|_ne)?|println|eprintln|print|eprint|log|trace|dbg)!\s*\(", masked):
        mark(m.start(), item_end(masked, m.start()))
    lines = src.split("\n")
    mlines = masked.split("\n")
    out = []
    pos = 0
    depth = 0
    fn_stack = []   # (name, depth at which its body opened)
    pending_fn = None
    header = False
    for idx, (l, ml) in enumerate(zip(lines, mlines)):
        st = ml.strip()
        line_skipped = any(skip[pos:pos + len(l)]) if l else True
        starts_header = bool(HEADER_KW.match(st))
        if starts_header:
            header = True
        m = re.search(r"\bfn\s+(\w+)", ml)
        if m:
            pending_fn = m.group(1)
        in_header = header
        cur_fn = fn_stack[-1][0] if fn_stack else None
        for c in ml:
            if c == "{":
                if pending_fn is not None:
                    fn_stack.append((pending_fn, depth))
                    pending_fn = None
                depth += 1
            elif c == "}":
                depth -= 1
                if fn_stack and fn_stack[-1][1] == depth:
                    fn_stack.pop()
            elif c == ";" and pending_fn is not None and depth == (fn_stack[-1][1] + 1 if fn_stack else depth):
                pending_fn = None
        if header and re.search(r"[{;}]\s*$", st):
            header = False
        eligible = bool(st) and not line_skipped and not in_header and not st.startswith("#[") and not st.startswith("#![")
        out.append({"line": idx + 1, "text": l, "masked": ml, "fn": cur_fn, "eligible": eligible, "depth": depth})
        pos += len(l) + 1
    return out


# ---------------------------------------------------------------------------------------------------------------------
# mutation operators: each yields (opclass, operator name, start, end, replacement) on ONE line (masked text for matching)
# ---------------------------------------------------------------------------------------------------------------------
SIMPLE = [
    # (class, name, regex on masked line, replacement)
    ("rel", "< -> <=", r"(?<=[\w\)\]]) < (?=[\w\(\-!&*])", " <= "),
    ("rel", "< -> >", r"(?<=[\w\)\]]) < (?=[\w\(\-!&*])", " > "),
    ("rel", "<= -> <", r" <= ", " < "),
    ("rel", "> -> >=", r"(?<=[\w\)\]]) > (?=[\w\(\-!&*])", " >= "),
    ("rel", "> -> <", r"(?<=[\w\)\]]) > (?=[\w\(\-!&*])", " < "),
    ("rel", ">= -> >", r" >= ", " > "),
    ("rel", "== -> !=", r" == ", " != "),
    ("rel", "!= -> ==", r" != ", " == "),
    ("arith", "+ -> -", r"(?<=[\w\)\]]) \+ (?=[\w\(\-!&*])", " - "),
    ("arith", "- -> +", r"(?<=[\w\)\]]) - (?=[\w\(\-!&*])", " + "),
    ("arith", "* -> /", r"(?<=[\w\)\]]) \* (?=[\w\(\-!&*])", " / "),
    ("arith", "/ -> *", r"(?<=[\w\)\]]) / (?=[\w\(\-!&*])", " * "),
    ("arith", "% -> /", r"(?<=[\w\)\]]) % (?=[\w\(\-!&*])", " / "),
    ("arith", "+= -> -=", r" \+= ", " -= "),
    ("arith", "-= -> +=", r" -= ", " += "),
    ("arith", "*= -> /=", r" \*= ", " /= "),
    ("arith", "/= -> *=", r" /= ", " *= "),
    ("bool", "&& -> ||", r" && ", " || "),
    ("bool", "|| -> &&", r"(?<=[\w\)\]]) \|\| (?=[\w\(\-!&*])", " && "),
    ("bool", "true -> false", r"\btrue\b", "false"),
    ("bool", "false -> true", r"\bfalse\b", "true"),
    ("bool", "drop !", r"(?<=[\s\(\|,=])!(?=[\w\(])", ""),
    ("method", "drop .abs()", r"\.abs\(\)", ""),
    ("method", ".min -> .max", r"\.min\(", ".max("),
    ("method", ".max -> .min", r"\.max\(", ".min("),
    ("method", "min() -> max()", r"(?<![\.\w])min\(", "max("),
    ("method", "max() -> min()", r"(?<![\.\w])max\(", "min("),
    ("method", "drop .rev()", r"\.rev\(\)", ""),
    ("method", "is_some -> is_none", r"\.is_some\(\)", ".is_none()"),
    ("method", "is_none -> is_some", r"\.is_none\(\)", ".is_some()"),
    ("method", "any -> all", r"\.any\(", ".all("),
    ("method", "all -> any", r"\.all\(", ".any("),
    ("method", "first -> last", r"\.first\(\)", ".last()"),
    ("method", "last -> first", r"\.last\(\)", ".first()"),
    ("method", "floor -> ceil", r"\.floor\(\)", ".ceil()"),
    ("method", "ceil -> floor", r"\.ceil\(\)", ".floor()"),
    ("method", "is_diagonal -> !is_diagonal", r"(?<![!\w])(\w+)\.is_diagonal\(\)", None),   # handled specially (negation)
    ("range", ".. -> ..=", r"(?<=[\w\)\]])\.\.(?=[\w\(])", "..="),
]
NUM = re.compile(r"(?<![\w])(\d+\.\d+|\d+)((?:_?(?:usize|u8|u16|u32|u64|u128|i8|i16|i32|i64|isize|f64|f32))?)(?![\w])")


def match_paren(s, i):
    """s[i] == '(' -> index of the matching ')', or -1"""
    d = 0
    for k in range(i, len(s)):
        if s[k] == "(":
            d += 1
        elif s[k] == ")":
            d -= 1
            if d == 0:
                return k
    return -1


def balanced(s):
    d = {"(": 0, "[": 0, "{": 0}
    pair = {")": "(", "]": "[", "}": "{"}
    for c in s:
        if c in d:
            d[c] += 1
        elif c in pair:
            d[pair[c]] -= 1
            if d[pair[c]] < 0:
                return False
    return not any(d.values())


def line_mutations(rec, prev_masked):
    """all single-line mutations of one eligible line: list of (opclass, opname, new_text)"""
    l, ml = rec["text"], rec["masked"]
    st = ml.strip()
    res = []

    def put(cls, name, a, b, rep):
        new = l[:a] + rep + l[b:]
        if new != l:
            res.append((cls, name, new))

    for cls, name, rx, rep in SIMPLE:
        for m in re.finditer(rx, ml):
            if rep is None:
                put(cls, name, m.start(), m.end(), "!" + l[m.start():m.end()])
            else:
                put(cls, name, m.start(), m.end(), rep)
    # numeric constants
    for m in NUM.finditer(ml):
        a, b = m.start(1), m.end(1)
        if a >= 1 and ml[a - 1] == "." and not (a >= 2 and ml[a - 2] == "."):
            continue      # tuple field x.0 / method call on a literal
        if re.search(r";\s*$", ml[:a]) and re.match(r"\s*\]", ml[m.end():]):
            continue      # array length in a type
        tok = m.group(1)
        if "." in tok:
            v = float(tok)
            reps = {0.0: ["1.0"], 1.0: ["2.0", "0.0"], 0.5: ["0.25"], 2.0: ["1.0"]}.get(v, [repr(v * 2.0)])
        else:
            v = int(tok)
            reps = {0: ["1"], 1: ["0", "2"], 2: ["1", "3"]}.get(v, [str(v + 1)])
        for r in reps:
            put("const", "%s -> %s" % (tok, r), a, b, r)
    # saturating_sub(x) -> - (x)
    for m in re.finditer(r"\.saturating_sub\(", ml):
        k = match_paren(ml, m.end() - 1)
        if k > 0:
            put("method", "saturating_sub -> -", m.start(), k + 1, " - (" + l[m.end():k] + ")")
    # two-argument call: swap arguments
    for m in re.finditer(r"(?<![!\w])(\w+)\(([\w][\w\.]*), ([\w][\w\.]*)\)", ml):
        if m.group(2) != m.group(3) and not re.search(r"\bfn\s+$", ml[:m.start()]) and not re.search(r"!\s*$", ml[:m.start(1)]):
            put("argswap", "swap args of %s()" % m.group(1), m.start(2), m.end(3), l[m.start(3):m.end(3)] + ", " + l[m.start(2):m.end(2)])
    # condition replacement
    m = re.match(r"^(\s*(?:\} else )?if )(?!let\b)(.+)( \{)\s*$", ml)
    if m and balanced(m.group(2)):
        a, b = m.start(2), m.end(2)
        put("cond", "if c -> if true", a, b, "true")
        put("cond", "if c -> if false", a, b, "false")
        put("cond", "if c -> if !(c)", a, b, "!(" + l[a:b] + ")")
    m = re.match(r"^(\s*while )(?!let\b)(.+)( \{)\s*$", ml)
    if m and balanced(m.group(2)):
        put("cond", "while c -> while false", m.start(2), m.end(2), "false")
    # statement deletion: a complete one-line statement (bare call or assignment)
    pst = (prev_masked or "").strip()
    if (st.endswith(";") and balanced(st) and re.match(r"^[A-Za-z_\*\(&]", st)
            and not re.match(r"^(let|return|use|pub|const|type|static|fn|impl|struct|enum|mod|extern|else|match|if|for|while|loop)\b", st)
            and (pst == "" or pst[-1] in ";{}") and not st.startswith("Ok(") and not st.startswith("Err(")):
        kind = "assignment" if re.search(r"[^=!<>]=[^=]", st) else ("break/continue" if re.match(r"^(break|continue)\b", st) else "call")
        indent = l[:len(l) - len(l.lstrip())]
        res.append(("stmtdel", "delete %s statement" % kind, indent + "// mutsweep: deleted"))
    return res


def anchor_index():
    """-> (fn name -> set of properties whose anchors mention it), files anchored"""
    fnmap = {}
    for line in open(os.path.join(VERIF, "properties.jsonl")):
        d = json.loads(line)
        a = d["anchors"]
        for grp in ("state", "mechanism"):
            for e in a.get(grp) or []:
                for ident in re.findall(r"[a-z_][a-z0-9_]{3,}", e.get("where", "")):
                    fnmap.setdefault(ident, set()).add(d["id"])
    return fnmap


def enumerate_mutants():
    fnmap = anchor_index()
    muts = []
    for f in FILE_CHECKS:
        recs = scan_file(f)
        prev = ""
        for r in recs:
            if r["eligible"]:
                for cls, name, new in line_mutations(r, prev):
                    anchored = sorted(fnmap.get(r["fn"], [])) if r["fn"] else []
                    muts.append({"file": f, "line": r["line"], "fn": r["fn"], "opclass": cls, "operator": name,
                                 "before": r["text"], "after": new, "anchored_props": anchored})
            if r["masked"].strip():
                prev = r["masked"]
    return muts


def cmd_gen(args):
    rnd = random.Random(args.seed)
    muts = enumerate_mutants()
    strata = {}
    for m in muts:
        strata.setdefault((m["file"], m["opclass"]), []).append(m)
    per_file = {}
    for (f, c), v in strata.items():
        per_file[f] = per_file.get(f, 0) + len(v)
    # weighted, stratified order: file by weight, operator class round-robin within file, anchored functions x3
    for v in strata.values():
        keyed = []
        for m in v:
            w = 3.0 if m["anchored_props"] else 1.0
            keyed.append((rnd.random() ** (1.0 / w), m))     # weighted shuffle (Efraimidis-Spirakis)
        keyed.sort(key=lambda t: -t[0])
        v[:] = [m for _, m in keyed]
    fw = {f: (per_file[f] ** 0.5) * FILE_PRIO.get(f, 1.0) for f in per_file}
    cls_ptr = {f: 0 for f in per_file}
    picked, seen_lines = [], set()
    credit = {f: 0.0 for f in per_file}
    tot = sum(fw.values())
    while len(picked) < args.n and any(strata.values()):
        for f in credit:
            credit[f] += fw[f] / tot
        f = max(credit, key=lambda k: (credit[k], k))
        credit[f] -= 1.0
        avail = [c for c in OPCLASSES if strata.get((f, c))]
        if not avail:
            fw[f] = 0.0
            credit[f] = -1e9
            tot = sum(fw.values()) or 1.0
            continue
        c = avail[cls_ptr[f] % len(avail)]
        cls_ptr[f] += 1
        lst = strata[(f, c)]
        # prefer a line not used yet
        k = next((i for i, m in enumerate(lst) if (m["file"], m["line"]) not in seen_lines), 0)
        m = lst.pop(k)
        seen_lines.add((m["file"], m["line"]))
        picked.append(m)
    for i, m in enumerate(picked):
        m["id"] = "M%04d" % i
    os.makedirs(ROOT, exist_ok=True)
    json.dump({"seed": args.seed, "total_enumerated": len(muts), "per_file_enumerated": per_file,
               "per_class_enumerated": {c: sum(len(v) for (f, cc), v in strata.items() if cc == c) + sum(1 for m in picked if m["opclass"] == c) for c in OPCLASSES},
               "mutants": picked}, open(QUEUE, "w"), indent=1)
    print("enumerated %d mutants over %d files; queued %d (seed %d) -> %s" % (len(muts), len(per_file), len(picked), args.seed, QUEUE))
    byf, byc = {}, {}
    for m in picked:
        byf[m["file"]] = byf.get(m["file"], 0) + 1
        byc[m["opclass"]] = byc.get(m["opclass"], 0) + 1
    for f in sorted(byf):
        print("  %-55s enumerated %5d queued %4d" % (f, per_file[f], byf[f]))
    print("  classes:", byc)


# ---------------------------------------------------------------------------------------------------------------------
# workers
# ---------------------------------------------------------------------------------------------------------------------
def run(cmd, cwd=None, env=None, timeout=None):
    e = dict(os.environ)
    if env:
        e.update(env)
    t0 = time.time()
    try:
        p = subprocess.run(cmd, cwd=cwd, env=e, timeout=timeout, capture_output=True, text=True, shell=isinstance(cmd, str), start_new_session=True)
        return p.returncode, p.stdout, p.stderr, time.time() - t0
    except subprocess.TimeoutExpired as ex:
        # kill the whole process group
        subprocess.run("pkill -9 -s %d" % ex.cmd if False else "true", shell=True)
        return 124, (ex.stdout or b"").decode("utf8", "replace") if isinstance(ex.stdout, bytes) else (ex.stdout or ""), "TIMEOUT", time.time() - t0


def run_to(cmd, cwd=None, env=None, timeout=900):
    """run under coreutils `timeout -k` so that a hang is killed together with its children"""
    if isinstance(cmd, str):
        full = "timeout -k 10 %d %s" % (timeout, cmd)
    else:
        full = ["timeout", "-k", "10", str(timeout)] + list(cmd)
    return run(full, cwd=cwd, env=env, timeout=timeout + 60)


class Worker:
    def __init__(self, i):
        self.i = i
        self.dir = os.path.join(ROOT, "w%d" % i)
        self.repo = os.path.join(self.dir, "repo")
        self.harness = os.path.join(self.dir, "harness")
        self.target = os.path.join(self.dir, "target")
        self.rtarget = os.path.join(self.dir, "rtarget")
        self.out = os.path.join(self.dir, "out")
        self.henv = {"CARGO_TARGET_DIR": self.target, "CARGO_NET_OFFLINE": "true", "RUSTFLAGS": RUSTFLAGS}

    def setup(self):
        os.makedirs(self.dir, exist_ok=True)
        if not os.path.isdir(self.repo):
            subprocess.check_call(["git", "-C", REPO, "worktree", "add", "-q", "--detach", self.repo, "HEAD"])
            shutil.copy(os.path.join(REPO, "Cargo.lock"), os.path.join(self.repo, "Cargo.lock"))
        os.makedirs(os.path.join(self.harness, ".cargo"), exist_ok=True)
        self.refresh_harness()
        toml = open(os.path.join(VERIF, "harness", "Cargo.toml")).read().replace('path = "/repo"', 'path = "%s"' % self.repo)
        self._write_if_changed(os.path.join(self.harness, "Cargo.toml"), toml)
        self._write_if_changed(os.path.join(self.harness, "Cargo.lock"), open(os.path.join(VERIF, "harness", "Cargo.lock")).read())
        cfg = "".join(l for l in open(os.path.join(VERIF, "harness", ".cargo", "config.toml")) if "target-dir" not in l)
        self._write_if_changed(os.path.join(self.harness, ".cargo", "config.toml"), cfg)

    @staticmethod
    def _write_if_changed(path, text):
        if os.path.exists(path) and open(path).read() == text:
            return False
        os.makedirs(os.path.dirname(path), exist_ok=True)
        with open(path, "w") as f:
            f.write(text)
        return True

    def refresh_harness(self, src=None):
        """copy /verif/harness/src into the worker's harness copy, touching only files whose content changed"""
        src = src or os.path.join(VERIF, "harness", "src")
        dst = os.path.join(self.harness, "src")
        keep = set()
        for root, _, files in os.walk(src):
            for fn in files:
                p = os.path.join(root, fn)
                rel = os.path.relpath(p, src)
                keep.add(rel)
                try:
                    self._write_if_changed(os.path.join(dst, rel), open(p).read())
                except (OSError, UnicodeDecodeError):
                    pass
        for root, _, files in os.walk(dst):
            for fn in files:
                rel = os.path.relpath(os.path.join(root, fn), dst)
                if rel not in keep:
                    os.remove(os.path.join(root, fn))

    def restore(self):
        subprocess.run(["git", "-C", self.repo, "checkout", "-q", "--", "src"], check=True)

    def apply(self, m):
        p = os.path.join(self.repo, m["file"])
        lines = open(p).read().split("\n")
        if lines[m["line"] - 1] != m["before"]:
            raise RuntimeError("source line mismatch for %s" % m["id"])
        lines[m["line"] - 1] = m["after"]
        with open(p, "w") as f:
            f.write("\n".join(lines))

    def build_lib(self):
        return run_to(["cargo", "build", "--offline", "--quiet", "--lib"], cwd=self.harness, env=self.henv, timeout=900)

    def tests(self):
        return run_to(["cargo", "test", "--workspace", "--offline"], cwd=self.repo, env={"CARGO_TARGET_DIR": self.rtarget}, timeout=900)

    def check(self, prop, tier="quick"):
        shutil.rmtree(os.path.join(self.out, "replays"), ignore_errors=True)
        env = {"VERIF_REPO": self.repo, "VERIF_HARNESS_DIR": self.harness, "VERIF_TARGET_DIR": self.target, "VERIF_OUT_DIR": self.out}
        lock = GEN_LOCK if prop in SERIALISED else DUMMY_LOCK
        with lock:
            rc, out, err, dt = run_to(["./check", prop, "--tier", tier], cwd=VERIF, env=env, timeout=900)
            if prop in SERIALISED:
                restore_generated()
        info = {"check": prop, "rc": rc, "wall_s": round(dt, 1)}
        viol = re.search(r"^VIOLATION property=(\S+) replay=(\S+)", out, re.M)
        if viol:
            info["verdict"] = "VIOLATION"
            fl = re.search(r"^first failure: (.*)$", out, re.M)
            info["first_failure"] = fl.group(1)[:500] if fl else ""
            try:
                rp = json.load(open(viol.group(2)))
                info["broken_obligations"] = rp.get("broken_obligations", [])[:12]
                info["failing_input_found"] = rp.get("failing_input_found")
            except Exception as ex:   # noqa
                info["broken_obligations"] = re.findall(r"^broken: (.*)$", out, re.M)[:12]
        elif rc == 0 and re.search(r"^OK property=", out, re.M):
            info["verdict"] = "OK"
        elif rc == 124:
            info["verdict"] = "TIMEOUT"
        else:
            info["verdict"] = "CRASH"
            info["tail"] = (out[-600:] + " || " + err[-1200:])
        return info, out, err


class _Dummy:
    def __enter__(self):
        return self

    def __exit__(self, *a):
        return False


GEN_LOCK = threading.Lock()
DUMMY_LOCK = _Dummy()
RES_LOCK = threading.Lock()
Q_LOCK = threading.Lock()
GEN_ORIG = {}


def save_generated():
    os.makedirs(os.path.join(ROOT, "generated_orig"), exist_ok=True)
    for f in GEN_FILES:
        p = os.path.join(GEN_DIR, f)
        keep = os.path.join(ROOT, "generated_orig", f)
        if os.path.exists(keep):
            GEN_ORIG[f] = open(keep).read()
        elif os.path.exists(p):
            GEN_ORIG[f] = open(p).read()
            open(keep, "w").write(GEN_ORIG[f])


def restore_generated():
    for f, text in GEN_ORIG.items():
        p = os.path.join(GEN_DIR, f)
        try:
            if open(p).read() != text:
                with open(p, "w") as fh:
                    fh.write(text)
        except OSError:
            pass


def harness_build_broken(info):
    return any("cargo build harness" in b for b in info.get("broken_obligations", []))


# measured quick-tier wall times (s) on the unchanged tree: used to try cheap checks first
COST = {"C11": 4, "C13": 6, "C08": 12, "C12": 20, "C19": 23, "C16": 26, "C05": 26, "C09": 27, "C07": 30, "C10": 30, "C03": 31, "C06": 33,
        "C14": 37, "C20": 37, "C15": 38, "C17": 40, "C02": 41, "C18": 48, "C04": 60, "C01": 61}


def checks_for(m):
    order = []
    for p in sorted(m.get("anchored_props", []), key=lambda c: COST.get(c, 50)):
        if p in FILE_CHECKS[m["file"]] and p not in order:
            order.append(p)
    for p in FILE_CHECKS[m["file"]]:
        if p not in order:
            order.append(p)
    return order


def classify_obligation(b):
    """broken obligation string `kind:where` -> coarse class for the histogram"""
    kind, _, where = b.partition(":")
    if kind == "oracle" and where.startswith("public-api-coverage"):
        return "oracle/api-coverage"
    if kind == "harness":
        return "harness-panic/timeout"
    if kind in ("oracle", "correspondence"):
        return kind
    w = where.lower()
    if w.startswith("correspondence "):
        return "correspondence"
    if "kernel-stationarity" in w or "pi k = pi" in w or w.startswith("scale-invariance"):
        return "oracle"
    if w.startswith("public-api-coverage"):
        return "oracle/api-coverage"
    if w.startswith("input distribution"):
        return "coverage-gate"
    if w.startswith("theorem ") or w.startswith("lake build qmcprops") or w.startswith("leanchecker"):
        return "proof/lean"
    if "translate_pure" in w or "purefnsagree" in w or "translated rust" in w or "regenerate generated" in w or "pool capacities" in w \
            or "regenerated" in w or "return_instance does" in w or "agreement theorem" in w:
        return "proof/translator"
    if "cargo build harness" in w:
        return "harness-build"
    if "driver" in w:
        return "driver"
    return "proof/other"


def process(w, m, logdir, tier="quick"):
    rec = {k: m[k] for k in ("id", "file", "line", "fn", "opclass", "operator", "before", "after", "anchored_props")}
    rec["worker"] = w.i
    t0 = time.time()
    w.restore()
    w.refresh_harness()
    w.apply(m)
    try:
        rc, out, err, dt = w.build_lib()
        rec["t_build"] = round(dt, 1)
        if rc != 0:
            if "could not compile `qmc`" in err or "error[E" in err or "error:" in err:
                rec["stage"] = "compile-fail"
                rec["detail"] = "\n".join([l for l in err.splitlines() if l.startswith("error")][:3])[:400]
                return rec
            rec["stage"] = "infra"
            rec["detail"] = "lib build rc=%d %s" % (rc, err[-400:])
            return rec
        rc, out, err, dt = w.tests()
        rec["t_tests"] = round(dt, 1)
        if rc != 0:
            text = out + "\n" + err
            if re.search(r"error(\[E\d+\])?: ", err) and "could not compile" in err:
                rec["stage"] = "compile-fail"
                rec["detail"] = "default-feature build: " + "\n".join([l for l in err.splitlines() if l.startswith("error")][:3])[:400]
            else:
                rec["stage"] = "killed-by-tests"
                failed = re.findall(r"^test (\S+) \.\.\. FAILED", text, re.M)
                rec["detail"] = ("timeout " if rc == 124 else "") + ", ".join(failed[:4]) if (failed or rc == 124) else text[-300:]
            return rec
        rec["checks"] = []
        order = checks_for(m)
        for prop in order:
            info, out, err = w.check(prop, tier)
            if info["verdict"] == "VIOLATION" and harness_build_broken(info):
                # harness did not build: the harness copy may have been refreshed in the middle of somebody's edit
                good = os.path.join(ROOT, "harness_good", "src")
                if os.path.isdir(good):
                    w.refresh_harness(good)
                    info, out, err = w.check(prop, tier)
                if info["verdict"] == "VIOLATION" and harness_build_broken(info):
                    info["verdict"] = "HARNESS-BUILD-FAIL"
            with open(os.path.join(logdir, "%s_%s.log" % (m["id"], prop)), "w") as f:
                f.write(out[-20000:] + "\n--- stderr ---\n" + err[-5000:])
            rec["checks"].append(info)
            if info["verdict"] == "VIOLATION":
                rec["stage"] = "caught"
                rec["caught_by"] = prop
                rec["first_failure"] = info.get("first_failure", "")
                rec["broken_obligations"] = info.get("broken_obligations", [])
                rec["obligation_classes"] = sorted(set(classify_obligation(b) for b in rec["broken_obligations"]))
                return rec
            if info["verdict"] in ("TIMEOUT", "CRASH"):
                # legitimate only if the same check passes on the unmutated worker
                w.restore()
                base, bout, berr = w.check(prop, tier)
                info["baseline_verdict"] = base["verdict"]
                w.apply(m)
                if base["verdict"] == "OK":
                    rec["stage"] = "caught"
                    rec["caught_by"] = prop
                    rec["first_failure"] = "check %s under the mutant (passes on the unmutated worker): %s" % (info["verdict"], info.get("tail", "")[-300:])
                    rec["broken_obligations"] = ["harness:check-" + info["verdict"].lower()]
                    rec["obligation_classes"] = ["hang/crash"]
                    return rec
                info["verdict"] = "INFRA"
        bad = [c for c in rec["checks"] if c["verdict"] not in ("OK",)]
        rec["stage"] = "survivor" if not bad else "survivor?infra"
        return rec
    finally:
        rec["wall_s"] = round(time.time() - t0, 1)
        w.restore()


def load_results():
    if os.path.exists(RESULTS):
        try:
            return json.load(open(RESULTS))
        except Exception:   # noqa
            pass
    return {"tool": "tools/mutsweep.py", "repo_head": subprocess.check_output(["git", "-C", REPO, "rev-parse", "--short", "HEAD"], text=True).strip(),
            "mutants": []}


def save_results(res):
    tmp = RESULTS + ".tmp"
    with open(tmp, "w") as f:
        json.dump(res, f, indent=1)
    os.replace(tmp, RESULTS)


def cmd_setup(args):
    for i in range(args.workers):
        w = Worker(i)
        w.setup()
        print("worker", i, "ready at", w.dir)


def cmd_run(args):
    q = json.load(open(QUEUE))
    res = load_results()
    res["seed"] = q["seed"]
    res["total_enumerated"] = q["total_enumerated"]
    res["per_file_enumerated"] = q["per_file_enumerated"]
    res["queued"] = len(q["mutants"])
    done = set(r["id"] for r in res["mutants"])
    todo = [m for m in q["mutants"] if m["id"] not in done]
    if args.only_files:
        todo = [m for m in todo if any(s in m["file"] for s in args.only_files.split(","))]
    deadline = time.time() + args.minutes * 60
    logdir = os.path.join(ROOT, "logs")
    os.makedirs(logdir, exist_ok=True)
    save_generated()
    idx = [0]

    def loop(i):
        w = Worker(i)
        w.setup()
        while True:
            if time.time() > deadline or os.path.exists(os.path.join(ROOT, "STOP")):
                return
            with Q_LOCK:
                if idx[0] >= len(todo):
                    return
                m = todo[idx[0]]
                idx[0] += 1
            try:
                rec = process(w, m, logdir, args.tier)
            except Exception as ex:   # noqa
                rec = dict(m, stage="infra", detail="exception %r" % ex, worker=i)
                try:
                    w.restore()
                except Exception:   # noqa
                    pass
            with RES_LOCK:
                res["mutants"].append(rec)
                save_results(res)
                print("[%s] w%d %s %s:%d %-8s %-22s -> %s %s (%.0fs)" % (time.strftime("%H:%M:%S"), i, rec["id"], os.path.basename(rec["file"]), rec["line"],
                      rec["opclass"], rec["operator"][:22], rec["stage"], rec.get("caught_by", ""), rec.get("wall_s", 0)), flush=True)

    ths = [threading.Thread(target=loop, args=(i,)) for i in range(args.workers)]
    for t in ths:
        t.start()
    for t in ths:
        t.join()
    restore_generated()
    print("run finished: %d results" % len(res["mutants"]))


def cmd_one(args):
    q = json.load(open(QUEUE))
    m = [x for x in q["mutants"] if x["id"] == args.id][0]
    save_generated()
    w = Worker(args.worker)
    w.setup()
    os.makedirs(os.path.join(ROOT, "logs"), exist_ok=True)
    rec = process(w, m, os.path.join(ROOT, "logs"))
    print(json.dumps(rec, indent=1))


def cmd_confirm(args):
    """sequential re-run of every survivor's mapped checks on worker 0 (nothing else of this tool may run)"""
    res = load_results()
    save_generated()
    w = Worker(0)
    w.setup()
    logdir = os.path.join(ROOT, "logs")
    deadline = time.time() + args.minutes * 60
    for rec in res["mutants"]:
        if not rec.get("stage", "").startswith("survivor") or rec.get("confirmed") is not None:
            continue
        if args.ids and rec["id"] not in args.ids.split(","):
            continue
        if time.time() > deadline:
            break
        t0 = time.time()
        w.restore()
        w.refresh_harness()
        w.apply(rec)
        props = [c["check"] for c in rec.get("checks", [])]
        props += [p for p in checks_for(rec) if p not in props]
        if args.only_new:
            props = [p for p in props if p not in [c["check"] for c in rec.get("checks", [])]] + [p for p in props if p in SERIALISED]
        if not args.all_checks:
            props = [p for p in props if p in SERIALISED] + [p for p in props if p not in SERIALISED][:args.max_checks]
        reruns = []
        verdict = True
        for p in props:
            info, out, err = w.check(p)
            reruns.append(info)
            with open(os.path.join(logdir, "%s_%s.confirm.log" % (rec["id"], p)), "w") as f:
                f.write(out[-20000:] + "\n--- stderr ---\n" + err[-5000:])
            if info["verdict"] == "VIOLATION" and not harness_build_broken(info):
                verdict = False
                rec["stage"] = "caught"
                rec["caught_by"] = p
                rec["first_failure"] = info.get("first_failure", "")
                rec["broken_obligations"] = info.get("broken_obligations", [])
                rec["obligation_classes"] = sorted(set(classify_obligation(b) for b in rec["broken_obligations"]))
                rec["note"] = "green in the parallel sweep, caught in the sequential confirmation run"
                break
        w.restore()
        rec["confirm_checks"] = reruns
        rec["confirm_scope"] = "all mapped checks" if args.all_checks else "C13/C14/C18 of the mapped list + first %d other mapped check(s)" % args.max_checks
        rec["confirmed"] = verdict
        rec["confirm_wall_s"] = round(time.time() - t0, 1)
        save_results(res)
        print("[%s] confirm %s %s:%d %s -> %s" % (time.strftime("%H:%M:%S"), rec["id"], os.path.basename(rec["file"]), rec["line"], rec["operator"],
              "SURVIVOR confirmed" if verdict else "caught by " + rec["caught_by"]), flush=True)
    restore_generated()


def cmd_report(args):
    res = load_results()
    ms = res["mutants"]
    stages = {}
    for r in ms:
        stages[r["stage"]] = stages.get(r["stage"], 0) + 1
    print("## Counts per stage\n")
    print("enumerated %s, queued %s (seed %s), processed %d\n" % (res.get("total_enumerated"), res.get("queued"), res.get("seed"), len(ms)))
    for k in sorted(stages):
        print("* %s: %d" % (k, stages[k]))
    s3 = [r for r in ms if r["stage"] in ("caught", "survivor", "survivor?infra")]
    print("\nreached stage 3: %d; caught %d; survivors %d\n" % (len(s3), sum(1 for r in s3 if r["stage"] == "caught"), sum(1 for r in s3 if r["stage"] != "caught")))
    print("## Per file\n\n| file | processed | compile-fail | killed by tests | stage 3 | caught | survivors | kill ratio (stage 3) |\n|---|---|---|---|---|---|---|---|")
    files = sorted(set(r["file"] for r in ms))
    for f in files:
        rs = [r for r in ms if r["file"] == f]
        c3 = [r for r in rs if r["stage"] in ("caught", "survivor", "survivor?infra")]
        ca = sum(1 for r in c3 if r["stage"] == "caught")
        print("| %s | %d | %d | %d | %d | %d | %d | %s |" % (f, len(rs), sum(1 for r in rs if r["stage"] == "compile-fail"), sum(1 for r in rs if r["stage"] == "killed-by-tests"),
              len(c3), ca, len(c3) - ca, ("%.0f%%" % (100.0 * ca / len(c3))) if c3 else "-"))
    print("\n## Per operator class (stage 3)\n\n| class | stage 3 | caught | survivors |\n|---|---|---|---|")
    for c in OPCLASSES:
        c3 = [r for r in s3 if r["opclass"] == c]
        ca = sum(1 for r in c3 if r["stage"] == "caught")
        print("| %s | %d | %d | %d |" % (c, len(c3), ca, len(c3) - ca))
    print("\n## Caught: which check, which kind of obligation\n")
    byc, byk, first = {}, {}, {}
    for r in s3:
        if r["stage"] == "caught":
            byc[r["caught_by"]] = byc.get(r["caught_by"], 0) + 1
            cls = sorted(set(classify_obligation(b) for b in r.get("broken_obligations", []))) or r.get("obligation_classes", [])
            if r.get("obligation_classes") == ["hang/crash"]:
                cls = ["hang/crash"]
            for k in cls:
                byk[k] = byk.get(k, 0) + 1
            key = "+".join(cls)
            first[key] = first.get(key, 0) + 1
    print("by check: " + ", ".join("%s %d" % (k, byc[k]) for k in sorted(byc)))
    print("\nby obligation class (a mutant may break several): " + ", ".join("%s %d" % (k, byk[k]) for k in sorted(byk)))
    print("\nby combination: " + ", ".join("%s %d" % (k, first[k]) for k in sorted(first)))
    print("\n## Survivors\n")
    for r in s3:
        if r["stage"] != "caught":
            print("* %s %s:%d fn %s [%s] `%s` -> `%s` checks=%s confirmed=%s" % (r["id"], r["file"], r["line"], r["fn"], r["operator"], r["before"].strip(), r["after"].strip(),
                  ",".join(c["check"] for c in r.get("checks", [])), r.get("confirmed")))


def cmd_cleanup(args):
    for d in sorted(os.listdir(ROOT)):
        p = os.path.join(ROOT, d)
        if re.match(r"w\d+$", d):
            subprocess.run(["git", "-C", REPO, "worktree", "remove", "--force", os.path.join(p, "repo")])
            shutil.rmtree(p, ignore_errors=True)
    subprocess.run(["git", "-C", REPO, "worktree", "prune"])


def main():
    ap = argparse.ArgumentParser()
    sub = ap.add_subparsers(dest="cmd", required=True)
    g = sub.add_parser("gen"); g.add_argument("--seed", type=int, default=20260926); g.add_argument("--n", type=int, default=900)
    s = sub.add_parser("setup"); s.add_argument("--workers", type=int, default=3)
    r = sub.add_parser("run"); r.add_argument("--workers", type=int, default=3); r.add_argument("--minutes", type=float, default=150)
    r.add_argument("--tier", default="quick"); r.add_argument("--only-files", default="")
    o = sub.add_parser("one"); o.add_argument("id"); o.add_argument("--worker", type=int, default=0)
    c = sub.add_parser("confirm"); c.add_argument("--all-checks", action="store_true"); c.add_argument("--max-checks", type=int, default=99)
    c.add_argument("--minutes", type=float, default=60); c.add_argument("--only-new", action="store_true"); c.add_argument("--ids", default="")
    sub.add_parser("report")
    sub.add_parser("cleanup")
    a = ap.parse_args()
    {"gen": cmd_gen, "setup": cmd_setup, "run": cmd_run, "one": cmd_one, "confirm": cmd_confirm, "report": cmd_report, "cleanup": cmd_cleanup}[a.cmd](a)


if __name__ == "__main__":
    main()
