#!/bin/sh
# tools/seed2.sh <Cxx> : confirm both round-2 seeds of /tmp/seed2-Cxx, stash them as Cxx-3/Cxx-4, run the check on them
P=$1
for n in 1 2; do
  m=$((n+2))
  R=$(/verif/tools/confirm_seed.sh /tmp/seed2-$P $n 2>&1 | tail -1)
  mkdir -p /verif/seeded/_incoming/$P-$m && cp /tmp/seed2-$P/SEED/$n/* /verif/seeded/_incoming/$P-$m/
  echo "[$P-$m] confirm: $R"
  /verif/tools/seedcheck.sh $P $m
done
