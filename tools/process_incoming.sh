#!/bin/sh
# tools/process_incoming.sh <Cxx-n> [check-id] : confirm an incoming seed, then run the property's quick check against it
ID=$1; P=${ID%%-*}; N=${ID##*-}; C=${2:-$P}
mkdir -p /var/tmp/r8
{ /verif/tools/confirm_incoming.sh $ID 2>&1 | tail -4; /verif/tools/seedcheck.sh $P $N $C 2>&1; } > /var/tmp/r8/$ID.log 2>&1
echo "done $ID: $(grep -c CONFIRMED /var/tmp/r8/$ID.log) $(grep -E 'CONFIRMED|VIOLATION|^\[.*OK' /var/tmp/r8/$ID.log | cut -c1-150 | tr '\n' ' ')"
