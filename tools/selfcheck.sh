#!/bin/sh
# tools/selfcheck.sh : coordinator's hygiene run (not a registered check): every Lean module is imported by QmcAll,
# QmcAll builds (no name clashes, nothing stale), no forbidden token anywhere, MANIFEST and evidence validate.
cd /verif || exit 2
python3 tools/gen_all_imports.py --check || exit 1
(cd lean && lake build QmcAll 2>&1 | tail -3) || exit 1
grep -rnE '\bsorry\b|\badmit\b|^axiom |native_decide|bv_decide|implemented_by|^unsafe |maxHeartbeats 0' lean/Qmc* lean/Drivers --include=*.lean | grep -v '^\S*:[0-9]*:\s*--' | grep -v 'no sorry\|without sorry\|`sorry`\|sorry/admit\|"sorry' | head
python3-vt - <<'P'
import json, glob, jsonschema
jsonschema.validate(json.load(open('MANIFEST.json')), json.load(open('/root/.vp/MANIFEST.schema.json')))
s = json.load(open('/root/.vp/EVIDENCE.schema.json'))
for f in sorted(glob.glob('evidence/*.json')):
    jsonschema.validate(json.load(open(f)), s)
print('manifest + %d evidence files validate' % len(glob.glob('evidence/*.json')))
P
