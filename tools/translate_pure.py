#!/usr/bin/env python3
"""tools/translate_pure.py — translate a WHITELIST of small pure Rust functions / expressions of /repo/src
into Lean definitions (lean/QmcModel/Generated/PureFns.lean, namespace `Qmc.Gen`, core Lean only).

lean/QmcProofs/PureFnsAgree.lean proves every generated definition EQUAL (for all arguments) to the hand-written
model definition it corresponds to; `checks/pure_fns.py` regenerates + re-proves on every run.  So an edit of one of
these Rust functions either changes the generated Lean (and the agreement proof breaks) or leaves the whitelist of
shapes (and this tool FAILS CLOSED: exit 2, message names the function/site and the construct; nothing written).

The translation is regex level for *locating* a site (the code base is rustfmt-formatted) and a small typed
recursive-descent parser for the *expression*.  Grammar (nothing else is accepted):

    expr   := or
    or     := and ('||' and)*                      and := cmp ('&&' cmp)*
    cmp    := xor (('=='|'!='|'<'|'<='|'>'|'>=') xor)?              (non associative, as in Rust)
    xor    := shift ('^' shift)*                   (bool xor; only at sites that switch the feature "xor" on)
    shift  := add ('>>' add)*                      add := mul (('+'|'-') mul)*
    mul    := cast (('*'|'/'|'%') cast)*           cast := unary ('as' ('f64'|'i32'|'usize'))*
    unary  := ('-'|'!') unary | postfix
    postfix:= primary ('.abs()' | '.powi(' expr ')'
                      | '.exp()' | '.sqrt()'                       (features "exp"/"sqrt": UNINTERPRETED symbols Rat -> Rat)
                      | '.unwrap_or(' expr ')' | '.unwrap_or_else(||' expr ')'    (feature "unwrap_or": Option.getD)
                      )*
    primary:= float | int | 'true' | 'false' | ident | path-constant (std::f64::EPSILON, f64::EPSILON)
            | '(' expr ')' | '(' expr ',' expr ')'
            | 'max(' expr ',' expr ')' | 'min(' expr ',' expr ')'
            | 'gen_bool(' expr ')'                 (after the site's receiver normalisation `rng.gen_bool` -> `gen_bool`;
                                                    an UNINTERPRETED function symbol Rat -> Bool)
            | 'Ok(' expr ')' | 'Err(())'           (Result<_, ()> as Option)
            | 'vec![' expr (',' expr)* ']' | '&[' expr (',' expr)* ']'       (a List of scalars)
            | f '(' expr (',' expr)* ')'           f one of the site's declared UNINTERPRETED function symbols
            | 'if' expr block 'else' (block | if-expr)
            | 'match' expr '{' (pat ('|' pat)* '=>' expr ','?)* '}'      pat := '(' b ',' b ')' | b ;  b := true|false|_
            | block
    block  := '{' ('let' (ident | '(' ident ',' ident ')') '=' expr ';')* expr '}'

Types: f64 -> Rat (exact; rounding / NaN / inf / -0.0 are NOT modelled), usize -> Nat (`-` is truncated subtraction:
Rust panics (debug) or wraps (release) where Nat gives 0), i32 -> Int (no overflow), bool -> Bool, (bool, bool) ->
Bool × Bool.  `x as f64` / `x as i32` are the exact coercions Nat -> Rat / Nat -> Int (recorded as a note per site).
A site may declare ONE parameter a *drawn value* (e.g. `rng.gen::<f64>()` rewritten to `gen_f64`): `<name>_draws : Nat` then
counts its evaluations under Rust's evaluation order.  Compound assignments / loops are not in the grammar: a site's skeleton
regex pins the statements literally and hands the captured right-hand side of `x += e;` to the parser as `x + (e)`.
Every identifier must be in the site's declared environment; every site lists the receiver spellings it rewrites to
variables (e.g. `manager.get_n()` -> `n`).  Integer `/` on Nat is floor division in both languages.

usage: translate_pure.py [--repo /repo] [--out <file>] [--check]
exit 0 ok (file rewritten only if its content changed), 1 with --check if it would change, 2 FAIL CLOSED.
"""
import hashlib
import os
import re
import sys
from fractions import Fraction

HERE = os.path.dirname(os.path.abspath(__file__))
VERIF = os.path.dirname(HERE)
OUT = os.path.join(VERIF, "lean", "QmcModel", "Generated", "PureFns.lean")


class Unknown(Exception):
    """source shape outside the whitelist -> fail closed"""

    def __init__(self, site, what):
        Exception.__init__(self, "%s: %s" % (site, what))
        self.site = site
        self.what = what


# ------------------------------------------------------------------------------------------------
# lexical helpers
# ------------------------------------------------------------------------------------------------
def strip_comments(src):
    """comments -> spaces (newlines kept: offsets and line numbers survive); no string literal in the translated
    sites contains `//`, and a string literal inside a translated expression is rejected by the lexer anyway"""
    out = []
    i, n = 0, len(src)
    while i < n:
        if src.startswith("//", i):
            while i < n and src[i] != "\n":
                out.append(" ")
                i += 1
        elif src.startswith("/*", i):
            j = src.find("*/", i + 2)
            j = n if j < 0 else j + 2
            out.append(re.sub(r"[^\n]", " ", src[i:j]))
            i = j
        else:
            out.append(src[i])
            i += 1
    return "".join(out)


def match_brace(src, i, site):
    """index of the brace closing the one at src[i]"""
    assert src[i] == "{"
    depth = 0
    for j in range(i, len(src)):
        if src[j] == "{":
            depth += 1
        elif src[j] == "}":
            depth -= 1
            if depth == 0:
                return j
    raise Unknown(site, "unbalanced braces")


class Source:
    def __init__(self, repo, rel):
        self.rel = rel
        self.path = os.path.join(repo, rel)
        try:
            self.raw = open(self.path).read()
        except OSError as e:
            raise Unknown(rel, "cannot read source file (%s)" % e)
        self.src = strip_comments(self.raw)
        # all `fn name` items with the extent of their body
        self.fns = []
        for m in re.finditer(r"\bfn\s+(\w+)\s*(?:<[^{};]*?>)?\s*\(", self.src):
            # find the body's opening brace: first `{` at paren depth 0 after the parameter list; a `;` first = no body
            j = m.end() - 1
            depth = 0
            k = j
            body = None
            while k < len(self.src):
                c = self.src[k]
                if c in "([":
                    depth += 1
                elif c in ")]":
                    depth -= 1
                elif c == ";" and depth == 0:
                    break
                elif c == "{" and depth == 0:
                    body = k
                    break
                k += 1
            if body is None:
                continue
            end = match_brace(self.src, body, rel + ":" + m.group(1))
            self.fns.append({"name": m.group(1), "start": m.start(), "sig": self.src[m.start():body], "body0": body, "body1": end})

    def line(self, off):
        return self.src.count("\n", 0, off) + 1

    def fn(self, name, site, nth=None, expect=1):
        fs = [f for f in self.fns if f["name"] == name]
        if len(fs) != expect:
            raise Unknown(site, "expected %d `fn %s` in %s, found %d" % (expect, name, self.rel, len(fs)))
        return fs[0 if nth is None else nth]

    def enclosing(self, off):
        best = None
        for f in self.fns:
            if f["body0"] <= off <= f["body1"]:
                if best is None or f["body0"] > best["body0"]:
                    best = f
        return best["name"] if best else "<top level>"

    def body(self, f):
        return self.src[f["body0"] + 1:f["body1"]]


TOKEN = re.compile(
    r"\s*(?:(?P<float>\d+\.\d*(?!\.)|\d+\.(?=\s|\)|,|;|$))|(?P<int>\d+)|(?P<id>[A-Za-z_]\w*(?:::[A-Za-z_]\w*)*)"
    r"|(?P<op>=>|==|!=|<=|>=|&&|\|\||>>|[-+*/%()<>!,.{}|=;\[\]&^]))"
)


def lex(text, site):
    toks = []
    i = 0
    text = text.rstrip()
    while i < len(text):
        m = TOKEN.match(text, i)
        if not m or m.end() == i:
            raise Unknown(site, "unrecognised token at %r" % text[i:i + 30].strip())
        if m.group("float") is not None:
            toks.append(("float", m.group("float")))
        elif m.group("int") is not None:
            toks.append(("int", m.group("int")))
        elif m.group("id") is not None:
            toks.append(("id", m.group("id")))
        else:
            toks.append(("op", m.group("op")))
        i = m.end()
    return toks


# ------------------------------------------------------------------------------------------------
# parser -> AST (tuples)
# ------------------------------------------------------------------------------------------------
CONSTS = {"std::f64::EPSILON": "EPSILON", "f64::EPSILON": "EPSILON"}
CASTS = {"f64": "Rat", "i32": "Int", "usize": "Nat"}
KEYWORDS = {"if", "else", "match", "let", "as", "true", "false", "max", "min", "gen_bool", "Ok", "Err", "vec", "fn", "return",
            "while", "for", "loop", "mut", "ref", "move", "unsafe"}


class Parser:
    def __init__(self, toks, site, uninterp=(), features=()):
        self.t = toks
        self.i = 0
        self.site = site
        self.uninterp = set(uninterp)   # names of the site's uninterpreted function symbols
        # grammar extensions a site must switch on explicitly: "exp" / "sqrt" (method form of an uninterpreted symbol),
        # "unwrap_or" (`opt.unwrap_or(d)` / `opt.unwrap_or_else(|| d)`), "xor" (`a ^ b` on bool)
        self.features = set(features)

    def peek(self, k=0):
        return self.t[self.i + k] if self.i + k < len(self.t) else ("eof", "")

    def next(self):
        tok = self.peek()
        self.i += 1
        return tok

    def at(self, kind, val=None):
        tok = self.peek()
        return tok[0] == kind and (val is None or tok[1] == val)

    def expect(self, kind, val=None):
        tok = self.next()
        if tok[0] != kind or (val is not None and tok[1] != val):
            raise Unknown(self.site, "expected %s, found %r (construct outside the grammar)" % (val or kind, tok[1]))
        return tok

    def fail(self, what):
        raise Unknown(self.site, what)

    def done(self):
        if self.i != len(self.t):
            self.fail("unexpected trailing %r" % " ".join(t[1] for t in self.t[self.i:self.i + 6]))

    # --- expressions; `nostruct` = inside an `if`/`match` head a `{` ends the expression
    def expr(self):
        return self.p_or()

    def p_or(self):
        a = self.p_and()
        while self.at("op", "||"):
            self.next()
            a = ("or", a, self.p_and())
        return a

    def p_and(self):
        a = self.p_cmp()
        while self.at("op", "&&"):
            self.next()
            a = ("and", a, self.p_cmp())
        return a

    def p_cmp(self):
        a = self.p_xor()
        if self.peek()[0] == "op" and self.peek()[1] in ("==", "!=", "<", "<=", ">", ">="):
            op = self.next()[1]
            b = self.p_xor()
            if self.peek()[0] == "op" and self.peek()[1] in ("==", "!=", "<", "<=", ">", ">="):
                self.fail("chained comparison")
            return ("cmp", op, a, b)
        return a

    def p_xor(self):
        a = self.p_shift()
        while self.at("op", "^"):
            if "xor" not in self.features:
                self.fail("operator `^` (only at sites that declare bool xor)")
            self.next()
            a = ("xor", a, self.p_shift())
        return a

    def p_shift(self):
        a = self.p_add()
        while self.at("op", ">>"):
            self.next()
            a = ("bin", ">>", a, self.p_add())
        return a

    def p_add(self):
        a = self.p_mul()
        while self.peek()[0] == "op" and self.peek()[1] in ("+", "-"):
            op = self.next()[1]
            a = ("bin", op, a, self.p_mul())
        return a

    def p_mul(self):
        a = self.p_cast()
        while self.peek()[0] == "op" and self.peek()[1] in ("*", "/", "%"):
            op = self.next()[1]
            a = ("bin", op, a, self.p_cast())
        return a

    def p_cast(self):
        a = self.p_unary()
        while self.at("id", "as"):
            self.next()
            ty = self.expect("id")[1]
            if ty not in CASTS:
                self.fail("cast `as %s`" % ty)
            a = ("cast", CASTS[ty], ty, a)
        return a

    def p_unary(self):
        if self.at("op", "-"):
            self.next()
            return ("neg", self.p_unary())
        if self.at("op", "!"):
            self.next()
            return ("not", self.p_unary())
        if self.at("op", "*"):
            self.fail("dereference `*` (must be removed by the site's receiver normalisation)")
        if self.at("op", "&"):
            self.next()
            if not self.at("op", "["):
                self.fail("reference `&` (only the slice literal `&[a, b, …]`)")
            self.next()
            items = [self.expr()]
            while self.at("op", ","):
                self.next()
                if self.at("op", "]"):
                    break
                items.append(self.expr())
            self.expect("op", "]")
            return ("list", items)
        return self.p_postfix()

    def p_postfix(self):
        a = self.p_primary()
        while self.at("op", "."):
            self.next()
            name = self.expect("id")[1]
            self.expect("op", "(")
            if name == "abs":
                self.expect("op", ")")
                a = ("abs", a)
            elif name == "powi":
                e = self.expr()
                self.expect("op", ")")
                a = ("powi", a, e)
            elif name in ("exp", "sqrt") and name in self.features:
                # `x.exp()` / `x.sqrt()`: application of the site's UNINTERPRETED symbol `exp` / `sqrt` : Rat -> Rat
                self.expect("op", ")")
                a = ("app", name, [a])
            elif name == "unwrap_or" and "unwrap_or" in self.features:
                # `opt.unwrap_or(default)` on a declared Option-typed variable (only at sites that declare it)
                e = self.expr()
                self.expect("op", ")")
                a = ("getD", a, e)
            elif name == "unwrap_or_else" and "unwrap_or" in self.features:
                # `opt.unwrap_or_else(|| default)`: the closure takes no argument, so it is the lazily evaluated default
                self.expect("op", "||")
                e = self.expr()
                self.expect("op", ")")
                a = ("getD", a, e)
            else:
                self.fail("method call `.%s()`" % name)
        return a

    def p_block(self):
        self.expect("op", "{")
        lets = []
        while self.at("id", "let"):
            self.next()
            if self.at("op", "("):
                self.next()
                a = self.expect("id")[1]
                self.expect("op", ",")
                b = self.expect("id")[1]
                self.expect("op", ")")
                if a in KEYWORDS or b in KEYWORDS or "::" in a + b or a == b:
                    self.fail("let pattern `(%s, %s)`" % (a, b))
                self.expect("op", "=")
                e = self.expr()
                self.expect("op", ";")
                lets.append(((a, b), e))
                continue
            name = self.expect("id")[1]
            if name in KEYWORDS or "::" in name:
                self.fail("let pattern `%s`" % name)
            self.expect("op", "=")
            e = self.expr()
            self.expect("op", ";")
            lets.append((name, e))
        e = self.expr()
        self.expect("op", "}")
        for name, v in reversed(lets):
            e = ("letpair", name[0], name[1], v, e) if isinstance(name, tuple) else ("let", name, v, e)
        return e

    def p_pat(self):
        def b():
            tok = self.next()
            if tok[0] == "id" and tok[1] in ("true", "false", "_"):
                return tok[1]
            self.fail("match pattern element %r (only true / false / _)" % tok[1])
        if self.at("op", "("):
            self.next()
            ps = [b()]
            while self.at("op", ","):
                self.next()
                ps.append(b())
            self.expect("op", ")")
            return tuple(ps)
        return (b(),)

    def p_primary(self):
        kind, val = self.peek()
        if kind == "float":
            self.next()
            return ("num", "Rat", Fraction(val + "0" if val.endswith(".") else val))
        if kind == "int":
            self.next()
            return ("num", "Nat", Fraction(val))
        if kind == "op" and val == "(":
            self.next()
            a = self.expr()
            if self.at("op", ","):
                self.next()
                b = self.expr()
                self.expect("op", ")")
                return ("tuple", a, b)
            self.expect("op", ")")
            return a
        if kind == "op" and val == "{":
            return self.p_block()
        if kind == "id":
            if val in ("true", "false"):
                self.next()
                return ("bool", val)
            if val == "if":
                self.next()
                c = self.expr()
                a = self.p_block()
                if not self.at("id", "else"):
                    self.fail("`if` without `else`")
                self.next()
                if self.at("id", "if"):
                    b = self.p_primary()
                else:
                    b = self.p_block()
                return ("if", c, a, b)
            if val == "match":
                self.next()
                s = self.expr()
                self.expect("op", "{")
                arms = []
                while not self.at("op", "}"):
                    pats = [self.p_pat()]
                    while self.at("op", "|"):
                        self.next()
                        pats.append(self.p_pat())
                    if self.at("id", "if"):
                        self.fail("match guard")
                    self.expect("op", "=>")
                    e = self.expr()
                    if self.at("op", ","):
                        self.next()
                    arms.append((pats, e))
                self.expect("op", "}")
                if not arms:
                    self.fail("empty match")
                return ("match", s, arms)
            if val in ("max", "min"):
                self.next()
                self.expect("op", "(")
                a = self.expr()
                self.expect("op", ",")
                b = self.expr()
                self.expect("op", ")")
                return (val, a, b)
            if val == "gen_bool":
                self.next()
                self.expect("op", "(")
                a = self.expr()
                self.expect("op", ")")
                return ("gen_bool", a)
            if val == "Ok":
                self.next()
                self.expect("op", "(")
                a = self.expr()
                self.expect("op", ")")
                return ("some", a)
            if val == "Err":
                self.next()
                for v in "(", "(", ")", ")":
                    self.expect("op", v)
                return ("none",)
            if val == "vec":
                self.next()
                self.expect("op", "!")
                self.expect("op", "[")
                items = [self.expr()]
                while self.at("op", ","):
                    self.next()
                    if self.at("op", "]"):
                        break
                    items.append(self.expr())
                self.expect("op", "]")
                return ("list", items)
            if val in CONSTS:
                self.next()
                return ("const", CONSTS[val])
            if val in KEYWORDS or "::" in val:
                self.fail("keyword / path `%s`" % val)
            self.next()
            if self.at("op", "("):
                if val not in self.uninterp:
                    self.fail("call of `%s(...)`" % val)
                self.next()
                args = []
                while not self.at("op", ")"):
                    args.append(self.expr())
                    if self.at("op", ","):
                        self.next()
                    elif not self.at("op", ")"):
                        self.fail("argument list of `%s`" % val)
                self.next()
                return ("app", val, args)
            return ("var", val)
        self.fail("unexpected %r" % (val or "end of expression"))


def parse_expr(text, site, uninterp=(), features=()):
    p = Parser(lex(text, site), site, uninterp, features)
    e = p.expr()
    p.done()
    return e


def parse_block_body(text, site, uninterp=(), features=()):
    """`let` chain + tail expression, as the inside of a block"""
    p = Parser(lex("{" + text + "}", site), site, uninterp, features)
    e = p.p_block()
    p.done()
    return e


# ------------------------------------------------------------------------------------------------
# types + Lean emission
# ------------------------------------------------------------------------------------------------
def tyname(t):
    if isinstance(t, tuple):
        if t[0] == "tuple":
            return "(" + " × ".join(tyname(x) for x in t[1:]) + ")"
        if t[0] == "opt":
            return "Option " + tyname(t[1])
        if t[0] == "list":
            return "List " + tyname(t[1])
        if t[0] == "fn":
            return "(" + " → ".join(tyname(x) for x in list(t[1]) + [t[2]]) + ")"
    return t


class Emit:
    """type-checks an AST against an environment and renders it as a fully parenthesised Lean term"""

    def __init__(self, site, env):
        self.site = site
        self.env = dict(env)
        self.notes = []
        self.uses_gen_bool = False

    def fail(self, what):
        raise Unknown(self.site, what)

    def note(self, s):
        if s not in self.notes:
            self.notes.append(s)

    def go(self, e, env=None, ind=2):
        """-> (lean text, type)"""
        env = self.env if env is None else env
        k = e[0]
        pad = " " * ind
        if k == "num":
            _, t, v = e
            if t == "Nat":
                return "(%d : Nat)" % v.numerator, "Nat"
            if v.denominator == 1:
                return "(%d : Rat)" % v.numerator, "Rat"
            return "((%d : Rat) / %d)" % (v.numerator, v.denominator), "Rat"
        if k == "bool":
            return e[1], "Bool"
        if k == "const":
            return "EPSILON", "Rat"
        if k == "var":
            if e[1] not in env:
                self.fail("identifier `%s` is not in the declared environment of this site" % e[1])
            if isinstance(env[e[1]], tuple) and env[e[1]][0] == "fn":
                self.fail("uninterpreted function `%s` used without arguments" % e[1])
            return e[1], env[e[1]]
        if k == "neg":
            a, t = self.go(e[1], env, ind)
            if t not in ("Rat", "Int"):
                self.fail("unary minus on %s" % tyname(t))
            return "(-%s)" % a, t
        if k == "not":
            a, t = self.go(e[1], env, ind)
            if t != "Bool":
                self.fail("`!` on %s" % tyname(t))
            return "(!%s)" % a, "Bool"
        if k == "bin":
            _, op, x, y = e
            a, ta = self.go(x, env, ind)
            b, tb = self.go(y, env, ind)
            if ta != tb or ta not in ("Rat", "Nat", "Int"):
                self.fail("`%s` between %s and %s" % (op, tyname(ta), tyname(tb)))
            if op in ("%", ">>") and ta != "Nat":
                self.fail("`%s` on %s" % (op, ta))
            if op == "-" and ta == "Nat":
                self.note("usize `-` is Nat truncated subtraction (Rust: panic in debug / wrap in release on underflow)")
            if op == "/" and ta == "Nat":
                self.note("usize `/` is floor division in both languages")
            lop = {">>": ">>>"}.get(op, op)
            return "(%s %s %s)" % (a, lop, b), ta
        if k == "cmp":
            _, op, x, y = e
            a, ta = self.go(x, env, ind)
            b, tb = self.go(y, env, ind)
            if ta != tb:
                self.fail("comparison `%s` between %s and %s" % (op, tyname(ta), tyname(tb)))
            if op in ("==", "!="):
                if ta == "Rat":
                    self.note("f64 `%s` is exact equality of rationals (no NaN)" % op)
                return "(decide (%s %s %s))" % (a, {"==": "=", "!=": "≠"}[op], b), "Bool"
            if ta not in ("Rat", "Nat", "Int"):
                self.fail("ordering `%s` on %s" % (op, tyname(ta)))
            return "(decide (%s %s %s))" % (a, {"<=": "≤", ">=": "≥"}.get(op, op), b), "Bool"
        if k in ("and", "or"):
            a, ta = self.go(e[1], env, ind)
            b, tb = self.go(e[2], env, ind)
            if ta != "Bool" or tb != "Bool":
                self.fail("`%s` on %s, %s" % (k, tyname(ta), tyname(tb)))
            return "(%s %s %s)" % (a, "&&" if k == "and" else "||", b), "Bool"
        if k == "xor":
            a, ta = self.go(e[1], env, ind)
            b, tb = self.go(e[2], env, ind)
            if ta != "Bool" or tb != "Bool":
                self.fail("`^` on %s, %s (only bool xor)" % (tyname(ta), tyname(tb)))
            return "(Bool.xor %s %s)" % (a, b), "Bool"
        if k == "getD":
            a, ta = self.go(e[1], env, ind)
            b, tb = self.go(e[2], env, ind)
            if not (isinstance(ta, tuple) and ta[0] == "opt" and ta[1] == tb):
                self.fail("`.unwrap_or(…)` of %s with default %s" % (tyname(ta), tyname(tb)))
            self.note("`.unwrap_or(d)` / `.unwrap_or_else(|| d)` is `Option.getD` (`d` has no effect, so eager = lazy)")
            return "(Option.getD %s %s)" % (a, b), tb
        if k == "abs":
            a, t = self.go(e[1], env, ind)
            if t != "Rat":
                self.fail("`.abs()` on %s" % tyname(t))
            return "(fabs %s)" % a, "Rat"
        if k == "powi":
            a, ta = self.go(e[1], env, ind)
            b, tb = self.go(e[2], env, ind)
            if ta != "Rat" or tb != "Int":
                self.fail("`.powi()` on %s with exponent %s" % (tyname(ta), tyname(tb)))
            return "(powi %s %s)" % (a, b), "Rat"
        if k in ("max", "min"):
            a, ta = self.go(e[1], env, ind)
            b, tb = self.go(e[2], env, ind)
            if ta != tb or ta not in ("Nat", "Int"):
                self.fail("`%s` of %s and %s (only integer max/min)" % (k, tyname(ta), tyname(tb)))
            return "(%s %s %s)" % (k, a, b), ta
        if k == "cast":
            _, t, rust, x = e
            a, ta = self.go(x, env, ind)
            if (ta, t) in (("Nat", "Rat"), ("Nat", "Int"), ("Int", "Rat")):
                self.note("`as %s` on a %s is the exact coercion %s -> %s (no overflow / rounding modelled)" % (rust, ta, ta, t))
                return "((%s : %s) : %s)" % (a, ta, t), t
            if ta == t:
                self.note("`as %s` on a value of that type ignored" % rust)
                return a, t
            self.fail("cast of %s `as %s`" % (tyname(ta), rust))
        if k == "tuple":
            a, ta = self.go(e[1], env, ind)
            b, tb = self.go(e[2], env, ind)
            return "(%s, %s)" % (a, b), ("tuple", ta, tb)
        if k == "if":
            c, tc = self.go(e[1], env, ind)
            a, ta = self.go(e[2], env, ind)
            b, tb = self.go(e[3], env, ind)
            if tc != "Bool":
                self.fail("`if` condition of type %s" % tyname(tc))
            ta, tb = self.unify(ta, tb, "if/else branches")
            return "(if %s then %s else %s)" % (c, a, b), ta
        if k == "match":
            _, s, arms = e
            if s[0] == "tuple":
                parts = [self.go(s[1], env, ind), self.go(s[2], env, ind)]
                head = ", ".join(p[0] for p in parts)
                tys = [p[1] for p in parts]
                tupled = False
            else:
                a, ta = self.go(s, env, ind)
                head = a
                tupled = isinstance(ta, tuple) and ta[0] == "tuple"
                tys = list(ta[1:]) if tupled else [ta]
            if any(t != "Bool" for t in tys):
                self.fail("`match` scrutinee of type %s (only bool / tuples of bool)" % ", ".join(tyname(t) for t in tys))
            out = []
            rt = None
            for pats, body in arms:
                for p in pats:
                    if len(p) != len(tys):
                        self.fail("match pattern of arity %d for a scrutinee of arity %d" % (len(p), len(tys)))
                b, tb = self.go(body, env, ind + 4)
                rt = tb if rt is None else self.unify(rt, tb, "match arms")[0]
                if tupled:
                    ps = " | ".join("(" + ", ".join(p) + ")" for p in pats)
                else:
                    ps = " | ".join(", ".join(p) for p in pats)
                out.append("%s  | %s => %s" % (pad, ps, b))
            return "(match %s with\n%s)" % (head, "\n".join(out)), rt
        if k == "let":
            _, name, v, body = e
            a, ta = self.go(v, env, ind)
            env2 = dict(env)
            env2[name] = ta
            b, tb = self.go(body, env2, ind)
            return "(let %s : %s := %s\n%s%s)" % (name, tyname(ta), a, pad, b), tb
        if k == "app":
            _, f, args = e
            ft = env.get(f)
            if not (isinstance(ft, tuple) and ft[0] == "fn"):
                self.fail("`%s` is not a declared uninterpreted function of this site" % f)
            parts = [self.go(x, env, ind) for x in args]
            if [t for _, t in parts] != list(ft[1]):
                self.fail("`%s` applied to (%s), declared (%s)" % (f, ", ".join(tyname(t) for _, t in parts), ", ".join(tyname(t) for t in ft[1])))
            self.note("`%s` is an uninterpreted function symbol of type %s" % (f, tyname(ft)))
            return "(%s %s)" % (f, " ".join(a for a, _ in parts)), ft[2]
        if k == "letpair":
            _, n1, n2, v, body = e
            a, ta = self.go(v, env, ind)
            if not (isinstance(ta, tuple) and ta[0] == "tuple" and len(ta) == 3):
                self.fail("`let (%s, %s) = …` of a %s" % (n1, n2, tyname(ta)))
            env2 = dict(env)
            env2[n1], env2[n2] = ta[1], ta[2]
            b, tb = self.go(body, env2, ind)
            return "(let (%s, %s) := %s\n%s%s)" % (n1, n2, a, pad, b), tb
        if k == "gen_bool":
            a, ta = self.go(e[1], env, ind)
            if ta != "Rat":
                self.fail("gen_bool of %s" % tyname(ta))
            if has_gen_bool(e[1]):
                self.fail("nested gen_bool")
            self.uses_gen_bool = True
            return "(gen_bool %s)" % a, "Bool"
        if k == "list":
            parts = [self.go(x, env, ind) for x in e[1]]
            t0 = parts[0][1]
            if any(t != t0 for _, t in parts) or t0 not in ("Rat", "Nat", "Int", "Bool"):
                self.fail("`vec![…]` with elements of types %s" % ", ".join(tyname(t) for _, t in parts))
            return "[%s]" % ", ".join(a for a, _ in parts), ("list", t0)
        if k == "some":
            a, ta = self.go(e[1], env, ind)
            return "(some %s)" % a, ("opt", ta)
        if k == "none":
            return "none", ("opt", None)
        self.fail("internal: node %r" % (k,))

    def unify(self, a, b, what):
        if a == b:
            return a, b
        if isinstance(a, tuple) and isinstance(b, tuple) and a[0] == "opt" and b[0] == "opt":
            t = a[1] if a[1] is not None else b[1]
            if a[1] in (None, t) and b[1] in (None, t):
                return ("opt", t), ("opt", t)
        self.fail("%s of different types %s / %s" % (what, tyname(a), tyname(b)))

    def draws(self, e, env=None):
        """Lean term (List Rat): the arguments of the gen_bool calls evaluated, in order, under Rust's short-circuit
        evaluation of `||` / `&&` — only these two constructs may contain gen_bool"""
        if not has_gen_bool(e):
            return "[]"
        k = e[0]
        if k == "gen_bool":
            return "[%s]" % self.go(e[1], env)[0]
        if k in ("or", "and"):
            a, b = e[1], e[2]
            da, db = self.draws(a, env), self.draws(b, env)
            va = self.go(a, env)[0]
            if has_gen_bool(a):
                self.fail("gen_bool on the left of `%s`" % ("||" if k == "or" else "&&"))
            if k == "or":
                return "(if %s then [] else %s)" % (va, db)
            return "(if %s then %s else [])" % (va, db)
        if k == "if":
            if has_gen_bool(e[1]):
                self.fail("gen_bool in the condition of an `if`")
            return "(if %s then %s else %s)" % (self.go(e[1], env)[0], self.draws(e[2], env), self.draws(e[3], env))
        self.fail("gen_bool under `%s` (only `||` / `&&` chains and the branches of `if`)" % k)

    def evals(self, e, var, env=None):
        """Lean term (Nat): how many times the variable `var` (a value DRAWN from the rng, e.g. `rng.gen::<f64>()` after the
        site's normalisation) is evaluated, under Rust's evaluation order: both operands of arithmetic / comparisons, only the
        taken branch of `if`, short-circuit `||` / `&&`; `let` values and `if` conditions may not contain it"""
        env = self.env if env is None else env
        if not occurs(e, var):
            return "(0 : Nat)"
        k = e[0]
        if k == "var":
            return "(1 : Nat)"
        if k in ("bin", "cmp"):
            parts = [self.evals(x, var, env) for x in (e[2], e[3]) if occurs(x, var)]
            return parts[0] if len(parts) == 1 else "(%s + %s)" % tuple(parts)
        if k in ("neg", "not", "abs"):
            return self.evals(e[1], var, env)
        if k == "cast":
            return self.evals(e[3], var, env)
        if k == "if":
            if occurs(e[1], var):
                self.fail("drawn value `%s` in the condition of an `if`" % var)
            return "(if %s then %s else %s)" % (self.go(e[1], env)[0], self.evals(e[2], var, env), self.evals(e[3], var, env))
        if k == "let":
            _, name, v, body = e
            if occurs(v, var) or name == var:
                self.fail("drawn value `%s` bound by / in the value of a `let`" % var)
            a, ta = self.go(v, env)
            env2 = dict(env)
            env2[name] = ta
            return "(let %s : %s := %s\n  %s)" % (name, tyname(ta), a, self.evals(body, var, env2))
        if k in ("or", "and"):
            if occurs(e[1], var):
                self.fail("drawn value `%s` on the left of `%s`" % (var, "||" if k == "or" else "&&"))
            va = self.go(e[1], env)[0]
            r = self.evals(e[2], var, env)
            return "(if %s then (0 : Nat) else %s)" % (va, r) if k == "or" else "(if %s then %s else (0 : Nat))" % (va, r)
        self.fail("drawn value `%s` under `%s`" % (var, k))


def occurs(e, var):
    """does the variable `var` occur in the AST `e` (any position)"""
    if isinstance(e, tuple):
        if len(e) == 2 and e[0] == "var":
            return e[1] == var
        return any(occurs(x, var) for x in e[1:])
    if isinstance(e, list):
        return any(occurs(x, var) for x in e)
    return False


def has_gen_bool(e):
    if not isinstance(e, tuple):
        return False
    if e and e[0] == "gen_bool":
        return True
    if e and e[0] == "list":
        return any(has_gen_bool(x) for x in e[1])
    if e and e[0] == "app":
        return any(has_gen_bool(x) for x in e[2])
    return any(has_gen_bool(x) if isinstance(x, tuple) else (isinstance(x, list) and any(has_gen_bool(y[1]) for y in x)) for x in e[1:])


# ------------------------------------------------------------------------------------------------
# sites
# ------------------------------------------------------------------------------------------------
RUST_TYPES = {"f64": "Rat", "usize": "Nat", "bool": "Bool", "i32": "Int", "(bool, bool)": ("tuple", "Bool", "Bool")}


def normalise(text, rewrites, site, required=()):
    """literal receiver spellings -> variables; each `required` spelling must occur"""
    for old, new in rewrites:
        pat = r"(?<![\w.])" + re.escape(old) + (r"(?!\w)" if re.match(r"\w", old[-1]) else "")
        if old in required and not re.search(pat, text):
            raise Unknown(site, "expected the spelling `%s`" % old)
        text = re.sub(pat, new, text)
    return text


# ------------------------------------------------------------------------------------------------
# groups: every generated definition belongs to ONE group; a site that fails closed takes down only its group
# (checks/pure_fns.py builds / audits, per calling check, only the groups relevant to that check's property)
# ------------------------------------------------------------------------------------------------
DEF_GROUP = {
    # Ising matrix elements, bond numbering, bond count, offset (qmc_ising.rs; the copies in single_diagonal_step / timestep)
    "two_site_hamiltonian": "IsingHam", "transverse_hamiltonian": "IsingHam", "longitudinal_hamiltonian": "IsingHam",
    "hamiltonian_dispatch": "IsingHam", "bonds_fn_single_diagonal_step": "IsingHam", "bonds_fn_timestep": "IsingHam",
    "num_bonds_single_diagonal_step": "IsingHam", "num_bonds_timestep": "IsingHam", "field_guard": "IsingHam",
    "edge_offset_term": "IsingHam", "field_offset": "IsingHam", "total_energy_offset": "IsingHam",
    "h_closure_single_diagonal_step": "IsingHam", "h_closure_timestep": "IsingHam",
    # RVB update: the copies inside single_rvb_sweep and the RVB closures of timestep
    "num_bonds_single_rvb_sweep": "Rvb", "bonds_fn_single_rvb_sweep": "Rvb", "h_closure_single_rvb_sweep": "Rvb",
    "ising_ratio_single_rvb_sweep": "Rvb", "ising_ratio_timestep": "Rvb",
    "rvb_edge_weight_single_rvb_sweep_field": "Rvb", "rvb_edge_weight_single_rvb_sweep_nofield": "Rvb",
    "rvb_edge_weight_timestep_field": "Rvb", "rvb_edge_weight_timestep_nofield": "Rvb",
    "steps_to_run_single_rvb_sweep": "Rvb", "steps_to_run_timestep": "Rvb",
    # heat bath: the gates (heatbath.rs) / the copies inside set_enable_heatbath
    "hb_insert_numerator": "HeatBath", "hb_insert_denominator": "HeatBath", "hb_insert_gate": "HeatBath", "hb_insert_test": "HeatBath",
    "hb_remove_numerator": "HeatBath", "hb_remove_denominator": "HeatBath", "hb_remove_gate": "HeatBath",
    "num_bonds_set_enable_heatbath": "HeatBathIsing", "bonds_fn_set_enable_heatbath": "HeatBathIsing", "h_closure_set_enable_heatbath": "HeatBathIsing",
    # Metropolis diagonal update (diagonal.rs)
    "diag_numerator": "Diag", "diag_denominator": "Diag", "diag_remove_denominator": "Diag",
    "diag_insert_accept": "Diag", "diag_insert_accept_draws": "Diag", "diag_remove_accept": "Diag", "diag_remove_accept_draws": "Diag",
    # cluster update: generic pieces (cluster.rs, qmc_runner.rs) / the Ising sampler's closures and call sites
    "is_valid_cluster_edge": "Cluster", "cluster_flip_prob_cluster_update_sym": "Cluster",
    "cluster_weight_single_cluster_step": "ClusterIsing", "cluster_weight_timestep": "ClusterIsing",
    "cluster_flip_prob_single_cluster_step_field": "ClusterIsing", "cluster_flip_prob_single_cluster_step_sym": "ClusterIsing",
    "cluster_flip_prob_timestep_field": "ClusterIsing", "cluster_flip_prob_timestep_sym": "ClusterIsing",
    # free-spin refresh
    "free_refresh_prob_single_cluster_step": "RefreshIsing", "free_refresh_prob_timestep": "RefreshIsing",
    "free_refresh_prob_flip_free_bits": "RefreshGeneric",
    # cutoff rule, energy estimator, conversion, interaction size, replica swap
    "cutoff_rule_single_diagonal_step": "Cutoff", "cutoff_rule_timestep": "Cutoff", "cutoff_rule_diagonal_update": "Cutoff",
    "get_energy_for_average_n_ising": "EnergyIsing", "get_energy_for_average_n_generic": "EnergyGeneric",
    "into_qmc_edge_matrix": "Convert", "into_qmc_transverse_matrix": "Convert", "into_qmc_field_matrix": "Convert",
    "mat_var_size_rule": "Size",
    "swap_on_chunks": "Tempering",
}
# session 4: classical sampler (graph.rs), stepper cadence (qmc_stepper.rs, both tempering drivers), RVB arithmetic (rvb.rs),
# BondContainer bookkeeping (bondcontainer.rs), autocorrelation normalisation (autocorrelations.rs)
for _n in ("should_flip", "should_flip_draws", "flip_summand_do_spin_flip", "flip_summand_delta_e", "spin_delta_total", "edge_delta_half", "edge_delta_total",
           "worm_bias_term", "energy_coupling_term", "energy_bias_term", "energy_fold_step", "only_basic_default", "nspinupdates", "nedgeupdates", "nwormupdates",
           "move_kinds", "importance_weight", "cum_push", "cum_next", "importance_guard"):
    DEF_GROUP["classical_" + _n] = "Classical"
for _n in ("sampling_freq", "sample_cond", "steps_measured_next", "total_n_next", "average_n"):
    DEF_GROUP["stepper_" + _n] = "Stepper"
CHUNK_PIECES = ("init_remaining", "init_to_swap", "init_to_sample", "continue", "t", "energy_acc", "to_sample_dec", "to_swap_dec", "remaining_dec", "swap_due",
                "to_swap_reset", "sample_due", "to_sample_reset", "final_energy")
for _n in CHUNK_PIECES:
    for _f in ("timesteps_sample", "parallel_timesteps_sample"):
        DEF_GROUP["chunk_%s_%s" % (_n, _f)] = "Stepper"
for _n in ("calculate_mult", "should_mutate", "should_mutate_draws", "mult_early_exit_1", "mult_early_exit_2", "pop_total_weight", "pop_f_ratio", "push_weight_default", "push_new_weight"):
    DEF_GROUP["rvb_" + _n] = "Rvb"
for _n in ("grow_cond", "grow_len", "insert_update_total", "insert_new_address", "insert_new_total", "last_index", "remove_total", "correct_total", "pick_sub", "pick_stop"):
    DEF_GROUP["bc_" + _n] = "BondContainer"
for _n in ("mean", "center", "norm", "final", "spin_value_calculate_variable_autocorrelation", "spin_value_calculate_spin_product_autocorrelation"):
    DEF_GROUP["autocorr_" + _n] = "Autocorr"
for _n in ("total_vars_next", "start_stop", "start_next", "exit_stop", "exit_next"):
    DEF_GROUP["loop_" + _n] = "Loop"
PRELUDE_DEFS = ["fabs", "EPSILON", "powi"]      # fixed text, group "Prelude"
GROUPS = ["Prelude"] + sorted(set(DEF_GROUP.values()))

# the `if <cond on longitudinal> {` sites (one definition `field_guard` for all): which group a deviating site is charged to
GUARD_GROUP = {
    ("single_diagonal_step", 1): "IsingHam",       # inside num_bonds
    ("single_cluster_step", 1): "ClusterIsing",    # field-weighted cluster update or the symmetric one
    ("single_rvb_sweep", 1): "Rvb",                # inside num_bonds
    ("single_rvb_sweep", 2): "Rvb",                # rvb_update_with_ising_weight or rvb_update
    ("set_enable_heatbath", 1): "HeatBathIsing",   # inside num_bonds
    ("timestep", 1): "IsingHam",                   # inside num_bonds
    ("timestep", 2): "Rvb",                        # RVB variant
    ("timestep", 3): "ClusterIsing",               # cluster variant
    ("into_qmc", 1): "Convert",                    # field interactions of the converted sampler
    ("relative_weight", 1): "Tempering",           # field factor of the relative weight
}


class _Tolerate:
    def __init__(self, g, groups):
        self.g = g
        self.groups = list(groups)
        self.name = None

    def __enter__(self):
        return self

    def __exit__(self, ty, e, tb):
        if ty is not None and issubclass(ty, Unknown):
            if self.name:
                self.g.drop(self.name)
            self.g.fail(e.site, e.what, [DEF_GROUP[self.name]] if self.name in DEF_GROUP else self.groups)
            return True
        return False


class Gen:
    def __init__(self, repo):
        self.repo = repo
        self.files = {}
        self.defs = []      # (name, Lean text)
        self.header = []    # (name, source table line)
        self.summary = []
        self.failures = []  # {"site", "what", "groups"}: sites that failed closed (their definitions are NOT emitted)

    # ---- failure isolation: a site that leaves the whitelist takes down only its own group(s)
    def fail(self, site, what, groups):
        self.failures.append({"site": site, "what": what, "groups": sorted(set(g for g in groups if g))})

    def drop(self, name):
        for n in (name, name + "_draws"):
            self.defs = [d for d in self.defs if d[0] != n]
            self.header = [h for h in self.header if h[0] != n]
            self.summary = [x for x in self.summary if x != n]

    def section(self, groups, fn):
        """run one extraction section; if it fails closed, nothing of it is emitted and the failure is charged to `groups`"""
        snap = (list(self.defs), list(self.header), list(self.summary))
        try:
            fn()
        except Unknown as e:
            self.defs, self.header, self.summary = snap
            self.fail(e.site, e.what, groups)

    def tolerate(self, groups):
        """context manager for ONE site of a replicated group: an Unknown raised inside is recorded against the group of the
        definition being produced (`t.name`, set by the body as soon as it is known) or against `groups`, and swallowed"""
        return _Tolerate(self, groups)

    def file(self, rel):
        if rel not in self.files:
            self.files[rel] = Source(self.repo, rel)
        return self.files[rel]

    def record(self, name, src, off, text, notes, what=None):
        sha = hashlib.sha1(text.encode()).hexdigest()
        self.header.append((name, "  %-36s %s:%d (fn %s)  sha1 %s%s" % (name, src.rel, src.line(off), what or src.enclosing(off), sha,
                                                                      "".join("\n      note: " + n for n in notes))))
        self.summary.append(name)

    def add(self, name, params, rty, body, doc):
        ptxt = " ".join("(%s : %s)" % (n, tyname(t)) for n, t in params)
        if name not in DEF_GROUP:
            raise Unknown(name, "internal: definition without a group in DEF_GROUP")
        self.defs.append((name, "/-- %s -/\ndef %s %s : %s :=\n  %s\n" % (doc, name, ptxt, tyname(rty), body)))

    def translate(self, name, site, src, off, text, ast, params, doc, want=None, what=None, draws=False, drawn=None):
        """type-check `ast` under `params` and add the definition(s); `drawn` = a parameter that stands for a value drawn from
        the rng at the point where it is evaluated: `<name>_draws : Nat` then counts its evaluations"""
        em = Emit(site, dict(params))
        body, ty = em.go(ast)
        if want is not None and ty != want:
            raise Unknown(site, "expression has type %s, expected %s" % (tyname(ty), tyname(want)))
        ps = list(params)
        if drawn is not None:
            if em.uses_gen_bool:
                raise Unknown(site, "gen_bool and a drawn value in one expression")
            if not occurs(ast, drawn):
                raise Unknown(site, "the drawn value `%s` does not occur" % drawn)
            cnt = em.evals(ast, drawn)
            em.note("`%s` stands for the value of the rng draw made where it is evaluated; `%s_draws` counts the evaluations (only the taken `if` branch)" % (drawn, name))
            self.add(name, ps, ty, body, doc)
            self.add(name + "_draws", [q for q in ps if q[0] != drawn], "Nat", cnt, "number of rng draws (`%s`) made by `%s`" % (drawn, name))
            self.record(name, src, off, text, em.notes, what)
            return body, ty
        if em.uses_gen_bool:
            em.note("`rng.gen_bool(x)` is an uninterpreted function symbol `gen_bool : Rat → Bool`; `%s_draws` lists the arguments of the calls Rust's short-circuit evaluation makes" % name)
            self.add(name, [("gen_bool", "Rat → Bool")] + ps, ty, body, doc)
            if draws:
                self.add(name + "_draws", ps, "List Rat", em.draws(ast), "arguments of the `gen_bool` calls made by `%s`, in order (short-circuit `||`)" % name)
        else:
            self.add(name, ps, ty, body, doc)
        self.record(name, src, off, text, em.notes, what)
        return body, ty


def parse_sig(sig, site):
    """`fn name(a: T, b: U) -> R` with whitelisted types only -> ([(name, type)], result type)"""
    m = re.fullmatch(r"fn\s+\w+\s*\((.*)\)\s*->\s*([^{]+?)\s*", sig.strip(), flags=re.S)
    if not m:
        raise Unknown(site, "signature shape %r" % " ".join(sig.split()))
    params = []
    inner = m.group(1).strip().rstrip(",")
    depth = 0
    cur = ""
    parts = []
    for c in inner:
        if c == "(":
            depth += 1
        elif c == ")":
            depth -= 1
        if c == "," and depth == 0:
            parts.append(cur)
            cur = ""
        else:
            cur += c
    if cur.strip():
        parts.append(cur)
    for p in parts:
        p = " ".join(p.split())
        if p == "&self":
            continue
        mm = re.fullmatch(r"(\w+): (.+)", p)
        if not mm or mm.group(2) not in RUST_TYPES:
            raise Unknown(site, "parameter `%s` (type outside f64 / usize / bool / i32 / (bool, bool))" % p)
        params.append((mm.group(1), RUST_TYPES[mm.group(2)]))
    r = " ".join(m.group(2).split())
    if r not in RUST_TYPES:
        raise Unknown(site, "result type `%s`" % r)
    return params, RUST_TYPES[r]


def whole_fn(g, rel, fname, lean_name, doc, rewrites=(), extra=(), expect=1, nth=None, impl_hint=None):
    site = "%s::%s" % (rel, fname)
    src = g.file(rel)
    f = src.fn(fname, site, nth=nth, expect=expect)
    params, rty = parse_sig(f["sig"], site)
    text = src.src[f["start"]:f["body1"] + 1]
    body = normalise(src.body(f), rewrites, site, required=[r[0] for r in rewrites])
    ast = parse_block_body(body, site)
    g.translate(lean_name, site, src, f["start"], text, ast, list(extra) + params, doc, want=rty, what=fname)


def all_matches(src, regex, site, flags=re.S):
    return list(re.finditer(regex, src.src, flags))


def run(repo):
    g = Gen(repo)
    ISING = "src/sse/qmc_ising.rs"
    RUNNER = "src/sse/qmc_runner.rs"
    CLUSTER = "src/sse/qmc_traits/cluster.rs"
    DIAG = "src/sse/qmc_traits/diagonal.rs"
    HEAT = "src/sse/qmc_traits/heatbath.rs"
    TEMPER = "src/sse/parallel_tempering/tempering_container.rs"
    TTRAITS = "src/sse/parallel_tempering/tempering_traits.rs"
    # ---- 1. the three matrix-element functions -------------------------------------------------
    def _sec_1_two_site_hamiltonian():
        whole_fn(g, ISING, "two_site_hamiltonian", "two_site_hamiltonian", "`two_site_hamiltonian` (src/sse/qmc_ising.rs)")

    g.section(['IsingHam'], _sec_1_two_site_hamiltonian)

    # ---- 1. the three matrix-element functions -------------------------------------------------
    def _sec_1_transverse_hamiltonian():
        whole_fn(g, ISING, "transverse_hamiltonian", "transverse_hamiltonian", "`transverse_hamiltonian`")

    g.section(['IsingHam'], _sec_1_transverse_hamiltonian)

    # ---- 1. the three matrix-element functions -------------------------------------------------
    def _sec_1_longitudinal_hamiltonian():
        whole_fn(g, ISING, "longitudinal_hamiltonian", "longitudinal_hamiltonian", "`longitudinal_hamiltonian`")

    g.section(['IsingHam'], _sec_1_longitudinal_hamiltonian)

    # ---- 2. is_valid_cluster_edge --------------------------------------------------------------
    def _sec_2():
        whole_fn(g, CLUSTER, "is_valid_cluster_edge", "is_valid_cluster_edge", "`is_valid_cluster_edge` (src/sse/qmc_traits/cluster.rs)")
        src = g.file(CLUSTER)
        site = CLUSTER + "::is_valid_cluster_edge_op"
        f = src.fn("is_valid_cluster_edge_op", site)
        if " ".join(src.body(f).split()) != "is_valid_cluster_edge(op.is_constant(), op.get_vars().len())":
            raise Unknown(site, "body is no longer `is_valid_cluster_edge(op.is_constant(), op.get_vars().len())`")

    g.section(['Cluster'], _sec_2)

    # ---- 3. cutoff growth rule, three sites ----------------------------------------------------
    def _sec_3():
        groups = ['Cutoff']
        items = []
        for rel, expect in ((ISING, ["single_diagonal_step", "timestep"]), (RUNNER, ["diagonal_update"])):
            src = g.file(rel)
            ms = [m for m in all_matches(src, r"self\.cutoff\s*=\s*([^;]*);", rel) if m.group(1).strip() != "cutoff"]
            where = [src.enclosing(m.start()) for m in ms]
            if where != expect:
                raise Unknown(rel + "::cutoff rule", "assignments `self.cutoff = <rule>` expected exactly in %s, found in %s" % (expect, where))
            for m, fn in zip(ms, where):
                with g.tolerate(groups) as t:
                    site = "%s::%s::cutoff rule" % (rel, fn)
                    txt = normalise(m.group(1), [("self.cutoff", "cutoff"), ("manager.get_n()", "n"), ("m.get_n()", "n")], site, required=["self.cutoff"])
                    ast = parse_expr(txt, site)
                    name = t.name = "cutoff_rule_" + fn
                    body, _ = g.translate(name, site, src, m.start(), m.group(0), ast, [("cutoff", "Nat"), ("n", "Nat")],
                                          "the cutoff growth rule `self.cutoff = …` at the end of `%s` (%s); `n` = `<manager>.get_n()`" % (fn, rel), want="Nat")
                    items.append((site, body, name, DEF_GROUP[name]))
            # the set_cutoff assignment must stay the plain one
            plain = [m for m in all_matches(src, r"self\.cutoff\s*=\s*([^;]*);", rel) if m.group(1).strip() == "cutoff"]
            if [src.enclosing(m.start()) for m in plain] != ["set_cutoff"]:
                raise Unknown(rel + "::set_cutoff", "expected exactly one `self.cutoff = cutoff;`, in set_cutoff")
        same(g, items, "cutoff rule")

    g.section(['Cutoff'], _sec_3)

    # ---- 4. get_energy_for_average_n, both samplers --------------------------------------------
    def _sec_4_ising():
        whole_fn(g, ISING, "get_energy_for_average_n", "get_energy_for_average_n_ising",
                 "`QmcIsingGraph::get_energy_for_average_n`; `offset` = `self.get_offset()` = `self.total_energy_offset`",
                 rewrites=[("self.get_offset()", "offset")], extra=[("offset", "Rat")])
        src = g.file(ISING)
        f = src.fn("get_offset", ISING + "::get_offset")
        if " ".join(src.body(f).split()) != "self.total_energy_offset":
            raise Unknown(ISING + "::get_offset", "body is no longer `self.total_energy_offset`")

    g.section(['EnergyIsing'], _sec_4_ising)

    # ---- 4. get_energy_for_average_n, both samplers --------------------------------------------
    def _sec_4_generic():
        whole_fn(g, RUNNER, "get_energy_for_average_n", "get_energy_for_average_n_generic",
                 "`Qmc::get_energy_for_average_n`; `offset` = `self.offset`", rewrites=[("self.offset", "offset")], extra=[("offset", "Rat")])

    g.section(['EnergyGeneric'], _sec_4_generic)

    # ---- 5. total_energy_offset in the constructor ---------------------------------------------
    def _sec_5():
        src = g.file(ISING)
        site = ISING + "::new_with_rng_with_manager_hook::total_energy_offset"
        f = src.fn("new_with_rng_with_manager_hook", site)
        body = src.body(f)
        base = f["body0"] + 1

        def one(regex, what):
            ms = list(re.finditer(regex, body, re.S))
            if len(ms) != 1:
                raise Unknown(site, "expected exactly one `%s`, found %d" % (what, len(ms)))
            return ms[0]

        m = one(r"let edge_offset = edges\.iter\(\)\.map\(\|\(_, j\)\| ([^;]*?)\)\.sum::<f64>\(\);", "let edge_offset = edges.iter().map(|(_, j)| <term>).sum::<f64>();")
        g.translate("edge_offset_term", site, src, base + m.start(), m.group(0), parse_expr(m.group(1), site), [("j", "Rat")],
                    "summand of `edge_offset = edges.iter().map(|(_, j)| …).sum::<f64>()`", want="Rat")
        m = one(r"let field_offset = ([^;]*);", "let field_offset = …;")
        g.translate("field_offset", site, src, base + m.start(), m.group(0), parse_expr(m.group(1), site),
                    [("nvars", "Nat"), ("transverse", "Rat"), ("longitudinal", "Rat")], "`field_offset` of the constructor", want="Rat")
        m = one(r"let total_energy_offset = ([^;]*);", "let total_energy_offset = …;")
        g.translate("total_energy_offset", site, src, base + m.start(), m.group(0), parse_expr(m.group(1), site),
                    [("edge_offset", "Rat"), ("field_offset", "Rat")], "`total_energy_offset` of the constructor", want="Rat")
        if len(re.findall(r"\n\s*total_energy_offset,(?=\n)", body)) != 1:
            raise Unknown(site, "the struct literal no longer stores `total_energy_offset,` verbatim")
        if len(re.findall(r"\n\s*(transverse|longitudinal),(?=\n)", body)) != 2:
            raise Unknown(site, "the struct literal no longer stores `transverse,` / `longitudinal,` verbatim")
        for other in re.finditer(r"total_energy_offset\s*(?:[-+*/]?=)(?!=)", src.src):
            fn = src.enclosing(other.start())
            if fn != "new_with_rng_with_manager_hook":
                raise Unknown(site, "`total_energy_offset` is assigned in `%s` as well" % fn)

    g.section(['IsingHam'], _sec_5)

    # ---- 6. num_bonds, all sites ---------------------------------------------------------------
    def _sec_6():
        groups = ['IsingHam', 'Rvb', 'HeatBathIsing']
        src = g.file(ISING)
        ms = all_matches(src, r"let num_bonds = ([^;]*);", ISING)
        where = [src.enclosing(m.start()) for m in ms]
        expect = ["single_diagonal_step", "single_rvb_sweep", "set_enable_heatbath", "timestep"]
        if where != expect:
            raise Unknown(ISING + "::num_bonds", "`let num_bonds = …;` expected exactly in %s, found in %s" % (expect, where))
        items = []
        for m, fn in zip(ms, where):
            with g.tolerate(groups) as t:
                site = "%s::%s::num_bonds" % (ISING, fn)
                name = t.name = "num_bonds_" + fn
                fbody = src.body(src.fn(fn, site))
                for need in (r"let longitudinal = self\.longitudinal;", r"let edges = &self\.edges;", r"let nvars = (?:self\.get_nvars\(\)|state\.len\(\));"):
                    if len(re.findall(need, fbody)) != 1:
                        raise Unknown(site, "expected exactly one binding matching /%s/ in the function" % need)
                txt = normalise(m.group(1), [("edges.len()", "edges_len")], site, required=["edges.len()"])
                body_, _ = g.translate(name, site, src, m.start(), m.group(0), parse_expr(txt, site),
                                       [("edges_len", "Nat"), ("nvars", "Nat"), ("longitudinal", "Rat")],
                                       "`num_bonds` handed to the diagonal / heat-bath / RVB updates in `%s`; `edges_len` = `edges.len()`" % fn, want="Nat")
                items.append((site, body_, name, DEF_GROUP[name]))
        same(g, items, "num_bonds")

    g.section(['IsingHam', 'Rvb', 'HeatBathIsing'], _sec_6)

    # ---- 7. the field guards -------------------------------------------------------------------
    def _sec_7():
        groups = ['ClusterIsing', 'Convert', 'HeatBathIsing', 'IsingHam', 'Rvb', 'Tempering']
        src = g.file(ISING)
        guards = []
        expect = {"single_diagonal_step": 1, "single_cluster_step": 1, "single_rvb_sweep": 2, "set_enable_heatbath": 1,
                  "timestep": 3, "into_qmc": 1}
        found = {}
        for m in all_matches(src, r"\bif ([^{;]*longitudinal[^{;]*?) \{", ISING):
            fn = src.enclosing(m.start())
            if fn == "can_swap_managers":
                if m.group(1) != "self.longitudinal.signum() != other.longitudinal.signum()":
                    raise Unknown(ISING + "::can_swap_managers", "unexpected condition on the field: `%s`" % m.group(1))
                continue
            found[fn] = found.get(fn, 0) + 1
            with g.tolerate([GUARD_GROUP.get((fn, found[fn]), 'IsingHam')]):
                site = "%s::%s::field guard #%d" % (ISING, fn, found[fn])
                txt = normalise(m.group(1), [("self.longitudinal", "longitudinal")], site)
                em = Emit(site, {"longitudinal": "Rat"})
                body_, ty = em.go(parse_expr(txt, site))
                if ty != "Bool":
                    raise Unknown(site, "guard of type %s" % tyname(ty))
                guards.append((site, body_, src, m))
        for fn_ in sorted(set(found) | set(expect)):
            if found.get(fn_, 0) != expect.get(fn_, 0):
                # a guard was added / removed / no longer mentions the field: charged to the groups of that function's guards
                gs = sorted(set(v for (f_, _), v in GUARD_GROUP.items() if f_ == fn_)) or groups
                g.fail("%s::%s::field guards" % (ISING, fn_), "`if <cond on longitudinal> {` sites in `%s`: expected %d, found %d" % (fn_, expect.get(fn_, 0), found.get(fn_, 0)), gs)
        tsrc = g.file(TTRAITS)
        ms = all_matches(tsrc, r"\bif ([^{;]*longitudinal[^{;]*?) \{", TTRAITS)
        if [tsrc.enclosing(m.start()) for m in ms] != ["relative_weight"]:
            raise Unknown(TTRAITS + "::field guard", "expected exactly one condition on the longitudinal field, in relative_weight")
        with g.tolerate(["Tempering"]):
            site = TTRAITS + "::relative_weight::field guard"
            txt = normalise(ms[0].group(1), [("self.get_longitudinal_field()", "longitudinal")], site, required=["self.get_longitudinal_field()"])
            em = Emit(site, {"longitudinal": "Rat"})
            guards.append((site, em.go(parse_expr(txt, site))[0], tsrc, ms[0]))
        f = src.fn("get_longitudinal_field", ISING + "::get_longitudinal_field")
        if " ".join(src.body(f).split()) != "self.longitudinal":
            raise Unknown(ISING + "::get_longitudinal_field", "body is no longer `self.longitudinal`")
        def guard_group(site):
            mm = re.search(r"::(\w+)::field guard(?: #(\d+))?$", site)
            return GUARD_GROUP.get((mm.group(1), int(mm.group(2) or 1)), "IsingHam")
        major = same(g, [(s_, b_, None, guard_group(s_)) for s_, b_, _, _ in guards], "field guard (`longitudinal.abs() > std::f64::EPSILON`)")
        if major is None:
            raise Unknown(ISING + "::field guards", "no majority among the field guards")
        guards = [x for x in guards if x[1] == major]
        s0, _, src0, m0 = guards[0]
        g.translate("field_guard", s0, src0, m0.start(), m0.group(1), parse_expr(normalise(m0.group(1), [("self.longitudinal", "longitudinal"), ("self.get_longitudinal_field()", "longitudinal")], s0), s0),
                    [("longitudinal", "Rat")],
                    "the guard that switches on the longitudinal bonds / the field-weighted cluster update / the field-weighted RVB update / the "
                    "field interactions of `into_qmc` / the field factor of `relative_weight`: the SAME term at all %d sites" % len(guards), want="Bool")
        for s, _, sr, m in guards[1:]:
            g.header.append(("field_guard", "  %-36s %s:%d (fn %s)  same term" % ("field_guard", sr.rel, sr.line(m.start()), sr.enclosing(m.start()))))

    g.section(['ClusterIsing', 'Convert', 'HeatBathIsing', 'IsingHam', 'Rvb', 'Tempering'], _sec_7)

    # ---- 8. metropolis_single_diagonal_update --------------------------------------------------
    def _sec_8():
        src = g.file(DIAG)
        fname = "metropolis_single_diagonal_update"
        site = DIAG + "::" + fname
        f = src.fn(fname, site)
        body = src.body(f)
        base = f["body0"] + 1
        sig = " ".join(f["sig"].split())
        for need in ("cutoff: usize", "n: usize", "beta: f64"):
            if need not in sig:
                raise Unknown(site, "parameter `%s` missing from the signature" % need)
        if len(re.findall(r"let mat_element = hamiltonian\.hamiltonian\(vars, b, substate\.as_ref\(\), substate\.as_ref\(\)\);", body)) != 1:
            raise Unknown(site, "`mat_element` is no longer `hamiltonian.hamiltonian(vars, b, substate.as_ref(), substate.as_ref())`")
        nums = list(re.finditer(r"let numerator = ([^;]*);", body))
        dens = list(re.finditer(r"let denominator = ([^;]*);", body))
        if len(nums) != 1 or len(dens) != 2:
            raise Unknown(site, "expected one `let numerator` and two `let denominator`, found %d / %d" % (len(nums), len(dens)))
        rw = [("hamiltonian.num_bonds()", "num_bonds")]
        g.translate("diag_numerator", site, src, base + nums[0].start(), nums[0].group(0), parse_expr(normalise(nums[0].group(1), rw, site, required=["hamiltonian.num_bonds()"]), site),
                    [("beta", "Rat"), ("num_bonds", "Nat"), ("mat_element", "Rat")], "`numerator` of `metropolis_single_diagonal_update`; `num_bonds` = `hamiltonian.num_bonds()`", want="Rat")
        g.translate("diag_denominator", site, src, base + dens[0].start(), dens[0].group(0), parse_expr(dens[0].group(1), site),
                    [("cutoff", "Nat"), ("n", "Nat")], "`denominator` of `metropolis_single_diagonal_update`", want="Rat")
        if not (nums[0].start() < dens[0].start() < dens[1].start()):
            raise Unknown(site, "order of the numerator / denominator bindings")
        sk = re.search(
            r"match op \{\s*None => \{\s*if ([^{]*?) \{\s*let vars = [^;]*;\s*let op = Op::diagonal\(vars, b, substate, constant\);\s*Some\(Some\(op\)\)\s*\} else \{\s*None\s*\}\s*\}\s*"
            r"Some\(op\) if op\.is_diagonal\(\) => \{\s*(let denominator = [^;]*;)\s*if ([^{]*?) \{\s*Some\(None\)\s*\} else \{\s*None\s*\}\s*\}\s*_ => None,\s*\}\s*$",
            body)
        if not sk:
            raise Unknown(site, "the final `match op { None => { if <test> {insert} else {keep} } Some(op) if op.is_diagonal() => { let denominator = …; if <test> {remove} else {keep} } _ => None }` skeleton")
        if sk.start(2) != dens[1].start():
            raise Unknown(site, "the second `let denominator` is not the one of the removal arm")
        if not (dens[0].end() <= sk.start()):
            raise Unknown(site, "the first `let denominator` does not precede the final match")
        rwg = [("rng.gen_bool", "gen_bool")]
        g.translate("diag_remove_denominator", site, src, base + dens[1].start(), dens[1].group(0), parse_expr(dens[1].group(1), site),
                    [("denominator", "Rat")], "the removal arm's `let denominator = …` (shadows the outer one)", want="Rat")
        g.translate("diag_insert_accept", site, src, base + sk.start(1), sk.group(1), parse_expr(normalise(sk.group(1), rwg, site), site),
                    [("numerator", "Rat"), ("denominator", "Rat")], "acceptance test of the `None` (insert) arm", want="Bool", draws=True)
        g.translate("diag_remove_accept", site, src, base + sk.start(3), sk.group(3), parse_expr(normalise(sk.group(3), rwg, site), site),
                    [("numerator", "Rat"), ("denominator", "Rat")], "acceptance test of the diagonal-operator (remove) arm; `denominator` is the shadowing one", want="Bool", draws=True)

    g.section(['Diag'], _sec_8)

    # ---- 9. heat-bath gates --------------------------------------------------------------------
    def _sec_9():
        src = g.file(HEAT)
        fname = "heat_bath_single_diagonal_update"
        site = HEAT + "::" + fname
        f = src.fn(fname, site)
        body = src.body(f)
        base = f["body0"] + 1
        sk = re.search(
            r"let new_op = match op \{\s*None => \{\s*let numerator = ([^;]*);\s*let denominator = ([^;]*);\s*if rng\.gen_bool\(([^{]*?)\) \{"
            r".*?if ([^{]*?) \{\s*let op = Self::Op::diagonal\(vars, b, substate, constant\);\s*Some\(Some\(op\)\)\s*\} else \{\s*None\s*\}\s*\} else \{\s*None\s*\}\s*\}\s*"
            r"Some\(op\) if op\.is_diagonal\(\) => \{\s*let numerator = ([^;]*);\s*let denominator = ([^;]*);\s*if rng\.gen_bool\(([^{]*?)\) \{\s*Some\(None\)\s*\} else \{\s*None\s*\}\s*\}",
            body, re.S)
        if not sk:
            raise Unknown(site, "the `match op { None => { let numerator; let denominator; if rng.gen_bool(..) {… if <test> {insert} …} } Some(op) if op.is_diagonal() => { let numerator; let denominator; if rng.gen_bool(..) {remove} } …` skeleton")
        if len(re.findall(r"let numerator = ", body)) != 2 or len(re.findall(r"let denominator = ", body)) != 2 or len(re.findall(r"gen_bool", body)) != 2:
            raise Unknown(site, "expected exactly two numerator / denominator / gen_bool occurrences")
        rw = [("bond_weights.total().unwrap()", "total")]
        g.translate("hb_insert_numerator", site, src, base + sk.start(1), sk.group(1), parse_expr(normalise(sk.group(1), rw, site, required=[rw[0][0]]), site),
                    [("beta", "Rat"), ("total", "Rat")], "`numerator` of the heat-bath insertion gate; `total` = `bond_weights.total().unwrap()`", want="Rat")
        g.translate("hb_insert_denominator", site, src, base + sk.start(2), sk.group(2), parse_expr(sk.group(2), site),
                    [("cutoff", "Nat"), ("n", "Nat"), ("numerator", "Rat")], "`denominator` of the heat-bath insertion gate", want="Rat")
        g.translate("hb_insert_gate", site, src, base + sk.start(3), sk.group(3), parse_expr(sk.group(3), site),
                    [("numerator", "Rat"), ("denominator", "Rat")], "argument of the insertion gate's `rng.gen_bool(…)`", want="Rat")
        g.translate("hb_insert_test", site, src, base + sk.start(4), sk.group(4), parse_expr(sk.group(4), site),
                    [("p", "Rat"), ("maxweight", "Rat"), ("weight", "Rat")], "the rejection test after the weighted bond choice", want="Bool")
        g.translate("hb_remove_numerator", site, src, base + sk.start(5), sk.group(5), parse_expr(sk.group(5), site),
                    [("cutoff", "Nat"), ("n", "Nat")], "`numerator` of the heat-bath removal gate", want="Rat")
        g.translate("hb_remove_denominator", site, src, base + sk.start(6), sk.group(6), parse_expr(normalise(sk.group(6), rw, site, required=[rw[0][0]]), site),
                    [("numerator", "Rat"), ("beta", "Rat"), ("total", "Rat")], "`denominator` of the heat-bath removal gate", want="Rat")
        g.translate("hb_remove_gate", site, src, base + sk.start(7), sk.group(7), parse_expr(sk.group(7), site),
                    [("numerator", "Rat"), ("denominator", "Rat")], "argument of the removal gate's `rng.gen_bool(…)`", want="Rat")

    g.section(['HeatBath'], _sec_9)

    # ---- 10. swap_on_chunks --------------------------------------------------------------------
    def _sec_10():
        src = g.file(TEMPER)
        fname = "swap_on_chunks"
        site = TEMPER + "::" + fname
        f = src.fn(fname, site)
        sig = " ".join(f["sig"].split())
        if not re.search(r"graph_beta_a: &'a mut \(Q, f64\), graph_beta_b: &'a mut \(Q, f64\), p: f64, evaluate_hamiltonians: bool, \) -> bool", sig):
            raise Unknown(site, "signature shape")
        body = src.body(f)
        pre = re.match(r"\s*let \(ga, ba\) = graph_beta_a;\s*let \(gb, bb\) = graph_beta_b;\s*", body)
        if not pre:
            raise Unknown(site, "the two destructuring bindings `let (ga, ba) = graph_beta_a; let (gb, bb) = graph_beta_b;`")
        rest = body[pre.end():]
        if rest.count("ga.swap_graphs(gb);") != 1:
            raise Unknown(site, "expected exactly one `ga.swap_graphs(gb);`")
        rest2 = re.sub(r"ga\.swap_graphs\(gb\);\s*", "", rest)
        rw = [("ga.relative_weight(gb)", "relw_ab"), ("gb.relative_weight(ga)", "relw_ba"), ("gb.get_n()", "n_b"), ("ga.get_n()", "n_a"), ("*ba", "ba"), ("*bb", "bb")]
        txt = rest2
        for old, new in rw:
            if old not in txt:
                raise Unknown(site, "expected the spelling `%s`" % old)
            txt = txt.replace(old, new)
        ast = parse_block_body(txt, site)
        g.translate("swap_on_chunks", site, src, f["start"], src.src[f["start"]:f["body1"] + 1], ast,
                    [("relw_ab", "Rat"), ("relw_ba", "Rat"), ("n_a", "Nat"), ("n_b", "Nat"), ("ba", "Rat"), ("bb", "Rat"), ("p", "Rat"), ("evaluate_hamiltonians", "Bool")],
                    "`swap_on_chunks` (returns whether the swap happens; the effect `ga.swap_graphs(gb)` of the true branch is dropped): "
                    "`relw_ab` = `ga.relative_weight(gb)`, `relw_ba` = `gb.relative_weight(ga)`, `n_a`/`n_b` = `ga.get_n()`/`gb.get_n()`, `ba`/`bb` = `*ba`/`*bb`",
                    want="Bool", what=fname)

    g.section(['Tempering'], _sec_10)

    # ---- 12. QmcIsingGraph::hamiltonian: dispatch on the bond index -----------------------------
    def _sec_12():
        src = g.file(ISING)
        fname = "hamiltonian"
        site = ISING + "::" + fname
        f = src.fn(fname, site)
        flat = " ".join(src.body(f).split())
        sk = re.fullmatch(
            r"match bond \{ bond if ([^{}]*?) => \{ debug_assert_eq!\(vars\.len\(\), 2\); two_site_hamiltonian\( \(input_state\[0\], input_state\[1\]\), \(output_state\[0\], output_state\[1\]\), info\.edges\[bond\]\.1, \) \} "
            r"bond if ([^{}]*?) => \{ debug_assert_eq!\(vars\.len\(\), 1\); transverse_hamiltonian\(input_state\[0\], output_state\[0\], info\.transverse\) \} "
            r"bond if ([^{}]*?) => \{ debug_assert_eq!\(vars\.len\(\), 1\); longitudinal_hamiltonian\(input_state\[0\], output_state\[0\], info\.longitudinal\) \} "
            r"_ => unreachable!\(\), \}", flat)
        if not sk:
            raise Unknown(site, "the `match bond { bond if <c1> => two_site_hamiltonian((in[0], in[1]), (out[0], out[1]), info.edges[bond].1), bond if <c2> => "
                                "transverse_hamiltonian(in[0], out[0], info.transverse), bond if <c3> => longitudinal_hamiltonian(in[0], out[0], info.longitudinal), _ => unreachable!() }` skeleton")
        rw = [("info.edges.len()", "edges_len"), ("info.nvars", "nvars")]
        conds = [parse_expr(normalise(sk.group(i), rw, site, required=["info.edges.len()"]), site) for i in (1, 2, 3)]
        ast = ("if", conds[0], ("num", "Nat", Fraction(0)), ("if", conds[1], ("num", "Nat", Fraction(1)), ("if", conds[2], ("num", "Nat", Fraction(2)), ("num", "Nat", Fraction(3)))))
        g.translate("hamiltonian_dispatch", site, src, f["start"], src.src[f["start"]:f["body1"] + 1], ast, [("bond", "Nat"), ("edges_len", "Nat"), ("nvars", "Nat")],
                    "which arm of `QmcIsingGraph::hamiltonian`'s `match bond { bond if … }` is taken: 0 = `two_site_hamiltonian((in[0], in[1]), (out[0], out[1]), "
                    "edges[bond].1)`, 1 = `transverse_hamiltonian(in[0], out[0], transverse)`, 2 = `longitudinal_hamiltonian(in[0], out[0], longitudinal)`, "
                    "3 = `unreachable!()` (the arms' calls are checked literally)", want="Nat", what=fname)
        f2 = src.fn("make_haminfo", ISING + "::make_haminfo")
        if " ".join(src.body(f2).split()) != "HamInfo { edges: &self.edges, transverse: self.transverse, longitudinal: self.longitudinal, nvars: self.get_nvars(), }":
            raise Unknown(ISING + "::make_haminfo", "body is no longer the field-by-field HamInfo literal")

    g.section(['IsingHam'], _sec_12)

    # ---- 13. bonds_fn (bond index -> variables, constant flag), four sites ---------------------
    def _sec_13():
        groups = ['IsingHam', 'Rvb', 'HeatBathIsing']
        src = g.file(ISING)
        ms = all_matches(src, r"let bonds_fn = \|b: usize\| -> (\(&\[usize\], bool\)|&\[usize\]) \{", ISING)
        where = [src.enclosing(m.start()) for m in ms]
        expect = ["single_diagonal_step", "single_rvb_sweep", "set_enable_heatbath", "timestep"]
        if where != expect:
            raise Unknown(ISING + "::bonds_fn", "`let bonds_fn = |b: usize| -> … {` expected exactly in %s, found in %s" % (expect, where))
        if len(re.findall(r"\n\s*vars: \(0\.\.nvars\)\.collect\(\),(?=\n)", src.src)) != 1:
            raise Unknown(ISING + "::new_with_rng_with_manager_hook", "`vars: (0..nvars).collect(),` (so that `vars[b] = b`)")
        items = []
        for m, fn in zip(ms, where):
            with g.tolerate(groups) as t:
                site = "%s::%s::bonds_fn" % (ISING, fn)
                name = t.name = "bonds_fn_" + fn
                i0 = m.end() - 1
                i1 = match_brace(src.src, i0, site)
                text = src.src[i0:i1 + 1]
                fbody = src.body(src.fn(fn, site))
                if len(re.findall(r"let vars = &self\.vars;", fbody)) != 1:
                    raise Unknown(site, "expected exactly one `let vars = &self.vars;` in the function")
                with_flag = m.group(1) != "&[usize]"
                if with_flag:
                    rw = [("(&edges[b].0, false)", "((false, false), b)"), ("(&vars[b..b + 1], true)", "((true, true), b)"), ("(&vars[b..b + 1], false)", "((true, false), b)")]
                else:
                    rw = [("&edges[b].0", "((false, false), b)"), ("&vars[b..b + 1]", "((true, CONST), b)")]
                txt = text
                for old, new in rw:
                    if txt.count(old) < 1:
                        raise Unknown(site, "expected the spelling `%s`" % old)
                    txt = txt.replace(old, new)
                if not with_flag:
                    # the heat-bath table builder takes only the variables: the constant flag is not part of this closure; to compare
                    # the four sites the flag of the other three is filled in (first single-variable branch true, second false)
                    if txt.count("CONST") != 2:
                        raise Unknown(site, "expected exactly two single-variable branches")
                    txt = txt.replace("CONST", "true", 1).replace("CONST", "false", 1)
                txt = normalise(txt, [("edges.len()", "edges_len")], site, required=["edges.len()"])
                ast = parse_expr(txt, site)
                body_, _ = g.translate(name, site, src, m.start(), src.src[m.start():i1 + 1], ast, [("b", "Nat"), ("edges_len", "Nat"), ("nvars", "Nat")],
                                       "`bonds_fn` of `%s`: `((single, constant), k)` — `single = false`: the variables of edge `k` (`&edges[k].0`); `single = true`: the one "
                                       "variable `vars[k] = k` (`&vars[k..k + 1]`); `constant` = the flag returned with it%s" % (fn, "" if with_flag else " (this closure returns no flag: filled in as at the other sites)"),
                                       want=("tuple", ("tuple", "Bool", "Bool"), "Nat"))
                items.append((site, body_, name, DEF_GROUP[name]))
        same(g, items, "bonds_fn")

    g.section(['IsingHam', 'Rvb', 'HeatBathIsing'], _sec_13)

    # ---- 14. the three matrices of into_qmc ----------------------------------------------------
    def _sec_14():
        src = g.file(ISING)
        fname = "into_qmc"
        site = ISING + "::" + fname
        f = src.fn(fname, site, expect=2, nth=0)   # the second `fn into_qmc` with a body is SerializeQmcGraph::into_qmc (restore)
        flat = " ".join(src.body(f).split())
        sk = re.search(
            r"let transverse = self\.transverse; let longitudinal = self\.longitudinal; "
            r"self\.edges\.into_iter\(\)\.for_each\(\|\(vars, j\)\| \{ qmc\.make_diagonal_interaction_and_offset\((vec!\[[^\]]*\]), vars\) \.unwrap\(\) \}\); "
            r"\(0\.\.nvars\)\.for_each\(\|var\| \{ qmc\.make_interaction\( (vec!\[[^\]]*\]), vec!\[var\], \) \.unwrap\(\) \}\); "
            r"if [^{]* \{ \(0\.\.nvars\)\.for_each\(\|var\| \{ qmc\.make_interaction_and_offset\( (vec!\[[^\]]*\]), vec!\[var\], \) \.unwrap\(\) \}\); \} "
            r"qmc\.set_manager\(self\.op_manager\.unwrap\(\)\); qmc\.set_cutoff\(self\.cutoff\); qmc$", flat)
        if not sk:
            raise Unknown(site, "the edges / transverse / (guarded) longitudinal `for_each … make_*interaction*(vec![…], …).unwrap()` skeleton followed by set_manager, set_cutoff")
        for i, (nm, var, doc) in enumerate((("into_qmc_edge_matrix", "j", "diagonal table handed to `make_diagonal_interaction_and_offset` per edge"),
                                            ("into_qmc_transverse_matrix", "transverse", "full matrix handed to `make_interaction` per variable"),
                                            ("into_qmc_field_matrix", "longitudinal", "full matrix handed to `make_interaction_and_offset` per variable (only under the field guard)"))):
            g.translate(nm, site, src, f["start"], sk.group(i + 1), parse_expr(sk.group(i + 1), site), [(var, "Rat")], doc + " in `into_qmc`", want=("list", "Rat"), what=fname)

    g.section(['Convert'], _sec_14)

    # ---- 15. replicated closures of qmc_ising.rs / qmc_runner.rs ---------------------------------
    replicated_closures(g, ISING, RUNNER)

    # ---- 11. get_mat_var_size: the even-exponent rule ------------------------------------------
    def _sec_11():
        src = g.file(RUNNER)
        fname = "get_mat_var_size"
        site = RUNNER + "::" + fname
        f = src.fn(fname, site)
        if " ".join(f["sig"].split()) != "fn get_mat_var_size(mat_len: usize) -> Result<usize, ()>":
            raise Unknown(site, "signature shape")
        m = re.fullmatch(r"\s*get_power_of_two\(mat_len\)\.and_then\(\|i\| (.*)\)\s*", src.body(f), re.S)
        if not m:
            raise Unknown(site, "body is no longer `get_power_of_two(mat_len).and_then(|i| <rule>)`")
        g.translate("mat_var_size_rule", site, src, f["start"], src.src[f["start"]:f["body1"] + 1], parse_expr(m.group(1), site), [("i", "Nat")],
                    "the closure of `get_mat_var_size`: `get_power_of_two(mat_len).and_then(|i| …)`; `Ok(x)` ↦ `some x`, `Err(())` ↦ `none`",
                    want=("opt", "Nat"), what=fname)

    g.section(['Size'], _sec_11)

    # ---- 16. classical sampler, stepper cadence, RVB arithmetic, BondContainer, autocorrelation ----
    extra_sites(g)

    return g


# ================================================================================================
# sites added in session 4: classical sampler, stepper cadence, RVB arithmetic, BondContainer, autocorrelation
# ================================================================================================
FN_RR = ("fn", ("Rat",), "Rat")


def flat(text):
    return " ".join(text.split())


def one_match(text, regex, site, what, flags=re.S):
    """exactly one match of `regex` in `text` (fail closed otherwise)"""
    ms = list(re.finditer(regex, text, flags))
    if len(ms) != 1:
        raise Unknown(site, "expected exactly one `%s`, found %d" % (what, len(ms)))
    return ms[0]


def need(text, literal, site, n=1):
    """the flattened text must contain the literal spelling exactly n times"""
    if flat(text).count(literal) != n:
        raise Unknown(site, "expected %d × the literal spelling `%s`, found %d" % (n, literal, flat(text).count(literal)))


def rewrite(text, pairs, site):
    """literal spellings -> variables; every spelling must occur (plain string replacement, for spellings the lexer cannot read)"""
    for old, new in pairs:
        if old not in text:
            raise Unknown(site, "expected the spelling `%s`" % old)
        text = text.replace(old, new)
    return text


def extra_sites(g):
    GRAPH = "src/classical/graph.rs"
    STEPPER = "src/sse/qmc_traits/qmc_stepper.rs"
    TEMPER = "src/sse/parallel_tempering/tempering_container.rs"
    RVB = "src/sse/qmc_traits/rvb.rs"
    BOND = "src/util/bondcontainer.rs"
    AUTO = "src/sse/autocorrelations.rs"

    # ---- C1. classical: should_flip -------------------------------------------------------------
    # accepted shape: `fn should_flip(rng: &mut R, beta: f64, delta_e: f64) -> bool` whose body is a let-chain / if-else over
    # beta, delta_e, ONE `rng.gen::<f64>()` (↦ drawn value `gen_f64`), `.exp()` (↦ uninterpreted `exp`); exactly three callers
    def _c1():
        src = g.file(GRAPH)
        site = GRAPH + "::should_flip"
        f = src.fn("should_flip", site)
        if flat(f["sig"]) != "fn should_flip(rng: &mut R, beta: f64, delta_e: f64) -> bool":
            raise Unknown(site, "signature shape")
        body = src.body(f)
        if body.count("rng.gen::<f64>()") != 1 or len(re.findall(r"\brng\b", body)) != 1:
            raise Unknown(site, "expected exactly one use of the rng, spelled `rng.gen::<f64>()`")
        ast = parse_block_body(body.replace("rng.gen::<f64>()", "gen_f64"), site, features=("exp",))
        g.translate("classical_should_flip", site, src, f["start"], src.src[f["start"]:f["body1"] + 1], ast,
                    [("exp", FN_RR), ("gen_f64", "Rat"), ("beta", "Rat"), ("delta_e", "Rat")],
                    "`GraphState::should_flip` (src/classical/graph.rs); `exp` = `f64::exp` (uninterpreted), `gen_f64` = the value of `rng.gen::<f64>()`",
                    want="Bool", what="should_flip", drawn="gen_f64")
        calls = [(src.enclosing(m.start()), flat(m.group(0))) for m in re.finditer(r"if !?Self::should_flip\([^)]*\) \{", src.src)]
        want = [("do_spin_flip", "if Self::should_flip(rng, beta, delta_e) {"), ("do_edge_flip", "if Self::should_flip(rng, beta, delta_e) {"),
                ("do_worm_flip", "if !Self::should_flip(rng, beta, total_he) {")]
        if calls != want or len(re.findall(r"should_flip\(", src.src[:src.src.find("mod classic_tests")])) != 4:
            raise Unknown(site, "callers: expected `if Self::should_flip(rng, beta, delta_e) {` in do_spin_flip, do_edge_flip and `if !Self::should_flip(rng, beta, total_he) {` in do_worm_flip, found %s" % calls)
        need(src.body(src.fn("do_spin_flip", site)), "if Self::should_flip(rng, beta, delta_e) { state[random_index] = !state[random_index] }", GRAPH + "::do_spin_flip")
        need(src.body(src.fn("do_edge_flip", site)), "if Self::should_flip(rng, beta, delta_e) { state[va] = !state[va]; state[vb] = !state[vb]; }", GRAPH + "::do_edge_flip")

    g.section(["Classical"], _c1)

    # ---- C2. classical: the per-neighbour summand of the flip energy (do_spin_flip, delta_e) -------
    # accepted shape: `.map(|(indx, j)| { <let chain> <expr> })` over curr_value, state[indx] (↦ state_indx), j; `^` = bool xor
    def _c2():
        src = g.file(GRAPH)
        ms = [m for m in all_matches(src, r"\.map\(\|\(indx, j\)\| \{", GRAPH) if src.enclosing(m.start()) != "get_energy"]
        expect_sites(src, ms, ["do_spin_flip", "delta_e"], "flip summand closures `.map(|(indx, j)| {`")
        items = []
        for m in ms:
            with g.tolerate(["Classical"]) as t:
                fn = src.enclosing(m.start())
                site = "%s::%s::flip summand" % (GRAPH, fn)
                name = t.name = "classical_flip_summand_" + fn
                i0, i1 = closure_after(src, m.end() - 1, site)
                if flat(src.src[i1 + 1:i1 + 30]).split(";")[0].replace(" ", "") not in (").sum()", ").sum()}"):
                    raise Unknown(site, "the closure is not followed by `).sum()`")
                txt = rewrite(src.src[i0 + 1:i1], [("state[indx]", "state_indx")], site)
                ast = parse_block_body(txt, site, features=("xor",))
                body_, _ = g.translate(name, site, src, m.start(), src.src[m.start():i1 + 1], ast,
                                       [("curr_value", "Bool"), ("state_indx", "Bool"), ("j", "Rat")],
                                       "summand of the flip energy in `%s`: contribution of the neighbour `(indx, j)`; `state_indx` = `state[indx]`" % fn, want="Rat")
                items.append((site, body_, name, "Classical"))
        same(g, items, "flip-energy summand")
        fb = src.body(src.fn("do_spin_flip", GRAPH + "::do_spin_flip"))
        for lit in ("let random_index = rng.gen_range(0..state.len());", "let curr_value = state[random_index];", "let binding_slice = &binding_mat[random_index];",
                    "let delta_e: f64 = binding_slice .iter() .cloned() .map(|(indx, j)| {"):
            need(fb, lit, GRAPH + "::do_spin_flip")
        fb = src.body(src.fn("delta_e", GRAPH + "::delta_e"))
        for lit in ("let curr_value = state[v];", "binding_mat[v] .iter() .cloned() .filter(|(ov, _)| Some(*ov) != omit) .map(|(indx, j)| {"):
            need(fb, lit, GRAPH + "::delta_e")

    g.section(["Classical"], _c2)

    # ---- C3. classical: bias terms and totals of the spin / edge / worm moves ----------------------
    def _c3():
        src = g.file(GRAPH)
        # do_spin_flip: `let delta_e = delta_e + (…biases[random_index]…);`
        site = GRAPH + "::do_spin_flip::delta_e total"
        f = src.fn("do_spin_flip", site)
        m = one_match(src.body(f), r"let delta_e = (delta_e [^;]*);", site, "let delta_e = delta_e …;")
        txt = rewrite(m.group(1), [("biases[random_index]", "bias")], site)
        g.translate("classical_spin_delta_total", site, src, f["body0"] + 1 + m.start(), m.group(0), parse_expr(txt, site),
                    [("delta_e", "Rat"), ("bias", "Rat"), ("curr_value", "Bool")],
                    "`let delta_e = delta_e + …` of `do_spin_flip`: coupling part + bias part; `bias` = `biases[random_index]`", want="Rat")
        # do_edge_flip: the closure `|va, vb| { let delta_e = Self::delta_e(va, Some(vb), state, binding_mat); delta_e + (…) }` and the sum
        site = GRAPH + "::do_edge_flip::delta_e closure"
        f = src.fn("do_edge_flip", site)
        fb = src.body(f)
        m = one_match(fb, r"let delta_e = \|va: usize, vb: usize\| -> f64 \{", site, "let delta_e = |va: usize, vb: usize| -> f64 {")
        off = f["body0"] + 1 + m.end() - 1
        i1 = match_brace(src.src, off, site)
        txt = rewrite(src.src[off + 1:i1], [("Self::delta_e(va, Some(vb), state, binding_mat)", "de_omit"), ("biases[va]", "bias_va"), ("state[va]", "state_va")], site)
        g.translate("classical_edge_delta_half", site, src, off, src.src[off:i1 + 1], parse_block_body(txt, site),
                    [("de_omit", "Rat"), ("bias_va", "Rat"), ("state_va", "Bool")],
                    "the closure `delta_e(va, vb)` of `do_edge_flip`; `de_omit` = `Self::delta_e(va, Some(vb), state, binding_mat)`, `bias_va` = `biases[va]`, `state_va` = `state[va]`", want="Rat")
        site = GRAPH + "::do_edge_flip::delta_e total"
        m = one_match(fb, r"let delta_e = (delta_e\([^;]*);", site, "let delta_e = delta_e(…) …;")
        g.translate("classical_edge_delta_total", site, src, f["body0"] + 1 + m.start(), m.group(0), parse_expr(m.group(1), site, uninterp=("delta_e",)),
                    [("delta_e", ("fn", ("Nat", "Nat"), "Rat")), ("va", "Nat"), ("vb", "Nat")],
                    "`let delta_e = delta_e(va, vb) + delta_e(vb, va);` of `do_edge_flip` over the closure `delta_e` (uninterpreted here)", want="Rat")
        for lit in ("if edges.is_empty() { return; }", "let ((va, vb), _) = edges[indx_edge];", "let p = rng.gen_range(0. ..totalw);", "rng.gen_range(0..edges.len())",
                    "let indx = cumulative_edge_weights .binary_search_by(|v| v.partial_cmp(&p).expect(\"Couldn't compare values\")); match indx { Ok(indx) => indx, Err(indx) => indx, }"):
            need(fb, lit, GRAPH + "::do_edge_flip")
        # do_worm_flip: `let total_he = visit_path.iter().cloned().map(|v| …).sum();`
        site = GRAPH + "::do_worm_flip::total_he"
        f = src.fn("do_worm_flip", site)
        m = one_match(src.body(f), r"let total_he = visit_path\s*\.iter\(\)\s*\.cloned\(\)\s*\.map\(\|v\| (.*?)\)\s*\.sum\(\);", site, "let total_he = visit_path.iter().cloned().map(|v| …).sum();")
        txt = rewrite(m.group(1), [("biases[v]", "bias_v"), ("state[v]", "state_v")], site)
        g.translate("classical_worm_bias_term", site, src, f["body0"] + 1 + m.start(1), m.group(0), parse_expr(txt, site),
                    [("bias_v", "Rat"), ("state_v", "Bool")], "summand of `total_he` in `do_worm_flip`; `bias_v` = `biases[v]`, `state_v` = `state[v]` (the state AFTER the worm's flips)", want="Rat")

    g.section(["Classical"], _c3)

    # ---- C4. classical: get_energy ---------------------------------------------------------------
    def _c4():
        src = g.file(GRAPH)
        site = GRAPH + "::get_energy"
        f = src.fn("get_energy", site)
        fb = src.body(f)
        base = f["body0"] + 1
        sk = re.search(r"if let Some\(state\) = &self\.state \{\s*state\.iter\(\)\.enumerate\(\)\.fold\(0\.0, \|acc, \(i, si\)\| \{\s*let binding_slice = &self\.binding_mat\[i\];\s*"
                       r"let total_e: f64 = binding_slice\s*\.iter\(\)\s*\.map\(\|\(indx, j\)\| -> f64 (\{.*?\})\)\s*\.sum\(\);\s*let bias_e = ([^;]*);\s*([^;{}]*?)\s*\}\)\s*\} else \{\s*std::f64::NAN\s*\}\s*$", fb, re.S)
        if not sk:
            raise Unknown(site, "the `if let Some(state) = &self.state { state.iter().enumerate().fold(0.0, |acc, (i, si)| { let binding_slice = &self.binding_mat[i]; let total_e: f64 = "
                                "binding_slice.iter().map(|(indx, j)| -> f64 {…}).sum(); let bias_e = …; <step> }) } else { std::f64::NAN }` skeleton")
        txt = rewrite(sk.group(1), [("state[*indx]", "state_indx")], site)
        g.translate("classical_energy_coupling_term", site, src, base + sk.start(1), sk.group(1), parse_expr(txt, site, features=("xor",)),
                    [("si", "Bool"), ("state_indx", "Bool"), ("j", "Rat")], "summand of `total_e` in `get_energy` (every edge is met from both ends, hence `/ 2.0`); `state_indx` = `state[*indx]`", want="Rat")
        txt = rewrite(sk.group(2), [("*si", "si"), ("self.biases[i]", "bias")], site)
        if "*" in txt:
            raise Unknown(site, "unexpected `*` in `bias_e`")
        g.translate("classical_energy_bias_term", site, src, base + sk.start(2), sk.group(2), parse_expr(txt, site),
                    [("si", "Bool"), ("bias", "Rat")], "`bias_e` of `get_energy`; `bias` = `self.biases[i]`", want="Rat")
        g.translate("classical_energy_fold_step", site, src, base + sk.start(3), sk.group(3), parse_expr(sk.group(3), site),
                    [("acc", "Rat"), ("total_e", "Rat"), ("bias_e", "Rat")], "fold step of `get_energy` (initial value `0.0`)", want="Rat")

    g.section(["Classical"], _c4)

    # ---- C5. classical: defaults and move choice of do_time_step ----------------------------------
    def _c5():
        src = g.file(GRAPH)
        site = GRAPH + "::do_time_step"
        f = src.fn("do_time_step", site)
        fb = src.body(f)
        base = f["body0"] + 1
        OPTN = ("opt", "Nat")
        for var, nm, params, rw, doc in (
                ("only_basic_moves", "classical_only_basic_default", [("only_basic_moves", ("opt", "Bool"))], [], "default of `only_basic_moves`"),
                ("nspinupdates", "classical_nspinupdates", [("nspinupdates", OPTN), ("state_len", "Nat")], [("spin_state.len()", "state_len")], "number of single-spin updates of one `do_time_step`; `state_len` = `spin_state.len()`"),
                ("nedgeupdates", "classical_nedgeupdates", [("nedgeupdates", OPTN), ("edges_len", "Nat")], [("self.edges.len()", "edges_len")], "number of edge updates of one `do_time_step`; `edges_len` = `self.edges.len()`"),
                ("nwormupdates", "classical_nwormupdates", [("nwormupdates", OPTN)], [], "number of worm updates of one `do_time_step`")):
            m = one_match(fb, r"let %s = (%s\.[^;]*);" % (var, var), site + "::" + var, "let %s = %s.…;" % (var, var))
            txt = rewrite(m.group(1), rw, site + "::" + var)
            ast = parse_expr(txt, site + "::" + var, features=("unwrap_or",))
            g.translate(nm, site + "::" + var, src, base + m.start(), m.group(0), ast, params, doc + " (`do_time_step`)", want=params[0][1][1])
        m = one_match(fb, r"let t = ([^;]*);", site + "::t", "let t = …;")
        g.translate("classical_move_kinds", site + "::t", src, base + m.start(), m.group(0), parse_expr(m.group(1), site + "::t"),
                    [("only_basic_moves", "Bool")], "number of move kinds the step chooses from: `choice = gen_range(0..t)`, 0 spin, 1 edge, 2 worm", want="Nat")
        for lit in ("let choice: u8 = self.rng.gen_range(0..t);", "match choice { 0 => (0..nspinupdates).for_each(|_| { Self::do_spin_flip(",
                    "1 => (0..nedgeupdates).for_each(|_| { Self::do_edge_flip(", "2 => (0..nwormupdates).for_each(|_| { Self::do_worm_flip(", "_ => unreachable!(), }",
                    "self.cumulative_weight .as_ref() .map(|(v, w)| (v.as_slice(), *w)),"):
            need(fb, lit, site)

    g.section(["Classical"], _c5)

    # ---- C6. classical: the cumulative table of enable_edge_importance_sampling ---------------------
    def _c6():
        src = g.file(GRAPH)
        site = GRAPH + "::enable_edge_importance_sampling"
        f = src.fn("enable_edge_importance_sampling", site)
        fb = src.body(f)
        base = f["body0"] + 1
        sk = re.fullmatch(r"\s*self\.cumulative_weight = if enable \{\s*let v = Vec::with_capacity\(self\.edges\.len\(\)\);\s*let \(v, totalw\) =\s*self\.edges\s*\.iter\(\)\s*\.map\(\|\(_, w\)\| (.*?)\)\s*"
                          r"\.fold\(\(v, 0\.\), \|\(mut accv, accw\), w\| \{\s*accv\.push\((.*?)\);\s*\(accv, (.*?)\)\s*\}\);\s*if ([^{]*?) \{\s*Some\(\(v, totalw\)\)\s*\} else \{\s*None\s*\}\s*\} else \{\s*None\s*\}\s*", fb, re.S)
        if not sk:
            raise Unknown(site, "the `self.cumulative_weight = if enable { let v = …; let (v, totalw) = self.edges.iter().map(|(_, w)| <weight>).fold((v, 0.), |(mut accv, accw), w| { accv.push(<x>); (accv, <y>) }); "
                                "if <guard> { Some((v, totalw)) } else { None } } else { None }` skeleton")
        g.translate("classical_importance_weight", site, src, base + sk.start(1), sk.group(1), parse_expr(sk.group(1), site), [("w", "Rat")],
                    "selection weight of an edge of coupling `w` in `enable_edge_importance_sampling`", want="Rat")
        g.translate("classical_cum_push", site, src, base + sk.start(2), sk.group(2), parse_expr(sk.group(2), site), [("accw", "Rat"), ("w", "Rat")],
                    "entry pushed to the cumulative table by the fold step (`accw` starts at `0.`)", want="Rat")
        g.translate("classical_cum_next", site, src, base + sk.start(3), sk.group(3), parse_expr(sk.group(3), site), [("accw", "Rat"), ("w", "Rat")],
                    "running total after the fold step", want="Rat")
        g.translate("classical_importance_guard", site, src, base + sk.start(4), sk.group(4), parse_expr(sk.group(4), site), [("totalw", "Rat")],
                    "the table is kept only under this guard (otherwise uniform selection)", want="Bool")

    g.section(["Classical"], _c6)

    # ---- S1. stepper: timesteps_measure_with_self --------------------------------------------------
    def _s1():
        src = g.file(STEPPER)
        site = STEPPER + "::timesteps_measure_with_self"
        f = src.fn("timesteps_measure_with_self", site)
        fb = src.body(f)
        base = f["body0"] + 1
        sk = re.fullmatch(r"\s*let mut acc = init_t;\s*let mut steps_measured = 0;\s*let mut total_n = 0;\s*let sampling_freq = (sampling_freq\.[^;]*);\s*"
                          r"for t in 0\.\.timesteps \{\s*self\.timestep\(beta\);\s*if ([^{]*?) \{\s*acc = state_fold\(acc, self\);\s*steps_measured \+= ([^;]*);\s*total_n \+= ([^;]*);\s*\}\s*\}\s*"
                          r"let average_n = ([^;]*);\s*\(acc, self\.get_energy_for_average_n\(average_n, beta\)\)\s*", fb, re.S)
        if not sk:
            raise Unknown(site, "the `let mut acc = init_t; let mut steps_measured = 0; let mut total_n = 0; let sampling_freq = sampling_freq.…; for t in 0..timesteps { self.timestep(beta); "
                                "if <cond> { acc = state_fold(acc, self); steps_measured += …; total_n += …; } } let average_n = …; (acc, self.get_energy_for_average_n(average_n, beta))` skeleton")
        g.translate("stepper_sampling_freq", site, src, base + sk.start(1), sk.group(1), parse_expr(sk.group(1), site, features=("unwrap_or",)),
                    [("sampling_freq", ("opt", "Nat"))], "`let sampling_freq = …` of `timesteps_measure_with_self`", want="Nat")
        g.translate("stepper_sample_cond", site, src, base + sk.start(2), sk.group(2), parse_expr(sk.group(2), site),
                    [("t", "Nat"), ("sampling_freq", "Nat")], "is the state after step `t` (0-based loop variable) sampled", want="Bool")
        g.translate("stepper_steps_measured_next", site, src, base + sk.start(3), "steps_measured += " + sk.group(3), parse_expr("steps_measured + (%s)" % sk.group(3), site),
                    [("steps_measured", "Nat")], "`steps_measured += …` as `steps_measured + (…)` (starts at 0)", want="Nat")
        txt = rewrite(sk.group(4), [("self.get_n()", "n")], site)
        g.translate("stepper_total_n_next", site, src, base + sk.start(4), "total_n += " + sk.group(4), parse_expr("total_n + (%s)" % txt, site),
                    [("total_n", "Nat"), ("n", "Nat")], "`total_n += …` as `total_n + (…)` (starts at 0); `n` = `self.get_n()`", want="Nat")
        g.translate("stepper_average_n", site, src, base + sk.start(5), sk.group(5), parse_expr(sk.group(5), site),
                    [("total_n", "Nat"), ("steps_measured", "Nat")], "`average_n` handed to `get_energy_for_average_n`", want="Rat")

    g.section(["Stepper"], _s1)

    # ---- S2. stepper: the chunk loop of both tempering drivers -------------------------------------
    def _s2():
        src = g.file(TEMPER)
        items = {}
        fns = (("timesteps_sample", "tempering_step", r"self\.graphs\s*\.iter_mut\(\)", r"energy_acc\.iter_mut\(\)", 1),
               ("parallel_timesteps_sample", "parallel_tempering_step", r"self\.graphs\s*\.par_iter_mut\(\)", r"energy_acc\.par_iter_mut\(\)", 2))
        for fn, stepfn, it1, it2, expect in fns:
            with g.tolerate(["Stepper"]):
                site = "%s::%s" % (TEMPER, fn)
                f = src.fn(fn, site)   # (the trait declaration of the parallel driver has no body: Source.fns lists bodies only)
                fb = src.body(f)
                base = f["body0"] + 1
                sk = re.search(r"let mut energy_acc = vec!\[0\.0; self\.num_graphs\(\)\];\s*let mut remaining_timesteps = ([^;]*);\s*let mut time_to_swap = ([^;]*);\s*let mut time_to_sample = ([^;]*);\s*"
                               r"while ([^{]*?) \{\s*let t = ([^;]*);\s*" + it1 + r"\s*\.map\(\|\(g, beta\)\| g\.timesteps\(t, \*beta\)\)\s*\.zip\(" + it2 + r"\)\s*\.for_each\(\|\(te, e\)\| \{\s*\*e \+= ([^;]*);\s*\}\);\s*"
                               r"time_to_sample -= ([^;]*);\s*time_to_swap -= ([^;]*);\s*remaining_timesteps -= ([^;]*);\s*"
                               r"if ([^{]*?) \{\s*self\." + stepfn + r"\(\);\s*time_to_swap = ([^;]*);\s*\}\s*if ([^{]*?) \{.*?\.for_each\(\|\(s, g\)\| s\.push\(g\.state_ref\(\)\.to_vec\(\)\)\);\s*time_to_sample = ([^;]*);\s*\}\s*\}"
                               r"\s*states\s*\.into_iter\(\)\s*\.zip\(energy_acc\.into_iter\(\)\.map\(\|e\| ([^)]*)\)\)\s*\.collect\(\)\s*$", fb, re.S)
                if not sk:
                    raise Unknown(site, "the chunk-loop skeleton `let mut energy_acc = vec![0.0; …]; let mut remaining_timesteps = …; let mut time_to_swap = …; let mut time_to_sample = …; while <c> { let t = …; "
                                        "<graphs>.map(|(g, beta)| g.timesteps(t, *beta)).zip(<energy_acc>).for_each(|(te, e)| { *e += …; }); time_to_sample -= …; time_to_swap -= …; remaining_timesteps -= …; "
                                        "if <c> { self.%s(); time_to_swap = …; } if <c> { …push…; time_to_sample = …; } } states.into_iter().zip(energy_acc.into_iter().map(|e| …)).collect()`" % stepfn)
                N3 = [("timesteps", "Nat"), ("replica_swap_freq", "Nat"), ("sampling_freq", "Nat")]
                CD = [("time_to_sample", "Nat"), ("time_to_swap", "Nat"), ("remaining_timesteps", "Nat")]
                pieces = (
                    ("chunk_init_remaining", 1, None, N3, "Nat", "initial `remaining_timesteps`"),
                    ("chunk_init_to_swap", 2, None, N3, "Nat", "initial `time_to_swap`"),
                    ("chunk_init_to_sample", 3, None, N3, "Nat", "initial `time_to_sample`"),
                    ("chunk_continue", 4, None, CD, "Bool", "loop condition"),
                    ("chunk_t", 5, None, CD, "Nat", "length `t` of the next chunk"),
                    ("chunk_energy_acc", 6, "e + (%s)", [("e", "Rat"), ("te", "Rat"), ("t", "Nat")], "Rat", "`*e += …` as `e + (…)`: energy accumulator after a chunk of `t` steps of average energy `te`"),
                    ("chunk_to_sample_dec", 7, "time_to_sample - (%s)", CD + [("t", "Nat")], "Nat", "`time_to_sample -= …` as `time_to_sample - (…)`"),
                    ("chunk_to_swap_dec", 8, "time_to_swap - (%s)", CD + [("t", "Nat")], "Nat", "`time_to_swap -= …`"),
                    ("chunk_remaining_dec", 9, "remaining_timesteps - (%s)", CD + [("t", "Nat")], "Nat", "`remaining_timesteps -= …`"),
                    ("chunk_swap_due", 10, None, CD, "Bool", "condition of the replica-exchange step (after the decrements)"),
                    ("chunk_to_swap_reset", 11, None, N3, "Nat", "`time_to_swap` after an exchange step"),
                    ("chunk_sample_due", 12, None, CD, "Bool", "condition of the sampling block (after the decrements)"),
                    ("chunk_to_sample_reset", 13, None, N3, "Nat", "`time_to_sample` after sampling"),
                    ("chunk_final_energy", 14, None, [("e", "Rat")] + N3, "Rat", "energy returned per replica from the accumulator `e`"),
                )
                for nm, gi, wrap, params, want, doc in pieces:
                    with g.tolerate(["Stepper"]) as t:
                        name = t.name = "%s_%s" % (nm, fn)
                        txt = sk.group(gi) if wrap is None else wrap % sk.group(gi)
                        body_, _ = g.translate(name, site + "::" + nm, src, base + sk.start(gi), sk.group(gi), parse_expr(txt, site + "::" + nm), params,
                                               "%s in the chunk loop of `%s`" % (doc, fn), want=want)
                        items.setdefault(nm, []).append((site + "::" + nm, body_, name, "Stepper"))
        for nm, its in items.items():
            same(g, its, "chunk loop `%s` (serial and parallel driver)" % nm)

    g.section(["Stepper"], _s2)

    # ---- R1. rvb: calculate_mult, the accept decision, the early-exit tests, the boundary manager ---
    def _r1():
        src = g.file(RVB)
        bsrc = g.file(BOND)
        site = RVB + "::calculate_mult"
        f = src.fn("calculate_mult", site)
        if flat(f["sig"]) != "fn calculate_mult( bonds_before: &BondContainer<usize>, bonds_after: &BondContainer<usize>, n: usize, ) -> f64":
            raise Unknown(site, "signature shape")
        body, ndbg = strip_debug_asserts(src.body(f), site)
        if ndbg != 1:
            raise Unknown(site, "expected exactly one debug assertion, found %d" % ndbg)
        txt = rewrite(body, [("bonds_before.get_total_weight()", "wb"), ("bonds_after.get_total_weight()", "wa")], site)
        g.translate("rvb_calculate_mult", site, src, f["start"], src.src[f["start"]:f["body1"] + 1], parse_block_body(txt, site),
                    [("wb", "Rat"), ("wa", "Rat"), ("n", "Nat")],
                    "`calculate_mult` (src/sse/qmc_traits/rvb.rs; 1 debug assertion dropped); `wb` / `wa` = `bonds_before` / `bonds_after.get_total_weight()`", want="Rat", what="calculate_mult")
        gf = bsrc.fn("get_total_weight", BOND + "::get_total_weight")
        if flat(bsrc.body(gf)) != "self.total_weight":
            raise Unknown(BOND + "::get_total_weight", "body is no longer `self.total_weight`")

    g.section(["Rvb"], _r1)

    def _r2():
        src = g.file(RVB)
        site = RVB + "::rvb_update_with_ising_weight::should_mutate"
        f = src.fn("rvb_update_with_ising_weight", site)
        fb = src.body(f)
        m = one_match(fb, r"let should_mutate = ([^;]*);", site, "let should_mutate = …;")
        txt = rewrite(m.group(1), [("rng.gen_bool", "gen_bool")], site)
        g.translate("rvb_should_mutate", site, src, f["body0"] + 1 + m.start(), m.group(0), parse_expr(txt, site), [("p_to_flip", "Rat")],
                    "the accept decision of an RVB proposal from `p_to_flip` = `calculate_flip_prob(…)`", want="Bool", draws=True)
        need(fb, "if should_mutate { // Great, mutate the graph. mutate_graph(".replace("// Great, mutate the graph. ", ""), site)
        # the early-exit tests of calculate_flip_prob
        site = RVB + "::calculate_flip_prob"
        f = src.fn("calculate_flip_prob", site)
        fb = src.body(f)
        ms = list(re.finditer(r"if (mult [^{]*?) \{\s*mult = ([^;]*);\s*break;\s*\}", fb))
        if len(ms) != 2 or len(re.findall(r"\bbreak;", fb)) != 3 or len(re.findall(r"\bmult\s*[-+*/]?=(?!=)", fb)) != 6:
            raise Unknown(site, "expected exactly two `if mult … { mult = …; break; }` early exits (one further `break`: the jump to the end; six assignments to `mult` in all), found %d" % len(ms))
        items = []
        for k, m in enumerate(ms):
            with g.tolerate(["Rvb"]) as t:
                name = t.name = "rvb_mult_early_exit_%d" % (k + 1)
                s_ = "%s::early exit #%d" % (site, k + 1)
                ast = ("if", parse_expr(m.group(1), s_), ("some", parse_expr(m.group(2), s_)), ("none",))
                body_, _ = g.translate(name, s_, src, f["body0"] + 1 + m.start(), m.group(0), ast, [("mult", "Rat")],
                                       "early exit #%d of `calculate_flip_prob`: `some v` = the sweep is abandoned with `mult = v`, `none` = it continues" % (k + 1), want=("opt", "Rat"))
                items.append((s_, body_, name, "Rvb"))
        same(g, items, "early exit of calculate_flip_prob")
        for lit, n in (("let mut mult = 1.0;", 1), ("mult *= ising_flip_weight;", 1), ("mult *= calculate_mult(&bonds_before, &bonds_after, n_bonds);", 2),
                       ("let ising_flip_weight = ising_ratio(op);", 1)):
            need(fb, lit, site, n)

    g.section(["Rvb"], _r2)

    def _r3():
        src = g.file(RVB)
        site = RVB + "::pop_index"
        f = src.fn("pop_index", site)   # the impl for WeightedBoundaryManager (the trait declaration has no body)
        fb = src.body(f)
        base = f["body0"] + 1
        m = one_match(fb, r"let total_weight =\s*([^;]*);", site, "let total_weight = …;")
        txt = rewrite(flat(m.group(1)), [("self.boundary_flips.get_total_weight()", "w_flips"), ("self.boundary_noflips.get_total_weight()", "w_noflips")], site)
        g.translate("rvb_pop_total_weight", site, src, base + m.start(), m.group(0), parse_expr(txt, site), [("w_flips", "Rat"), ("w_noflips", "Rat")],
                    "`total_weight` of `WeightedBoundaryManager::pop_index`; `w_flips` / `w_noflips` = `self.boundary_flips` / `self.boundary_noflips.get_total_weight()`", want="Rat")
        m = one_match(fb, r"let f_ratio = ([^;]*);", site, "let f_ratio = …;")
        txt = rewrite(m.group(1), [("self.boundary_flips.get_total_weight()", "w_flips")], site)
        g.translate("rvb_pop_f_ratio", site, src, base + m.start(), m.group(0), parse_expr(txt, site), [("w_flips", "Rat"), ("w_noflips", "Rat"), ("total_weight", "Rat")],
                    "probability of popping from `boundary_flips`", want="Rat")
        for lit in ("let pick_flips = rng.gen_bool(f_ratio);", "let (boundary, poss) = if pick_flips { (&mut self.boundary_flips, &mut self.var_pos_popped) } else { (&mut self.boundary_noflips, &mut self.var_nopos_popped) };",
                    "let (v, w) = *boundary.get_random(rng).unwrap();"):
            need(fb, lit, site)
        site = RVB + "::push_adjacent"
        f = src.fn("push_adjacent", site)
        fb = src.body(f)
        base = f["body0"] + 1
        ms = list(re.finditer(r"let weight = ([^;]*);", fb))
        if len(ms) != 2:
            raise Unknown(site, "expected two `let weight = …;`, found %d" % len(ms))
        g.translate("rvb_push_weight_default", site, src, base + ms[0].start(), ms[0].group(0), parse_expr(ms[0].group(1), site, features=("unwrap_or",)),
                    [("weight", ("opt", "Rat"))], "`let weight = weight.unwrap_or(…)` of `WeightedBoundaryManager::push_adjacent`", want="Rat")
        txt = rewrite(ms[1].group(1), [("boundary.get_weight(&varpos)", "old_weight")], site)
        g.translate("rvb_push_new_weight", site, src, base + ms[1].start(), ms[1].group(0), parse_expr(txt, site, features=("unwrap_or",)),
                    [("old_weight", ("opt", "Rat")), ("weight", "Rat")], "weight stored for a boundary cell pushed again; `old_weight` = `boundary.get_weight(&varpos)`", want="Rat")
        need(fb, "if !poss[indx] { let weight = boundary.get_weight(&varpos).unwrap_or(0.) + weight; boundary.insert(varpos, weight); }".replace("boundary.get_weight(&varpos).unwrap_or(0.) + weight", flat(ms[1].group(1))), site)

    g.section(["Rvb"], _r3)

    # ---- B1. BondContainer: weight bookkeeping ------------------------------------------------------
    def _b1():
        src = g.file(BOND)
        T = [("total_weight", "Rat")]
        # insert
        site = BOND + "::insert"
        f = src.fn("insert", site)
        fb = src.body(f)
        base = f["body0"] + 1
        sk = re.fullmatch(r"\s*let entry_index = value\.clone\(\)\.into\(\);\s*if ([^{]*?) \{\s*self\.map\.resize\(([^,]*), None\);\s*\}\s*match self\.map\[entry_index\] \{\s*Some\(index\) => \{\s*"
                          r"let old_weight = self\.keys\[index\]\.1;\s*self\.keys\[index\]\.1 = weight;\s*self\.total_weight \+= ([^;]*);\s*self\.correct_total_weight\(\);\s*false\s*\}\s*"
                          r"None => \{\s*self\.map\[entry_index\] = Some\(([^;]*)\);\s*self\.keys\.push\(\(value, weight\)\);\s*self\.total_weight \+= ([^;]*);\s*true\s*\}\s*\}\s*", fb, re.S)
        if not sk:
            raise Unknown(site, "the `let entry_index = …; if <c> { self.map.resize(<len>, None); } match self.map[entry_index] { Some(index) => { let old_weight = self.keys[index].1; self.keys[index].1 = weight; "
                                "self.total_weight += …; self.correct_total_weight(); false } None => { self.map[entry_index] = Some(…); self.keys.push((value, weight)); self.total_weight += …; true } }` skeleton")
        ML = [("entry_index", "Nat"), ("map_len", "Nat")]
        g.translate("bc_grow_cond", site, src, base + sk.start(1), sk.group(1), parse_expr(rewrite(sk.group(1), [("self.map.len()", "map_len")], site), site), ML,
                    "`insert`: is the address table resized; `map_len` = `self.map.len()`", want="Bool")
        g.translate("bc_grow_len", site, src, base + sk.start(2), sk.group(2), parse_expr(sk.group(2), site), ML, "`insert`: new length of the address table", want="Nat")
        g.translate("bc_insert_update_total", site, src, base + sk.start(3), "self.total_weight += " + sk.group(3), parse_expr("total_weight + (%s)" % sk.group(3), site),
                    T + [("weight", "Rat"), ("old_weight", "Rat")], "`insert` of a key already present: `self.total_weight += …` as `total_weight + (…)` (then `correct_total_weight`)", want="Rat")
        g.translate("bc_insert_new_address", site, src, base + sk.start(4), sk.group(4), parse_expr(rewrite(sk.group(4), [("self.keys.len()", "keys_len")], site), site),
                    [("keys_len", "Nat")], "`insert` of a new key: address stored in the table; `keys_len` = `self.keys.len()` before the push", want="Nat")
        g.translate("bc_insert_new_total", site, src, base + sk.start(5), "self.total_weight += " + sk.group(5), parse_expr("total_weight + (%s)" % sk.group(5), site),
                    T + [("weight", "Rat")], "`insert` of a new key: `self.total_weight += …` as `total_weight + (…)` (NOT followed by `correct_total_weight`)", want="Rat")
        # remove_index
        site = BOND + "::remove_index"
        f = src.fn("remove_index", site)
        fb = src.body(f)
        base = f["body0"] + 1
        sk = re.fullmatch(r"\s*let last_indx = ([^;]*);\s*self\.keys\.swap\(keys_index, last_indx\);\s*let bond_number = self\.keys\[keys_index\]\.0\.clone\(\)\.into\(\);\s*"
                          r"let old_indx = self\.map\[bond_number\]\.as_mut\(\)\.unwrap\(\);\s*\*old_indx = keys_index;\s*let \(out, weight\) = self\.keys\.pop\(\)\.unwrap\(\);\s*"
                          r"self\.map\[out\.clone\(\)\.into\(\)\] = None;\s*self\.total_weight -= ([^;]*);\s*self\.correct_total_weight\(\);\s*\(out, weight\)\s*", fb, re.S)
        if not sk:
            raise Unknown(site, "the swap-remove skeleton `let last_indx = …; self.keys.swap(keys_index, last_indx); …; *old_indx = keys_index; let (out, weight) = self.keys.pop().unwrap(); "
                                "self.map[out.clone().into()] = None; self.total_weight -= …; self.correct_total_weight(); (out, weight)`")
        g.translate("bc_last_index", site, src, base + sk.start(1), sk.group(1), parse_expr(rewrite(sk.group(1), [("self.keys.len()", "keys_len")], site), site),
                    [("keys_len", "Nat")], "`remove_index`: position the removed key is swapped to; `keys_len` = `self.keys.len()`", want="Nat")
        g.translate("bc_remove_total", site, src, base + sk.start(2), "self.total_weight -= " + sk.group(2), parse_expr("total_weight - (%s)" % sk.group(2), site),
                    T + [("weight", "Rat")], "`remove_index`: `self.total_weight -= …` as `total_weight - (…)` (then `correct_total_weight`)", want="Rat")
        # correct_total_weight
        site = BOND + "::correct_total_weight"
        f = src.fn("correct_total_weight", site)
        body, ndbg = strip_debug_asserts(src.body(f), site)
        sk = re.fullmatch(r"\s*if ([^{]*?) \{\s*self\.total_weight = ([^;]*);\s*\}\s*", body, re.S)
        if not sk or ndbg != 1:
            raise Unknown(site, "the `if <c> { self.total_weight = <v>; debug_assert!(…); }` skeleton")
        rw = [("self.total_weight", "total_weight")]
        ast = ("if", parse_expr(rewrite(sk.group(1), rw, site), site), parse_expr(sk.group(2), site), ("var", "total_weight"))
        g.translate("bc_correct_total", site, src, f["start"], src.src[f["start"]:f["body1"] + 1], ast, T,
                    "`correct_total_weight` as a function of the running total: `if <c> { self.total_weight = <v>; }` ↦ `if c then v else total_weight` (1 debug assertion dropped)", want="Rat", what="correct_total_weight")
        # get_random
        site = BOND + "::get_random"
        f = src.fn("get_random", site)
        fb = src.body(f)
        base = f["body0"] + 1
        sk = re.fullmatch(r"\s*if self\.keys\.is_empty\(\) \{\s*None\s*\} else \{\s*let mut p = r\.gen_range\(0\. \.\.self\.total_weight\);\s*let mut i = 0;\s*while i < self\.keys\.len\(\) \{\s*"
                          r"p -= ([^;]*);\s*if ([^{]*?) \{\s*break;\s*\}\s*i \+= 1\s*\}\s*Some\(&self\.keys\[i\]\)\s*\}\s*", fb, re.S)
        if not sk:
            raise Unknown(site, "the `if self.keys.is_empty() { None } else { let mut p = r.gen_range(0. ..self.total_weight); let mut i = 0; while i < self.keys.len() { p -= …; if <c> { break; } i += 1 } Some(&self.keys[i]) }` skeleton")
        PW = [("p", "Rat"), ("w", "Rat")]
        rw = [("self.keys[i].1", "w")]
        g.translate("bc_pick_sub", site, src, base + sk.start(1), "p -= " + sk.group(1), parse_expr("p - (%s)" % rewrite(sk.group(1), rw, site), site), PW,
                    "`get_random`: `p -= …` as `p - (…)`; `w` = `self.keys[i].1`", want="Rat")
        g.translate("bc_pick_stop", site, src, base + sk.start(2), sk.group(2), parse_expr(rewrite(sk.group(2), rw, site), site), PW,
                    "`get_random`: is key `i` selected (`p` already decremented); `w` = `self.keys[i].1`", want="Bool")

    g.section(["BondContainer"], _b1)

    # ---- A1. autocorrelation: mean, centring, normalisation, final division, spin values -------------
    def _a1():
        src = g.file(AUTO)
        site = AUTO + "::fft_autocorrelation"
        f = src.fn("fft_autocorrelation", site)
        fb = src.body(f)
        base = f["body0"] + 1
        sk = re.fullmatch(r"\s*let tmax = samples\.len\(\);\s*let n = samples\[0\]\.len\(\);\s*let means = \(0\.\.n\)\s*\.map\(\|i\| ([^;]*?)\)\s*\.collect::<Vec<_>>\(\);\s*"
                          r"let mut input = \(0\.\.n\)\s*\.map\(\|i\| \{\s*let mut v = \(0\.\.tmax\)\s*\.map\(\|t\| Complex::<f64>::new\(([^;]*?), 0\.0\)\)\s*\.collect::<Vec<Complex<f64>>>\(\);\s*"
                          r"let norm = ([^;]*);\s*v\.iter_mut\(\)\.for_each\(\|c\| c\.div_assign\(norm\)\);\s*v\s*\}\)\s*\.collect::<Vec<_>>\(\);\s*"
                          r"let mut planner = FftPlanner::new\(\);\s*let fft = planner\.plan_fft_forward\(tmax\);\s*let mut iplanner = FftPlanner::new\(\);\s*let ifft = iplanner\.plan_fft_inverse\(tmax\);\s*"
                          r"input\.iter_mut\(\)\.for_each\(\|input\| \{\s*fft\.process\(input\);\s*input\s*\.iter_mut\(\)\s*\.for_each\(\|c\| \*c = Complex::new\(c\.norm_sqr\(\), 0\.0\)\);\s*ifft\.process\(input\);\s*\}\);\s*"
                          r"\(0\.\.tmax\)\s*\.map\(\|t\| ([^;]*?)\)\s*\.collect\(\)\s*", fb, re.S)
        if not sk:
            raise Unknown(site, "the skeleton of fft_autocorrelation (means / centred + normalised columns / forward FFT, norm_sqr, inverse FFT / final map)")
        SUM_T = "(0..tmax).map(|t| samples[t][i]).sum::<f64>()"
        g.translate("autocorr_mean", site, src, base + sk.start(1), sk.group(1), parse_expr(rewrite(sk.group(1), [(SUM_T, "col_sum")], site), site),
                    [("col_sum", "Rat"), ("tmax", "Nat"), ("n", "Nat")], "mean of column `i`; `col_sum` = `%s`" % SUM_T, want="Rat")
        g.translate("autocorr_center", site, src, base + sk.start(2), sk.group(2), parse_expr(rewrite(sk.group(2), [("samples[t][i]", "x"), ("means[i]", "mean")], site), site),
                    [("x", "Rat"), ("mean", "Rat")], "real part of the centred entry (imaginary part `0.0`); `x` = `samples[t][i]`, `mean` = `means[i]`", want="Rat")
        SUM_SQ = "v.iter().map(|v| (v.conj() * v).re).sum::<f64>()"
        g.translate("autocorr_norm", site, src, base + sk.start(3), sk.group(3), parse_expr(rewrite(sk.group(3), [(SUM_SQ, "sum_sq")], site), site, features=("sqrt",)),
                    [("sqrt", FN_RR), ("sum_sq", "Rat")], "`norm` every centred entry is divided by; `sum_sq` = `%s` (= Σ re² since the imaginary parts are 0), `sqrt` = `f64::sqrt` (uninterpreted)" % SUM_SQ, want="Rat")
        SUM_I = "(0..n).map(|i| input[i][t].re).sum::<f64>()"
        g.translate("autocorr_final", site, src, base + sk.start(4), sk.group(4), parse_expr(rewrite(sk.group(4), [(SUM_I, "lag_sum")], site), site),
                    [("lag_sum", "Rat"), ("n", "Nat"), ("tmax", "Nat")], "output entry `t`; `lag_sum` = `%s` (the unnormalised inverse FFT has multiplied every column by `tmax`)" % SUM_I, want="Rat")
        # the two spin-value closures
        items = []
        for fn, regex, rw in (("calculate_variable_autocorrelation", r"\.map\(\|b\| (if [^)]*?\})\)", []),
                              ("calculate_spin_product_autocorrelation", r"\.map\(\|v\| (if [^)]*?\})\)", [("sample[*v]", "b")])):
            with g.tolerate(["Autocorr"]) as t:
                s_ = "%s::%s::spin value" % (AUTO, fn)
                name = t.name = "autocorr_spin_value_" + fn
                f2 = src.fn(fn, s_)
                m = one_match(src.body(f2), regex, s_, "spin-value closure")
                body_, _ = g.translate(name, s_, src, f2["body0"] + 1 + m.start(), m.group(0), parse_expr(rewrite(m.group(1), rw, s_), s_), [("b", "Bool")],
                                       "value of a spin in `%s`" % fn, want="Rat")
                items.append((s_, body_, name, "Autocorr"))
        same(g, items, "spin value closure")
        need(src.body(src.fn("calculate_spin_product_autocorrelation", site)), "vs.iter() .map(|v| if sample[*v] { 1.0 } else { -1.0 }) .product()", AUTO + "::calculate_spin_product_autocorrelation")

    g.section(["Autocorr"], _a1)

    # ---- L1. directed loop: start-leg walk and exit-leg selection -------------------------------------
    def _l1():
        LOOP = "src/sse/qmc_traits/directed_loop.rs"
        src = g.file(LOOP)
        site = LOOP + "::make_loop_update_with_rng"
        f = src.fn("make_loop_update_with_rng", site)
        fb = src.body(f)
        base = f["body0"] + 1
        sk = re.search(r"let mut total_vars = 0;\s*let mut next = self\.get_first_p\(\);\s*while let Some\(p\) = next \{\s*let node = self\.get_node_ref\(p\)\.unwrap\(\);\s*total_vars \+= ([^;]*);\s*next = self\.get_next_p\(node\);\s*\}\s*"
                       r"let mut choice = rng\.gen_range\(0\.\.total_vars\);\s*let mut p = self\.get_first_p\(\)\.unwrap\(\);\s*loop \{\s*let node = self\.get_node_ref\(p\)\.unwrap\(\);\s*let n_vars = node\.get_op_ref\(\)\.get_vars\(\)\.len\(\);\s*"
                       r"if ([^{]*?) \{\s*break \(p, choice\);\s*\}\s*choice -= ([^;]*);\s*p = self\.get_next_p\(node\)\.unwrap\(\);\s*\}", fb, re.S)
        if not sk:
            raise Unknown(site, "the start-leg skeleton `let mut total_vars = 0; … while let Some(p) = next { …; total_vars += …; next = self.get_next_p(node); } let mut choice = rng.gen_range(0..total_vars); "
                                "let mut p = self.get_first_p().unwrap(); loop { …; let n_vars = node.get_op_ref().get_vars().len(); if <c> { break (p, choice); } choice -= …; p = self.get_next_p(node).unwrap(); }`")
        CN = [("choice", "Nat"), ("n_vars", "Nat")]
        g.translate("loop_total_vars_next", site, src, base + sk.start(1), "total_vars += " + sk.group(1),
                    parse_expr("total_vars + (%s)" % rewrite(sk.group(1), [("node.get_op_ref().get_vars().len()", "n_vars")], site), site), [("total_vars", "Nat"), ("n_vars", "Nat")],
                    "`total_vars += …` as `total_vars + (…)` (starts at 0; one term per operator); `n_vars` = `node.get_op_ref().get_vars().len()`", want="Nat")
        g.translate("loop_start_stop", site, src, base + sk.start(2), sk.group(2), parse_expr(sk.group(2), site), CN,
                    "start-leg walk: does the drawn `choice` fall on this operator (then the start is `(p, choice)`)", want="Bool")
        g.translate("loop_start_next", site, src, base + sk.start(3), "choice -= " + sk.group(3), parse_expr("choice - (%s)" % sk.group(3), site), CN,
                    "start-leg walk: `choice -= …` as `choice - (…)` before moving to the next operator", want="Nat")
        need(fb, "let initial_direction = if rng.gen() { OpSide::Inputs } else { OpSide::Outputs };", site)
        need(fb, "let initial_leg = (initial_var, initial_direction);", site)
        site = LOOP + "::loop_body"
        f = src.fn("loop_body", site)
        fb = src.body(f)
        base = f["body0"] + 1
        sk = re.search(r"let total_weight: f64 = legs\.iter\(\)\.map\(\|\(_, w\)\| \*w\)\.sum\(\);\s*let choice = rng\.gen_range\(0\. \.\.total_weight\);\s*let exit_leg = legs\s*\.iter\(\)\s*"
                       r"\.try_fold\(choice, \|c, \(leg, weight\)\| \{\s*if ([^{]*?) \{\s*Err\(\*leg\)\s*\} else \{\s*Ok\(([^)]*)\)\s*\}\s*\}\)\s*\.unwrap_err\(\);", fb, re.S)
        if not sk:
            raise Unknown(site, "the exit-leg skeleton `let total_weight: f64 = legs.iter().map(|(_, w)| *w).sum(); let choice = rng.gen_range(0. ..total_weight); let exit_leg = legs.iter()"
                                ".try_fold(choice, |c, (leg, weight)| { if <c> { Err(*leg) } else { Ok(<next>) } }).unwrap_err();`")
        CW = [("c", "Rat"), ("weight", "Rat")]
        g.translate("loop_exit_stop", site, src, base + sk.start(1), sk.group(1), parse_expr(rewrite(sk.group(1), [("*weight", "weight")], site), site), CW,
                    "exit-leg fold: is this leg the exit (`c` = the draw minus the weights passed); `weight` = `*weight`", want="Bool")
        g.translate("loop_exit_next", site, src, base + sk.start(2), sk.group(2), parse_expr(rewrite(sk.group(2), [("*weight", "weight")], site), site), CW,
                    "exit-leg fold: the value carried to the next leg", want="Rat")

    g.section(["Loop"], _l1)



def strip_debug_asserts(text, site):
    """remove `debug_assert!(…);` / `debug_assert_eq!(…);` statements (balanced parentheses / braces inside)"""
    out = []
    i = 0
    n = 0
    while True:
        m = re.compile(r"debug_assert(?:_eq|_ne)?!\s*\(").search(text, i)
        if not m:
            out.append(text[i:])
            break
        out.append(text[i:m.start()])
        depth = 0
        j = m.end() - 1
        while j < len(text):
            if text[j] in "({[":
                depth += 1
            elif text[j] in ")}]":
                depth -= 1
                if depth == 0:
                    break
            j += 1
        if j >= len(text):
            raise Unknown(site, "unbalanced debug_assert!")
        k = j + 1
        while k < len(text) and text[k].isspace():
            k += 1
        if k >= len(text) or text[k] != ";":
            raise Unknown(site, "debug_assert! not used as a statement")
        i = k + 1
        n += 1
    return "".join(out), n


def expect_sites(src, ms, expect, what):
    """the matches must lie in exactly the expected functions (with multiplicity, in source order)"""
    where = [src.enclosing(m.start()) for m in ms]
    if where != expect:
        raise Unknown(src.rel + "::" + what, "expected exactly in %s, found in %s" % (expect, where))
    return where


def closure_after(src, off, site):
    """text of the `{ … }` block that starts at the first `{` at or after `off`"""
    i0 = src.src.index("{", off)
    i1 = match_brace(src.src, i0, site)
    return i0, i1


def replicated_closures(g, ISING, RUNNER):
    # (a) the field-bond test of every cluster-weight / ising-ratio closure -----------------------
    def _sec_a():
        groups = ['ClusterIsing', 'Rvb']
        src = g.file(ISING)
        rsrc = g.file(RUNNER)
        ms = all_matches(src, r"let is_long_field_bond = ([^;]*);", ISING)
        expect_sites(src, ms, ["single_cluster_step", "single_rvb_sweep", "timestep", "timestep"], "is_long_field_bond closures")
        items = []
        names = []
        for m in ms:
            with g.tolerate(groups) as t:
                fn = src.enclosing(m.start())
                before = " ".join(src.src[max(0, m.start() - 200):m.start()].split())
                if before.endswith("|op| { let bond = op.get_bond();"):
                    kind = "ising_ratio"
                elif before.endswith("Some(|node: &M::Node| -> f64 { let bond = node.get_op_ref().get_bond();"):
                    kind = "cluster_weight"
                else:
                    raise Unknown("%s::%s::is_long_field_bond" % (ISING, fn), "closure head is neither `|op| { let bond = op.get_bond();` nor `Some(|node: &M::Node| -> f64 { let bond = node.get_op_ref().get_bond();`")
                name = t.name = "%s_%s" % (kind, fn)
                site = "%s::%s::%s closure" % (ISING, fn, kind)
                rest = src.src[m.end():]
                mm = re.match(r"\s*if ", rest)
                if not mm:
                    raise Unknown(site, "`let is_long_field_bond = …;` is not followed by the `if` that yields the closure's value")
                # the if/else expression extends to the brace that closes the closure: take up to the closing brace of the else block
                j = m.end() + mm.start()
                i0 = src.src.index("{", j)
                i1 = match_brace(src.src, i0, site)
                mm2 = re.match(r"\s*else\s*", src.src[i1 + 1:])
                if not mm2:
                    raise Unknown(site, "`if` without `else`")
                e0 = i1 + 1 + mm2.end()
                if src.src[e0] != "{":
                    raise Unknown(site, "`else` not followed by a block")
                e1 = match_brace(src.src, e0, site)
                tail = " ".join(src.src[e1 + 1:e1 + 40].split())
                if not (tail.startswith("},") or tail.startswith("}),")):
                    raise Unknown(site, "the `if … else …` is not the closure's final expression")
                ifexpr, ndbg = strip_debug_asserts(src.src[j:e1 + 1], site)
                text = src.src[m.start():e1 + 1]
                fbody = src.body(src.fn(fn, site))
                if len(re.findall(r"let nedges = (?:self\.)?edges\.len\(\);", fbody)) != 1:
                    raise Unknown(site, "expected exactly one `let nedges = [self.]edges.len();` in the function")
                if len(re.findall(r"let nvars = (?:self\.get_nvars\(\)|state\.len\(\));", fbody)) != 1:
                    raise Unknown(site, "expected exactly one `let nvars = self.get_nvars() | state.len();` in the function")
                ast = parse_block_body("let is_long_field_bond = %s; %s" % (m.group(1), ifexpr), site)
                if name in names:
                    raise Unknown(site, "two %s closures in `%s`" % (kind, fn))
                names.append(name)
                em_doc = ("the `%s` closure of `%s` as a function of the operator's bond index (`%d` debug assertions dropped): weight ratio of the "
                          "operator under a flip of its variable — 1 unless it is a longitudinal-field bond" % (kind, fn, ndbg))
                body_, _ = g.translate(name, site, src, m.start(), text, ast, [("bond", "Nat"), ("nedges", "Nat"), ("nvars", "Nat")], em_doc, want="Rat")
                items.append((site, body_, name, DEF_GROUP[name]))
        if not set(names) <= {"cluster_weight_single_cluster_step", "cluster_weight_timestep", "ising_ratio_single_rvb_sweep", "ising_ratio_timestep"}:
            raise Unknown(ISING + "::is_long_field_bond closures", "expected cluster_weight in single_cluster_step, timestep and ising_ratio in single_rvb_sweep, timestep; found %s" % names)
        same(g, items, "field-bond closure (`bond >= nedges + nvars` ⇒ 0.0 else 1.0)")

    g.section(['ClusterIsing', 'Rvb'], _sec_a)

    # (b) the RVB diagonal-edge-weight closure, four copies ---------------------------------------
    def _sec_b():
        groups = ['Rvb']
        src = g.file(ISING)
        rsrc = g.file(RUNNER)
        ms = all_matches(src, r"\|bond, sa, sb\| \{", ISING)
        expect_sites(src, ms, ["single_rvb_sweep", "single_rvb_sweep", "timestep", "timestep"], "RVB edge-weight closures `|bond, sa, sb| {`")
        if len(re.findall(r"\brvb_update(?:_with_ising_weight)?\(", src.src)) != 4:
            raise Unknown(ISING + "::rvb_update calls", "expected exactly four `rvb_update[_with_ising_weight](` calls")
        f = src.fn("vars_for_bond", ISING + "::vars_for_bond")
        if " ".join(src.body(f).split()) != "let e = &self.edges[bond].0; (e[0], e[1])":
            raise Unknown(ISING + "::vars_for_bond", "body is no longer `let e = &self.edges[bond].0; (e[0], e[1])`")
        FN_VFB = ("fn", ("Nat",), ("tuple", "Nat", "Nat"))
        FN_HAM = ("fn", (("list", "Nat"), "Nat", ("list", "Bool"), ("list", "Bool")), "Rat")
        items = []
        count = {}
        for m in ms:
            fn = src.enclosing(m.start())
            count[fn] = count.get(fn, 0) + 1
            with g.tolerate(groups) as t:
                variant = "field" if count[fn] == 1 else "nofield"     # source order: the `h != 0` branch comes first
                name = t.name = "rvb_edge_weight_%s_%s" % (fn, variant)
                site = "%s::%s::RVB edge-weight closure #%d" % (ISING, fn, count[fn])
                i0, i1 = closure_after(src, m.end() - 1, site)
                txt = src.src[i0 + 1:i1]
                txt = normalise(txt, [("edges.vars_for_bond", "vars_for_bond"), ("ham.hamiltonian", "ham_hamiltonian")], site)
                ast = parse_block_body(txt, site, uninterp=("vars_for_bond", "ham_hamiltonian"))
                body_, _ = g.translate(name, site, src, m.start(), src.src[m.start():i1 + 1], ast,
                                       [("vars_for_bond", FN_VFB), ("ham_hamiltonian", FN_HAM), ("bond", "Nat"), ("sa", "Bool"), ("sb", "Bool")],
                                       "the diagonal edge weight closure `|bond, sa, sb| …` handed to `rvb_update%s` in `%s`; `vars_for_bond` = `edges.vars_for_bond`, "
                                       "`ham_hamiltonian` = `ham.hamiltonian` (both uninterpreted)" % ("_with_ising_weight" if variant == "field" else "", fn), want="Rat")
                items.append((site, body_, name, DEF_GROUP[name]))
        same(g, items, "RVB edge-weight closure")

    g.section(['Rvb'], _sec_b)

    # (c) flip probability of the cluster updates and of the free-spin refresh ----------------------
    def _sec_c():
        groups = ['ClusterIsing', 'Cluster']
        src = g.file(ISING)
        rsrc = g.file(RUNNER)
        items = []
        for sr, rel, expect in ((src, ISING, ["single_cluster_step", "single_cluster_step", "timestep", "timestep"]), (rsrc, RUNNER, ["cluster_update"])):
            ms = all_matches(sr, r"\.flip_each_cluster(_ising_symmetry)?_rng\(\s*([^,()]*),", rel)
            expect_sites(sr, ms, expect, "flip_each_cluster[_ising_symmetry]_rng calls")
            if len(re.findall(r"flip_each_cluster\w*\(", sr.src)) != len(expect):
                raise Unknown(rel + "::flip_each_cluster calls", "a cluster-flip call other than `.flip_each_cluster[_ising_symmetry]_rng(<p>, …`")
            seen = set()
            for m in ms:
                with g.tolerate(groups) as t:
                    fn = sr.enclosing(m.start())
                    variant = "sym" if m.group(1) else "field"
                    name = t.name = "cluster_flip_prob_%s_%s" % (fn, variant)
                    site = "%s::%s::flip_each_cluster%s_rng" % (rel, fn, m.group(1) or "")
                    if name in seen:
                        raise Unknown(site, "called twice in `%s`" % fn)
                    seen.add(name)
                    body_, _ = g.translate(name, site, sr, m.start(2), m.group(0), parse_expr(m.group(2), site), [],
                                           "flip probability handed to `flip_each_cluster%s_rng` in `%s` (%s)" % (m.group(1) or "", fn, rel), want="Rat")
                    items.append((site, body_, name, DEF_GROUP[name]))
        same(g, items, "cluster flip probability")

    g.section(['ClusterIsing', 'Cluster'], _sec_c)

    # (c') free-spin refresh probability
    def _sec_c2():
        groups = ['RefreshIsing', 'RefreshGeneric']
        src = g.file(ISING)
        rsrc = g.file(RUNNER)
        items = []
        for sr, rel, expect in ((src, ISING, ["single_cluster_step", "timestep"]), (rsrc, RUNNER, ["flip_free_bits"])):
            ms = all_matches(sr, r"state\.iter_mut\(\)\.enumerate\(\)\.for_each\(\|\(var, state\)\| \{\s*if !\w+\.does_var_have_ops\(var\) \{\s*\*state = rng\.gen_bool\(([^()]*)\);\s*\}\s*\}\);", rel)
            expect_sites(sr, ms, expect, "free-spin refresh loops")
            if len(re.findall(r"gen_bool\(", sr.src)) != len(expect):
                raise Unknown(rel + "::gen_bool", "a `gen_bool(` call outside the %d free-spin refresh loops" % len(expect))
            for m in ms:
                with g.tolerate(groups) as t:
                    fn = sr.enclosing(m.start())
                    site = "%s::%s::free-spin refresh" % (rel, fn)
                    name = t.name = "free_refresh_prob_" + fn
                    body_, _ = g.translate(name, site, sr, m.start(1), m.group(0), parse_expr(m.group(1), site), [],
                                           "probability of the free-spin refresh `if !does_var_have_ops(var) { *state = rng.gen_bool(…) }` in `%s` (%s)" % (fn, rel), want="Rat")
                    items.append((site, body_, name, DEF_GROUP[name]))
        same(g, items, "free-spin refresh probability")

    g.section(['RefreshIsing', 'RefreshGeneric'], _sec_c2)

    # (d) steps_to_run -----------------------------------------------------------------------------
    def _sec_d():
        groups = ['Rvb']
        src = g.file(ISING)
        rsrc = g.file(RUNNER)
        ms = all_matches(src, r"let steps_to_run = ([^;]*);", ISING)
        expect_sites(src, ms, ["single_rvb_sweep", "timestep"], "`let steps_to_run = …;`")
        items = []
        for m in ms:
            with g.tolerate(groups) as t:
                fn = src.enclosing(m.start())
                site = "%s::%s::steps_to_run" % (ISING, fn)
                name = t.name = "steps_to_run_" + fn
                txt = m.group(1)
                if fn == "single_rvb_sweep":
                    mm = re.fullmatch(r"updates_in_sweep\.unwrap_or\((.*)\)", txt, re.S)
                    if not mm:
                        raise Unknown(site, "no longer `updates_in_sweep.unwrap_or(<default>)`")
                    txt = mm.group(1)
                txt = normalise(txt, [("state.len()", "state_len")], site, required=["state.len()"])
                body_, _ = g.translate(name, site, src, m.start(), m.group(0), parse_expr(txt, site), [("state_len", "Nat")],
                                       "number of RVB proposals per sweep in `%s`%s; `state_len` = `state.len()`" % (fn, " (the default of `updates_in_sweep.unwrap_or(…)`)" if fn == "single_rvb_sweep" else ""), want="Nat")
                items.append((site, body_, name, DEF_GROUP[name]))
        same(g, items, "steps_to_run")

    g.section(['Rvb'], _sec_d)

    # (e) the `h` closures --------------------------------------------------------------------------
    def _sec_e():
        groups = ['IsingHam', 'Rvb', 'HeatBathIsing']
        src = g.file(ISING)
        rsrc = g.file(RUNNER)
        ms = all_matches(src, r"let h = \|vars: &\[usize\], bond: usize, input_state: &\[bool\], output_state: &\[bool\]\| \{", ISING)
        expect_sites(src, ms, ["single_diagonal_step", "single_rvb_sweep", "set_enable_heatbath", "timestep"], "`let h = |vars, bond, input_state, output_state| {`")
        if len(re.findall(r"let h = ", src.src)) != 4:
            raise Unknown(ISING + "::h closures", "a `let h = ` of another shape")
        FN_H = ("fn", (("list", "Nat"), "Nat", ("list", "Bool"), ("list", "Bool")), "Rat")
        items = []
        for m in ms:
            with g.tolerate(groups) as t:
                fn = src.enclosing(m.start())
                site = "%s::%s::h closure" % (ISING, fn)
                name = t.name = "h_closure_" + fn
                i0, i1 = closure_after(src, m.end() - 1, site)
                fbody = " ".join(src.body(src.fn(fn, site)).split())
                if fbody.count("let hinfo = HamInfo { edges, transverse, longitudinal, nvars, };") != 1 or fbody.count("let transverse = self.transverse;") != 1:
                    raise Unknown(site, "`let hinfo = HamInfo { edges, transverse, longitudinal, nvars, };` / `let transverse = self.transverse;` in the function")
                txt = normalise(src.src[i0 + 1:i1], [("Self::hamiltonian(&hinfo,", "hamiltonian_hinfo(")], site, required=["Self::hamiltonian(&hinfo,"])
                ast = parse_expr(txt, site, uninterp=("hamiltonian_hinfo",))
                body_, _ = g.translate(name, site, src, m.start(), src.src[m.start():i1 + 1], ast,
                                       [("hamiltonian_hinfo", FN_H), ("vars", ("list", "Nat")), ("bond", "Nat"), ("input_state", ("list", "Bool")), ("output_state", ("list", "Bool"))],
                                       "the matrix-element closure `h` of `%s`; `hamiltonian_hinfo` = `Self::hamiltonian(&hinfo, …)` with `hinfo` the `HamInfo` of the sampler's own fields" % fn, want="Rat")
                items.append((site, body_, name, DEF_GROUP[name]))
        same(g, items, "h closure")

    g.section(['IsingHam', 'Rvb', 'HeatBathIsing'], _sec_e)


def same(g, items, what):
    """items: (site, term, definition name or None, group).  All sites must have produced the same term.  The sites outside
    the largest group of equal terms fail closed (their definition is dropped, the failure is charged to THEIR group);
    without a majority every site fails.  Returns the majority term (None if there is none).  Never raises."""
    groups = {}
    for site, t, _, _ in items:
        groups.setdefault(t, []).append(site)
    if not groups:
        return None
    if len(groups) == 1:
        return items[0][1]
    terms = [x[1] for x in items]
    major = max(groups, key=lambda t: (len(groups[t]), -terms.index(t)))
    if sum(1 for t in groups if len(groups[t]) == len(groups[major])) > 1:
        msg = "%s: the sites disagree (no majority): %s" % (what, "; ".join("%s `%s`" % (groups[t][0], " ".join(t.split())) for t in groups))
        for site, t, name, grp in items:
            if name:
                g.drop(name)
            g.fail(site, msg, [grp])
        return None
    for site, t, name, grp in items:
        if t != major:
            if name:
                g.drop(name)
            g.fail(site, "%s differs from the other sites: here `%s`, at %s `%s`" % (what, " ".join(t.split()), groups[major][0], " ".join(major.split())), [grp])
    return major


PRELUDE = """set_option linter.unusedVariables false   -- a site's environment is listed in full even where the expression ignores part of it

namespace Qmc.Gen

/-- `f64::abs` on exact rationals (fixed part of the translation) -/
def fabs (x : Rat) : Rat := if x < 0 then -x else x

/-- `std::f64::EPSILON` = 2^-52 (fixed part of the translation) -/
def EPSILON : Rat := 1 / (2 ^ 52 : Nat)

/-- `f64::powi` on exact rationals (fixed part of the translation) -/
def powi (x : Rat) (e : Int) : Rat := if 0 ≤ e then x ^ e.toNat else (x ^ (-e).toNat)⁻¹
"""


def render(g):
    lines = [
        "/-",
        "GENERATED by tools/translate_pure.py from the Rust sources of the crate under check. Do not edit: rewritten by",
        "`checks/pure_fns.py` (called from the checks) whenever a translated function changes. Core Lean only.",
        "`QmcProofs/PureFnsAgree/<Group>.lean` prove each definition equal to the hand-written model definition.",
        "f64 ↦ Rat (exact; rounding, NaN, ±inf, -0.0 not modelled), usize ↦ Nat, i32 ↦ Int, bool ↦ Bool.",
        "",
        "definition                            source (file:line, enclosing fn)  sha1 of the translated source text",
    ]
    lines += [h[1] for h in g.header]
    lines += ["", "groups (a site that leaves the whitelist fails closed for ITS group only; its definition is then missing below):"]
    for grp in GROUPS[1:]:
        names = [n for n in g.summary if DEF_GROUP.get(n) == grp]
        gone = [n for n, gg in DEF_GROUP.items() if gg == grp and n not in g.summary and not n.endswith("_draws")]
        lines.append("  %-14s %s%s" % (grp, " ".join(names), ("   MISSING: " + " ".join(gone)) if gone else ""))
    if g.failures:
        lines += ["", "FAILED CLOSED (not translated):"]
        for f in g.failures:
            lines.append("  [%s] %s: %s" % (",".join(f["groups"]), f["site"], f["what"].replace("-/", "- /")))
    lines += ["-/", "", PRELUDE]
    lines += [d[1] for d in g.defs]
    lines += ["end Qmc.Gen", ""]
    return "\n".join(lines)


def regenerate(repo, out=OUT, check_only=False):
    """-> (rc, message, failures).  rc 0: every site translated; rc 2: some sites FAILED CLOSED (listed in `failures`, each
    with the groups it is charged to) — the other definitions are still written; rc 1: --check and the file would change."""
    g = run(repo)
    text = render(g)
    old = open(out).read() if os.path.exists(out) else None
    n = len(g.summary)
    tail = ""
    if g.failures:
        tail = "; %d site(s) FAILED CLOSED: %s" % (len(g.failures), " || ".join("[%s] %s: %s" % (",".join(f["groups"]), f["site"], f["what"]) for f in g.failures))
    rc = 2 if g.failures else 0
    if old == text:
        return rc, "translate_pure: unchanged (%d definitions from %d source files)%s" % (n, len(g.files), tail), g.failures
    if check_only:
        return 1, "translate_pure: WOULD CHANGE (%d definitions)%s" % (n, tail), g.failures
    os.makedirs(os.path.dirname(out), exist_ok=True)
    tmp = out + ".tmp%d" % os.getpid()
    with open(tmp, "w") as f:
        f.write(text)
    os.replace(tmp, out)
    return rc, "translate_pure: wrote %s (%d definitions from %d source files)%s" % (out, n, len(g.files), tail), g.failures


def main():
    a = sys.argv[1:]
    repo = os.environ.get("VERIF_REPO", "/repo")
    out = OUT
    check_only = False
    i = 0
    while i < len(a):
        if a[i] == "--repo":
            repo = a[i + 1]; i += 1
        elif a[i] == "--out":
            out = a[i + 1]; i += 1
        elif a[i] == "--check":
            check_only = True
        else:
            print(__doc__)
            return 2
        i += 1
    rc, msg, _ = regenerate(repo, out, check_only)
    print(msg)
    return rc


if __name__ == "__main__":
    sys.exit(main())
