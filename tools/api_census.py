#!/usr/bin/env python3
"""tools/api_census.py — census of the EXTERNALLY REACHABLE functions of the crate under test and of the harness
files that exercise them.

  python3 tools/api_census.py [--repo /repo] [--harness /verif/harness/src] [--all] [--uncovered] [--table]

What counts as externally reachable (features tempering, parallel-tempering, serialize, autocorrelations; cfg qmc_verif):
  * `pub fn` (not `pub(crate)`) at module level of a module that is public along its whole path from lib.rs, or whose
    items are glob re-exported (`pub use m::*`) from such a module;
  * `pub fn` in an inherent `impl` of a `pub` type living in such a module;
  * every method (required or provided) of a `pub trait` living in such a module, and every implementation of such a
    method (`impl Trait for Type`), listed as `<Type as Trait>::name`;
  * implementations of foreign traits (Clone, From, PartialEq, Default, Debug, Extend) on pub types, hand written or
    derived (`#[derive(..)]`, `cfg_attr(feature = "serialize", derive(Serialize, Deserialize))`), listed as
    `Type::clone`, `Type::fmt`, `Type::eq`, `Type::default`, `Type::from`, `Type::extend`, `Type::serde`.
`#[cfg(test)]` modules, `pub(crate)` items, private items, the verification hooks (`#[cfg(qmc_verif)]`) and features that
the harness does not enable (`const_generics`, `nightly`) are not part of the census.

Coverage rule (purely textual, over harness/src/**/*.rs with `//` comments removed):
  * ordinary functions (free, inherent, trait methods and their implementations): the bare name occurs as a word in at least
    one harness file; inherent names owned by more than one type (`new`, `into_vec`, `get_cutoff`, ...) are covered by the same
    rule, and the harness files carrying the qualified marker `Owner::name` are listed next to them;
  * foreign-trait / derived implementations (`clone`, `fmt`, `eq`, `default`, `from`, `serde`): the qualified marker
    `Owner::name` occurs in at least one harness file (the bin `apicov` prints one `STAT api.Owner::name <count>` line per
    function it exercises, so its source carries these markers next to the calls).
`--without bin/apicov.rs` computes the coverage as it was before that bin existed; `--uncovered` lists only what is missing;
`--table` prints markdown rows. Exit status 1 if a function is covered nowhere and is not in ALLOW below (reason required)."""
import os
import re
import sys

REPO = os.environ.get("VERIF_REPO", "/repo")
HARNESS = os.environ.get("VERIF_HARNESS_DIR", "/verif/harness") + "/src"

# `Owner::name` (or `<Type as Trait>::name`) -> reason why no harness has to call it. Empty at the moment: every externally
# reachable function is exercised somewhere. Not externally reachable, hence not in the census at all: `Qmc::set_manager`,
# `Allocator::new_with_max_in_flight`, `StackTuplizer::*` (pub(crate)), `p_crosses`, `BondContainer::remove_index`,
# `BondContainer::correct_total_weight`, `Interaction::new*`, `index_from_*` (private), module `ham`, `vec_help` (pub(crate)).
ALLOW = {}

FOREIGN = {"Clone": ["clone"], "From": ["from"], "PartialEq": ["eq"], "Default": ["default"], "Debug": ["fmt"],
           "Extend": ["extend"], "Eq": [], "Copy": [], "Serialize": ["serde"], "Deserialize": ["serde"]}


def strip_code(src):
    """remove comments, string and char literals (keeps line structure)"""
    out = []
    i, n = 0, len(src)
    while i < n:
        c = src[i]
        if src.startswith("//", i):
            j = src.find("\n", i)
            j = n if j < 0 else j
            i = j
        elif src.startswith("/*", i):
            j = src.find("*/", i + 2)
            j = n if j < 0 else j + 2
            out.append("\n" * src.count("\n", i, j))
            i = j
        elif c == '"':
            j = i + 1
            while j < n and src[j] != '"':
                j += 2 if src[j] == "\\" else 1
            out.append('""')
            out.append("\n" * src.count("\n", i, j))
            i = j + 1
        elif c == "'":
            m = re.match(r"'(\\.[^']*|[^\\'])'", src[i:])
            if m:
                out.append("' '")
                i += m.end()
            else:
                out.append(c)
                i += 1
        else:
            out.append(c)
            i += 1
    return "".join(out)


def split_top(s, sep=","):
    parts, depth, cur = [], 0, ""
    for ch in s:
        if ch in "<([":
            depth += 1
        elif ch in ">)]":
            depth -= 1
        if ch == sep and depth == 0:
            parts.append(cur)
            cur = ""
        else:
            cur += ch
    if cur.strip():
        parts.append(cur)
    return parts


def strip_generics(s):
    """`impl<R: Rng, M: X> Foo<R, M>` -> `impl Foo`"""
    out, depth = "", 0
    i = 0
    while i < len(s):
        ch = s[i]
        if ch == "<":
            depth += 1
        elif ch == ">" and depth > 0 and s[i - 1] != "-":
            depth -= 1
        elif depth == 0:
            out += ch
        i += 1
    return out


class Item:
    def __init__(self, kind, owner, name, file, line, via=None):
        self.kind, self.owner, self.name, self.file, self.line, self.via = kind, owner, name, file, line, via

    @property
    def qual(self):
        if self.kind == "impl":
            return "<%s as %s>::%s" % (self.owner, self.via, self.name)
        return "%s::%s" % (self.owner, self.name)


def parse_file(path, rel, modreach, items, pubtypes_pass=None):
    """One pass over a file. `modreach`: is the file's module externally reachable. With pubtypes_pass = set(): only collect
    the names of pub types/traits (first pass)."""
    src = strip_code(open(path).read())
    stack = []  # entries: dict(kind, name, reach, vis)
    pending = ""
    line = 1
    pend_line = 1
    modname = os.path.splitext(os.path.basename(path))[0]
    if modname == "mod":
        modname = os.path.basename(os.path.dirname(path))

    def cur_reach():
        for s in stack:
            if s["kind"] == "mod" and not s["reach"]:
                return False
            if s["kind"] in ("fn", "skip"):
                return False
        return modreach

    def enclosing():
        for s in reversed(stack):
            if s["kind"] in ("trait", "impl", "fn", "skip"):
                return s
        return None

    def cfg_excluded(h):
        return bool(re.search(r"#\[cfg\(\s*test\s*\)\]", h)) or bool(re.search(r'#\[cfg\(feature\s*=\s*""\s*\)\]', h) and False)

    def header_cfgs(h):
        # strings were blanked by strip_code; re-read the raw attribute text from the original is not possible here, so the
        # caller passes the raw header (see below)
        return h

    raw = open(path).read()
    raw_lines = raw.split("\n")

    def raw_header(l0, l1):
        return "\n".join(raw_lines[max(0, l0 - 1):l1])

    def handle_fn(h, l0, l1, has_body):
        m = re.search(r"(?:^|[\s\]])((?:pub(?:\([^)]*\))?\s+)?)(?:const\s+|async\s+|unsafe\s+)*fn\s+(\w+)", h)
        if not m:
            return None
        vis, name = m.group(1).strip(), m.group(2)
        enc = enclosing()
        rh = raw_header(l0, l1)
        if re.search(r"#\[cfg\(\s*test\s*\)\]|#\[test\]", rh):
            return name
        if re.search(r'#\[cfg\(\s*feature\s*=\s*"(const_generics|nightly)"', rh):
            return name
        hook = bool(re.search(r"#\[cfg\(\s*qmc_verif\s*\)\]", rh))
        if pubtypes_pass is not None or hook:
            return name
        if not cur_reach() and not (enc and enc["kind"] in ("trait", "impl") and enc.get("reach")):
            return name
        if enc is None:
            if vis == "pub":
                items.append(Item("free", modname, name, rel, l0))
        elif enc["kind"] == "trait":
            if enc["reach"]:
                items.append(Item("trait", enc["name"], name, rel, l0))
        elif enc["kind"] == "impl":
            if not enc["reach"]:
                return name
            if enc["via"] is None:
                if vis == "pub":
                    items.append(Item("inherent", enc["name"], name, rel, l0))
            else:
                t = enc["via"]
                if t in FOREIGN:
                    for fn in FOREIGN[t]:
                        if fn == name or (fn == "fmt" and name == "fmt"):
                            items.append(Item("foreign", enc["name"], name, rel, l0, via=t))
                elif t in PUB_TRAITS:
                    items.append(Item("impl", enc["name"], name, rel, l0, via=t))
        return name

    i, n = 0, len(src)
    while i < n:
        ch = src[i]
        if ch == "\n":
            line += 1
        if ch == "{":
            h = pending.strip()
            rh = raw_header(pend_line, line)
            hs = strip_generics(h)
            entry = {"kind": "other", "name": None, "reach": True}
            excluded = bool(re.search(r"#\[cfg\(\s*test\s*\)\]", rh)) or bool(
                re.search(r'#\[cfg\(\s*feature\s*=\s*"(const_generics|nightly)"', rh))
            hook = bool(re.search(r"#\[cfg\(\s*qmc_verif\s*\)\]", rh))
            enc = enclosing()
            in_body = enc is not None and enc["kind"] in ("fn", "skip")
            mm = re.search(r"(?:^|[\s\]])((?:pub(?:\([^)]*\))?\s+)?)mod\s+(\w+)\s*$", hs)
            mt = re.search(r"(?:^|[\s\]])((?:pub(?:\([^)]*\))?\s+)?)(?:unsafe\s+)?trait\s+(\w+)", hs)
            mi = re.search(r"(?:^|[\s\]])(?:unsafe\s+)?impl\s+(.*)$", hs, re.S)
            mf = re.search(r"(?:^|[\s\]])(?:pub(?:\([^)]*\))?\s+)?(?:const\s+|async\s+|unsafe\s+)*fn\s+(\w+)", h)
            if in_body:
                entry = {"kind": "other", "name": None, "reach": False}
            elif excluded or hook:
                entry = {"kind": "skip", "name": None, "reach": False}
            elif mf and not (mi and mi.start() < mf.start()) and not (mt and mt.start() < mf.start()):
                handle_fn(h, pend_line, line, True)
                entry = {"kind": "fn", "name": mf.group(1), "reach": False}
            elif mm:
                vis = mm.group(1).strip()
                reach = (vis == "pub") or (mm.group(2) in INLINE_REEXPORTED.get(rel, ()))
                entry = {"kind": "mod", "name": mm.group(2), "reach": reach}
            elif mt:
                vis = mt.group(1).strip()
                reach = cur_reach() and vis == "pub"
                if pubtypes_pass is not None and reach:
                    pubtypes_pass.add(("trait", mt.group(2)))
                entry = {"kind": "trait", "name": mt.group(2), "reach": reach}
            elif mi:
                body = mi.group(1)
                body = re.split(r"\bwhere\b", body)[0].strip()
                if " for " in body:
                    tr, ty = body.split(" for ", 1)
                    tr = tr.strip().split("::")[-1].strip()
                    ty = ty.strip()
                else:
                    tr, ty = None, body
                ty = re.sub(r"^[&(\s]+", "", ty)
                tym = re.match(r"([\w:]+)", ty)
                tyname = tym.group(1).split("::")[-1] if tym else ty
                if ty.startswith("(") or body.startswith("("):
                    tyname = "tuple"
                # `impl From<X> for (A, B)`: owner = first type in the tuple
                if tr is not None and mi.group(1).split(" for ", 1)[1].strip().startswith("("):
                    inner = re.match(r"\(\s*([\w:]+)", mi.group(1).split(" for ", 1)[1].strip())
                    tyname = (inner.group(1).split("::")[-1] + "_tuple") if inner else "tuple"
                reach = cur_reach() and (tyname in PUB_TYPES or tyname.replace("_tuple", "") in PUB_TYPES or tr in PUB_TRAITS and
                                         tyname in ("Q", "T"))
                if tr is not None and tr not in FOREIGN and tr not in PUB_TRAITS:
                    reach = False
                if tr == "From" and not reach and cur_reach():
                    src_ty = re.search(r"From<\s*([\w:]+)", h)
                    if src_ty and src_ty.group(1).split("::")[-1] in PUB_TYPES:
                        tyname, reach = src_ty.group(1).split("::")[-1] + "_into", True
                # blanket impls `impl<Q: QmcStepper> QmcAutoCorrelations for Q`
                if tr in PUB_TRAITS and tyname in ("Q", "T") and cur_reach():
                    reach = True
                entry = {"kind": "impl", "name": tyname, "reach": reach, "via": tr}
            else:
                mtype = re.search(r"(?:^|[\s\]])((?:pub(?:\([^)]*\))?\s+)?)(struct|enum|union)\s+(\w+)", hs)
                if mtype and pubtypes_pass is not None and cur_reach() and mtype.group(1).strip() == "pub":
                    pubtypes_pass.add(("type", mtype.group(3)))
                    derive_scan(rh, mtype.group(3), rel, pend_line)
            stack.append(entry)
            pending = ""
            pend_line = line
        elif ch == "}":
            if stack:
                stack.pop()
            pending = ""
            pend_line = line
        elif ch == ";":
            h = pending.strip()
            hs = strip_generics(h)
            enc = enclosing()
            if not (enc and enc["kind"] in ("fn", "skip")):
                if re.search(r"\bfn\s+\w+", h):
                    handle_fn(h, pend_line, line, False)
                mtype = re.search(r"(?:^|[\s\]])((?:pub(?:\([^)]*\))?\s+)?)(struct|type)\s+(\w+)", hs)
                if mtype and pubtypes_pass is not None and cur_reach() and mtype.group(1).strip() == "pub":
                    if mtype.group(2) == "struct":
                        pubtypes_pass.add(("type", mtype.group(3)))
                        derive_scan(raw_header(pend_line, line), mtype.group(3), rel, pend_line)
            pending = ""
            pend_line = line
        else:
            if not pending.strip():
                pend_line = line
            pending += ch
        i += 1


DERIVED = []


def derive_scan(rh, tyname, rel, line):
    ds = set()
    for m in re.finditer(r"derive\(([^)]*)\)", rh):
        for d in m.group(1).split(","):
            ds.add(d.strip())
    for d in sorted(ds):
        for fn in FOREIGN.get(d, []):
            DERIVED.append(Item("derive", tyname, fn, rel, line, via=d))


def module_tree(repo):
    """file (relative to src) -> externally reachable?"""
    src = repo + "/src"
    reach = {}

    def walk(modfile, reachable):
        rel = os.path.relpath(modfile, src)
        reach[rel] = reachable
        txt = strip_code(open(modfile).read())
        d = os.path.dirname(modfile)
        globs = set(re.findall(r"^\s*pub\s+use\s+(?:self::)?(\w+)::\*\s*;", txt, re.M))
        for m in re.finditer(r"^\s*((?:pub(?:\([^)]*\))?\s+)?)mod\s+(\w+)\s*;", txt, re.M):
            vis, name = m.group(1).strip(), m.group(2)
            pre = txt[:m.start()].rstrip().split("\n")[-3:]
            if any(re.search(r'cfg\(\s*test', l) for l in pre[-1:]):
                continue
            child = None
            for cand in (d + "/" + name + ".rs", d + "/" + name + "/mod.rs"):
                if os.path.exists(cand):
                    child = cand
            if child is None:
                continue
            walk(child, reachable and (vis == "pub" or name in globs))

    walk(src + "/lib.rs", True)
    return reach


INLINE_REEXPORTED = {}
PUB_TYPES = set()
PUB_TRAITS = set()


def census(repo):
    global PUB_TYPES, PUB_TRAITS
    src = repo + "/src"
    reach = module_tree(repo)
    found = set()
    for rel, r in sorted(reach.items()):
        parse_file(src + "/" + rel, rel, r, [], pubtypes_pass=found)
    PUB_TYPES = {n for k, n in found if k == "type"}
    PUB_TRAITS = {n for k, n in found if k == "trait"}
    items = []
    for rel, r in sorted(reach.items()):
        parse_file(src + "/" + rel, rel, r, items)
    # derived impls (collected in the first pass)
    seen = set()
    for d in DERIVED:
        if (d.owner, d.name) in seen:
            continue
        seen.add((d.owner, d.name))
        items.append(d)
    # de-duplicate (a foreign `fmt`/`clone` written by hand and a derive never coexist; `serde` is listed once)
    uniq, out = set(), []
    for it in items:
        k = (it.kind, it.owner, it.name, it.via if it.kind == "impl" else None)
        if k in uniq:
            continue
        uniq.add(k)
        out.append(it)
    return out


def harness_sources(hdir):
    files = {}
    for root, _, fs in os.walk(hdir):
        for f in fs:
            if f.endswith(".rs"):
                p = os.path.join(root, f)
                txt = open(p).read()
                code = re.sub(r"//[^\n]*", "", txt)
                # qualified markers may sit in string literals (STAT keys), so keep strings; drop turbofish for `T::<X>::f`
                code2 = re.sub(r"::<[^<>]*(?:<[^<>]*(?:<[^<>]*>[^<>]*)*>[^<>]*)*>", "", code)
                files[os.path.relpath(p, hdir)] = (code, code2)
    return files


def coverage(items, files):
    """rows: (item, covered, where, cls, quals). cls: 'fn' ordinary function (bare-name rule), 'ambiguous' inherent name owned
    by several types (bare-name rule, qualified markers shown), 'value' foreign-trait / derived impl (marker rule)."""
    owners = {}
    for it in items:
        if it.kind in ("inherent", "free"):
            owners.setdefault(it.name, set()).add(it.owner)
    rows = []
    for it in items:
        word = re.compile(r"\b%s\b" % re.escape(it.name))
        qual = "%s::%s" % (it.owner, it.name)
        bare = sorted(f for f, (c, _) in files.items() if word.search(c))
        quals = sorted(f for f, (_, c2) in files.items() if qual in c2)
        if it.kind in ("foreign", "derive"):
            cls, covered, where = "value", bool(quals), quals
        elif it.kind in ("inherent", "free") and len(owners.get(it.name, ())) > 1:
            cls, covered, where = "ambiguous", bool(bare), bare
        else:
            cls, covered, where = "fn", bool(bare), bare
        rows.append((it, covered, where, cls, quals))
    return rows


def main():
    args = sys.argv[1:]
    repo, hdir = REPO, HARNESS
    if "--repo" in args:
        repo = args[args.index("--repo") + 1]
    if "--harness" in args:
        hdir = args[args.index("--harness") + 1]
    items = census(repo)
    files = harness_sources(hdir)
    only_unc = "--uncovered" in args
    table = "--table" in args
    exclude = None
    if "--without" in args:  # coverage as it would be without one harness file (e.g. --without bin/apicov.rs)
        exclude = args[args.index("--without") + 1]
        files = {f: v for f, v in files.items() if f != exclude}
    rows = coverage(items, files)
    bad = []
    tot = {"fn": [0, 0], "ambiguous": [0, 0], "value": [0, 0]}
    for it, covered, where, cls, quals in sorted(rows, key=lambda r: (r[0].file, r[0].line)):
        q = it.qual if it.kind != "derive" else "%s::%s (derive %s)" % (it.owner, it.name, it.via)
        tot[cls][0] += 1
        tot[cls][1] += bool(covered)
        allowed = it.qual in ALLOW or ("%s::%s" % (it.owner, it.name)) in ALLOW
        if not covered and not allowed:
            bad.append(it)
        if only_unc and covered:
            continue
        mark = "ok" if covered else ("ALLOW" if allowed else "MISSING")
        short = lambda ws: " ".join(w.replace("bin/", "").replace(".rs", "") for w in ws) or "-"
        extra = ""
        if cls == "ambiguous":
            extra = " [name owned by several types; `%s::%s` marker in: %s]" % (it.owner, it.name, short(quals))
        elif cls == "value":
            extra = " [marker rule]"
        if table:
            print("| `%s` | %s:%d | %s | %s |" % (q, it.file, it.line, it.kind, short(where)))
        else:
            print("%-7s %-62s %-38s %s%s" % (mark, q, "%s:%d" % (it.file, it.line), short(where), extra))
    n = len(rows)
    ncov = sum(1 for r in rows if r[1])
    print("# externally reachable functions: %d; covered: %d; uncovered: %d%s"
          % (n, ncov, n - ncov, "; computed without %s" % exclude if exclude else ""))
    print("#   ordinary functions (bare-name rule): %d, covered %d" % tuple(tot["fn"]))
    print("#   inherent names owned by several types (bare-name rule; markers listed): %d, covered %d" % tuple(tot["ambiguous"]))
    print("#   Clone/Debug/PartialEq/Default/From/serde impls, hand written or derived (marker rule): %d, covered %d" % tuple(tot["value"]))
    if bad:
        print("# NOT COVERED BY ANY HARNESS (and not allowlisted):")
        for it in bad:
            print("#   %s  (%s:%d)" % (it.qual, it.file, it.line))
        return 1
    return 0


if __name__ == "__main__":
    sys.exit(main())
