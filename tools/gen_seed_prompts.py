#!/usr/bin/env python3
"""tools/gen_seed_prompts.py <round> [ids…] : write /tmp/seedprompt<round>-Cxx.txt for independent seeding agents.
A prompt contains ONLY the property's text, the worktree path, the deliverable format and short summaries of the
changes earlier seeders produced for that property (so that a new round looks for different mechanisms) — nothing
about /verif's machinery."""
import glob, json, os, sys
V = os.path.dirname(os.path.dirname(os.path.abspath(__file__)))
rnd = int(sys.argv[1])
ids = sys.argv[2:]
props = [json.loads(l) for l in open(os.path.join(V, "properties.jsonl"))]

HEAD = """You are testing how robust a Rust library's behaviour is against subtle regressions. You have your own scratch git worktree of the library "qmc" (Renmusxd/IsingMonteCarlo: stochastic series expansion quantum Monte Carlo for Ising-like models, plus a classical sampler) at {wt} . Work ONLY inside {wt} (never touch /repo, never read or write anything under /verif). No network; build offline: `cd {wt} && cargo test --workspace --offline` (a Cargo.lock is present; features you may need: `--features tempering,parallel-tempering,serialize,autocorrelations` — if `autocorrelations` fails to compile because of a deny(unreachable_pub) lint, use `RUSTFLAGS="--cap-lints warn"`).

Here is a semantic property the library is supposed to satisfy:

  ID: {id}
  Title: {title}
  Statement: {statement}
  Quantified over: {quant}

YOUR TASK: produce TWO different, independent source changes (mutations) to the library, each of which BREAKS this property while (a) the crate still compiles, and (b) the existing test suite (`cargo test --workspace --offline`, run it with default features, that is the pinned suite) still passes completely. Each change must be REALISTIC and SUBTLE — the kind of regression a maintainer could introduce in a refactor and reviewers could miss: an off-by-one, a wrong constant or sign on one path, a missing update on a rarely taken branch, a field not carried over, two cooperating sites that each look fine alone. Prefer changes that need something specific to manifest (an unusual input, a multi-step sequence of operations, a particular parameter regime, a rare branch, a specific interleaving or snapshot point) rather than ones any ordinary run exposes immediately. Do not add obviously malicious code, dead flags, `if input == magic` special cases, or changes to tests. Keep each change small (a few lines). The two changes should touch different mechanisms.

For EACH change deliver, inside {wt}/SEED/<n>/ (n = 1, 2):
  * patch.diff — `git diff` of the library source only (relative to the worktree HEAD), applying cleanly with `git apply` at the worktree root;
  * demo.rs (or a small cargo test file / example you add, plus the exact command to run it) — a demonstration that FAILS (panics / asserts / prints a wrong value and exits non-zero) with the change applied and PASSES without it. A statistical demonstration is acceptable only if it is overwhelmingly reliable (fixed seeds, generous tolerances, e.g. > 6 sigma); deterministic demonstrations are better. The demo must use the library's public API (adding the demo as a file under tests/ or examples/ in the worktree is fine — but keep it OUT of patch.diff);
  * meta.json — {{"property": "{id}", "summary": "...what the change does...", "needs_to_manifest": "...the specific input/sequence/regime it needs...", "files_changed": [...], "demo_cmd": "...a single shell command line, nothing after it...", "verified": {{"compiles": true/false, "existing_tests_pass": true/false, "demo_fails_with_patch": true/false, "demo_passes_without_patch": true/false}}}}.
You must actually run and confirm all four "verified" facts for each change (apply patch → run pinned suite → run demo (fails) → `git apply -R` → run demo (passes)). Leave the worktree with the patches NOT applied at the end (clean library source; SEED/ directory and demo files present). To save disk, run `cargo clean` in the worktree when you are completely done.
"""

NOTE = """
ROUND {rnd} NOTE: other reviewers have ALREADY produced the changes summarised below for this property; do NOT repeat them or close variants (same site, same dropped `.abs()`, same stale-cache trick, same reordered arguments, same hoisted statement). Find a DIFFERENT mechanism, preferably in a DIFFERENT source file than the ones listed as already used. Good hunting grounds that earlier rounds under-used: (1) shared infrastructure the property depends on only indirectly — src/sse/qmc_traits/op_container.rs (operator representation, in-place edits, tags), src/sse/fast_ops.rs (navigation, per-variable links, subsection mutation), src/sse/fast_op_alloc.rs and src/util/allocator.rs (buffer reuse: a recycled buffer that is not cleared), src/util/bondcontainer.rs, src/util/vec_help.rs, src/sse/ham.rs, src/sse/qmc_types.rs; (2) code that exists in several near-identical copies (closures written out per call site, serial vs parallel driver, Ising vs generic sampler, Metropolis vs heat-bath, `_with_rng` vs convenience wrapper) — change ONE copy on a path ordinary use rarely takes; (3) an `Option`/`None`/empty-collection branch, first/last element, wrap-around through the imaginary-time boundary, a variable with exactly one operator, a cluster/region that covers everything, a system with a single variable or a single bond, duplicate edges, a bond listed with its variables in descending order; (4) state that must be updated in two places where you update only one on one path; (5) numeric regimes: exact ties in comparisons (`<` vs `<=` where equality actually occurs for simple rational inputs), zero weights, negative couplings or fields, values where a cast truncates, β extremely small or large; (6) an API sequence nobody tests: construct → mutate options → snapshot/clone → restore → mutate → step; swap → convert → step; set_cutoff/increase_cutoff_to by hand between steps; calling single_* update methods in an unusual order; (7) two cooperating edits in different functions that each look like a harmless cleanup. Source files already used by earlier changes for this property: {files}. Already tried:
{tried}
"""

TAIL = """
Final message: for each change, a 3–5 line description (what, where, why it breaks the property, what it needs to manifest) and the four verified facts. Be factual."""

for p in props:
    pid = p["id"]
    if ids and pid not in ids:
        continue
    wt = "/tmp/seed%d-%s" % (rnd, pid)
    text = HEAD.format(wt=wt, id=pid, title=p["title"], statement=p["statement"], quant=p["quantifier"]["text"])
    prev = []
    files = set()
    for d in sorted(glob.glob(os.path.join(V, "seeded", "_incoming", pid + "-*")) + glob.glob(os.path.join(V, "seeded", pid + "-*"))):
        try:
            m = json.load(open(os.path.join(d, "meta.json")))
        except Exception:
            continue
        s = " ".join(str(m.get("summary", "")).split())
        if s and s[:120] not in [x[:120] for x in prev]:
            prev.append(s[:330])
        for f in m.get("files_changed", []):
            files.add(os.path.basename(f))
    if rnd >= 10:
        text += """
ROUND %d STYLE: this round, make each change one that only manifests under THREADS / SCHEDULING or in the thread-parallel code paths (feature `parallel-tempering`, rayon): the serial path and a single-threaded rayon pool must behave exactly as before, while a pool with several worker threads (or a particular number of them, or a particular work split / chunk boundary, or a particular interleaving of two parallel sections) gives a different result from the serial driver or from another thread count: e.g. a reduction whose result depends on the combination order, a `par_iter` over chunks whose boundaries depend on the thread count, thread-local scratch state or a thread-local cache that is warm on one worker and cold on another, a `find_any` / `position_any` / unordered collect, a parallel loop that reads a value another task of the same section writes (through an index computed per chunk, never through unsafe), an accumulator zipped against the wrong slice after a parallel split, per-thread RNG or counter state. The crate forbids `unsafe`, keep it that way. Deterministic demonstrations with explicit `rayon::ThreadPoolBuilder::new().num_threads(k)` pools (k = 1 passes, some k > 1 fails) are preferred; do not use size thresholds, numeric tolerances or call-history tricks this round.
""" % rnd
    elif rnd >= 9:
        text += """
ROUND %d STYLE: this round, make each change one that ordinary straight-line use never exposes and that needs a specific HISTORY to manifest: (a) a MULTI-STEP SEQUENCE of public calls (set an option, run, unset it, run again; clone / snapshot between two particular calls; swap replicas, then convert or restore; add an interaction after steps were taken; change beta / cutoff / fields through setters mid-run; call a single_* step directly before or after timestep; reuse an object after a method returned Err or after a caught panic), where state left behind by an EARLIER call (a cached table, a flag, a counter, a capacity, a hint, a pooled buffer, an offset) is consumed wrongly by a LATER one; or (b) TWO COOPERATING SITES in different functions or files that each look locally correct (one writes a field in new units / new convention / lazily, the other still reads the old one on one path only), so that no single hunk looks wrong; or (c) an ORDER dependence (the result depends on the order in which edges / interactions / replicas were added, or on which replica of a pair is stepped first, or on whether an optional feature was enabled before or after construction). The very first timestep after construction, and any run that never touches the second site / the setter / the option, must behave exactly as before. Do not use size thresholds or numeric tolerances this round.
""" % rnd
    elif rnd >= 8:
        text += """
ROUND %d STYLE: this round, make each change one that is INVISIBLE AT ORDINARY SCALE and wrong only in a SCALE or REGIME corner that legitimate use reaches: a narrowing cast or smaller integer type (`as u32`, `as u16`, `u8` counters, `as f32` intermediates) 'to save memory', a fixed-size bitset / array / `SmallVec` capacity / `1 << i` mask assuming few variables or few bonds, a cap or `min(.., N)` on a length, count or number of iterations, a hard-coded small-size fast path, a precision-losing but algebraically equivalent rearrangement of floating point (`exp(a)/exp(b)` vs `exp(a-b)`, `powi`, summing in another order with an `f32` accumulator, `(x * n) / n`), an absolute tolerance or threshold that presumes unit-scale couplings, an index computed as `i * stride` in a type that wraps, a pre-sized buffer that is not grown. The change must be bit-for-bit harmless for small systems at unit scale (a handful of spins, cutoff below ~50, beta ~ 1, |J| ~ 1) and break the property for larger systems (e.g. more than 32/64/255 variables or bonds, more than 255/65535 operators, many replicas), longer runs, extreme beta, or very small / very large couplings. The diff may be 5-40 lines and must read as one coherent, well-commented commit a reviewer would approve. The requirement that the pinned suite still passes and that a demonstration fails with / passes without the change is unchanged; keep the demonstration's runtime under two minutes.
""" % rnd
    elif rnd >= 7:
        text += """
ROUND %d STYLE: this round, make each change look like DEFENSIVE / ROBUSTNESS work: adding a guard or clamp ('cannot exceed', 'never negative'), saturating or checked arithmetic replacing plain arithmetic, an early return or silent default on input the author considered invalid or degenerate (empty, zero, equal, out of range), replacing a panic/unwrap/assert by a fallback value, a tolerance-based comparison replacing an exact one (or vice versa), NaN/inf handling, log-space or rescaled numerics 'for stability', deduplication / sorting / normalisation of inputs 'to be safe', bounds on loop counts or recursion 'to guarantee termination'. The guard must be wrong in a corner that legitimate use reaches (the guarded condition does occur for valid inputs, or the fallback differs from the exact result). The diff may be 5-40 lines and must read as one coherent, well-commented commit a reviewer would approve. The requirement that the pinned suite still passes and that a demonstration fails with / passes without the change is unchanged.
""" % rnd
    elif rnd >= 6:
        text += """
ROUND %d STYLE: this round, make each change look like a piece of ordinary maintenance rather than a one-token slip: (a) a PERFORMANCE optimisation (caching a value that can go stale, an early exit or fast path 'when nothing can change', skipping recomputation, hoisting something out of a loop, reusing a buffer, replacing an exact computation by an incremental update) whose shortcut is wrong in a corner; or (b) a REFACTOR of 10-40 lines (rewriting a loop with iterators, merging two near-identical functions into one with a parameter, splitting a function, replacing index arithmetic by a helper, changing a data representation) that preserves behaviour on the common path but not on a rare one; or (c) an API CLEANUP (changing which of two similar getters is used, reordering struct initialisation, replacing a manual impl by a derive or vice versa, changing a default). The diff may be larger than in earlier rounds (up to ~40 changed lines) but must read as a single coherent, well-commented commit a reviewer would approve. The requirement that the pinned suite still passes and that a demonstration fails with / passes without the change is unchanged.
""" % rnd
    if prev:
        text += NOTE.format(rnd=rnd, files=", ".join(sorted(files)) or "-", tried="\n".join("- " + x for x in prev))
    text += TAIL
    open("/tmp/seedprompt%d-%s.txt" % (rnd, pid), "w").write(text)
    print(pid, len(prev), "earlier changes listed")
