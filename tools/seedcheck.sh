#!/bin/sh
# tools/seedcheck.sh <Cxx> <n> [check-id] : run the property's check (or another check) against an incoming seed
P=$1; N=$2; C=${3:-$1}
PATCH=/verif/seeded/_incoming/$P-$N/patch.diff
[ -f /verif/seeded/$P-$N/patch.diff ] && PATCH=/verif/seeded/$P-$N/patch.diff
OUT=$(/verif/tools/mutcheck.sh $PATCH $C 2>&1)
echo "$OUT" | grep -E "^VIOLATION|^OK|^KNOWN|first failure|^broken|error: patch|does not apply" | cut -c1-400 | sed "s|^|[$P-$N vs $C] |"
