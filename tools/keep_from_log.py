#!/usr/bin/env python3
"""tools/keep_from_log.py <logdir> [ids…] : keep every incoming seed whose processing log (tools/process_incoming.sh or
tools/seedr.sh output) shows CONFIRMED and a VIOLATION; the note is the log's first-failure line. Prints misses."""
import os, re, subprocess, sys
logdir = sys.argv[1]; ids = sys.argv[2:]
V = os.path.dirname(os.path.dirname(os.path.abspath(__file__)))
for f in sorted(os.listdir(logdir)):
    sid = f[:-4]
    if not f.endswith(".log") or (ids and sid not in ids): continue
    t = open(os.path.join(logdir, f), errors="replace").read()
    conf = re.search(r"\] CONFIRMED", t) is not None
    viol = "VIOLATION property=" in t
    ff = re.search(r"first failure: (.*)", t)
    note = (ff.group(1)[:500] if ff else "")
    broken = sorted(set(re.findall(r"broken: ([a-z]+:[^\n:]{0,60})", t)))[:4]
    if broken: note += " | broken: " + "; ".join(broken)
    p, n = sid.split("-")
    if not conf:
        print("NOT-CONFIRMED", sid); continue
    if os.path.isdir(os.path.join(V, "seeded", sid)) and viol:
        print("already kept", sid)
    if viol:
        subprocess.run([os.path.join(V, "tools", "keep_seed.py"), p, n, "yes", "quick tier: " + note], check=True)
    else:
        print("MISS", sid)
