#!/usr/bin/env python3
"""tools/r9_summary.py [--keep] : summarise /var/tmp/r9*/ logs of round-9 seeds (confirm + check verdicts per check) and,
with --keep, copy every confirmed seed that some check caught in the quick tier into seeded/ (keep_seed.py)."""
import glob, os, re, subprocess, sys
V = os.path.dirname(os.path.dirname(os.path.abspath(__file__)))
conf = {}; res = {}
D = os.environ.get("SEEDLOGS", "/var/tmp/r9")
files = glob.glob(D + "/*.log")
files.sort(key=os.path.getmtime)
for f in files:
    for line in open(f, errors="replace"):
        m = re.match(r"\[(C\d\d-\d+)\] confirm: (\S+)", line)
        if m: conf[m.group(1)] = m.group(2); continue
        m = re.match(r"\[(C\d\d-\d+) vs (C\d\d)\] (.*)", line)
        if not m: continue
        sid, chk, rest = m.groups()
        d = res.setdefault(sid, {}).setdefault(chk, {"verdict": None, "first": "", "mtime": 0})
        if os.path.getmtime(f) < d["mtime"]: continue
        if rest.startswith("VIOLATION"): d["verdict"] = "caught"; d["nofail"] = "no-failing-input-found" in rest; d["mtime"] = os.path.getmtime(f)
        elif rest.startswith("OK property"): d["verdict"] = "missed"; d["mtime"] = os.path.getmtime(f); d["first"] = ""
        elif rest.startswith("first failure:"): d["first"] = rest[15:400]
        elif "does not apply" in rest: d["verdict"] = "noapply"; d["mtime"] = os.path.getmtime(f)
keep = "--keep" in sys.argv
for sid in sorted(set(conf) | set(res), key=lambda s: (s[:3], int(s[4:]))):
    r = res.get(sid, {})
    caught = [(c, d) for c, d in r.items() if d["verdict"] == "caught"]
    own = sid[:3]
    status = "CAUGHT by " + ",".join(c for c, _ in caught) if caught else "MISSED (" + ",".join("%s:%s" % (c, d["verdict"]) for c, d in r.items()) + ")"
    print(sid, conf.get(sid, "?"), status)
    if keep and conf.get(sid) == "CONFIRMED" and caught:
        c, d = ([x for x in caught if x[0] == own] or caught)[0]
        note = "quick tier of check %s: %s%s" % (c, d["first"], " (no-failing-input-found: translator/proof obligation)" if d.get("nofail") else "")
        others = [x[0] for x in caught if x[0] != c]
        if others: note += " | also caught by " + ",".join(others)
        missed = [x for x, dd in r.items() if dd["verdict"] == "missed"]
        if missed: note += " | not seen by the quick tier of " + ",".join(missed)
        subprocess.run([os.path.join(V, "tools", "keep_seed.py"), own, sid.split("-")[1], "yes", note], check=True, stdout=subprocess.DEVNULL)
