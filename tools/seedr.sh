#!/bin/sh
# tools/seedr.sh <round> <Cxx> : confirm both seeds of /tmp/seed<round>-Cxx, stash as Cxx-(2*(round-1)+n), run the check
R=$1; P=$2
for n in 1 2; do
  m=$((2*(R-1)+n))
  RES=$(/verif/tools/confirm_seed.sh /tmp/seed$R-$P $n 2>&1 | tail -1)
  mkdir -p /verif/seeded/_incoming/$P-$m && cp /tmp/seed$R-$P/SEED/$n/* /verif/seeded/_incoming/$P-$m/
  echo "[$P-$m] confirm: $RES"
  /verif/tools/seedcheck.sh $P $m
done
