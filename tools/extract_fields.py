#!/usr/bin/env python3
"""tools/extract_fields.py — regenerate the two source-derived Lean files of C14 / C13

    lean/QmcModel/Generated/Fields.lean    structures, serde round trips, snapshot / restore / clone maps
    lean/QmcModel/Generated/Ambient.lean   every use of ambient state (thread rng, entropy, clocks, hashes,
                                           statics, interior mutability) with its enclosing fn

from the *current* Rust sources (`checks.common.REPO`, i.e. /repo unless VERIF_REPO is set).  The
translation is regex / bracket-matching level (the code base is rustfmt-formatted) and works from a
WHITELIST of shapes: every struct, attribute, conversion body and expression that is not recognised makes the
run FAIL CLOSED (exit 2, the message names struct and field) — nothing is skipped silently.  Output is
deterministic and a file is only rewritten when its content changes (so lake does not rebuild).

What is translated
  * every struct that derives serde `Serialize` (directly or through `cfg_attr(feature = "serialize", …)`):
    field list, Rust type -> Lean type over abstract component types, every `#[serde(…)]` attribute:
        skip / skip_serializing / skip_deserializing   -> field comes back as `default`
        default                                        -> no effect on a round trip (key always written)
        with = "numeric_serialize"                     -> `List.replicate len default`, after shape-checking the
                                                          module body in util/allocator.rs
        anything else                                  -> FAIL CLOSED
    => `S.serdeRT`, the function "serialise with serde, deserialise again" (serde derive semantics trusted).
    Enums that derive Serialize must carry no serde attribute at all (else FAIL CLOSED).
  * the RNG-less snapshot conversions and their inverses
        From<QmcIsingGraph<R,M>> for (SerializeQmcGraph<M>, R)      -> QmcIsingGraph.snapshot
        SerializeQmcGraph::into_qmc                                -> SerializeQmcGraph.restore
        From<TemperingContainer<..>> for (SerializeTemperingContainer<M>, R1, Vec<R2>) -> TemperingContainer.snapshot
        SerializeTemperingContainer::into_tempering_container      -> SerializeTemperingContainer.restore
    plus shape checks of the thin wrappers (`From<..> for SerializeQmcGraph<M>`, the RNG-dropping container
    conversion, `into_tempering_container_from_vec`).
  * the two manual `Clone` impls (QmcIsingGraph, Qmc)              -> QmcIsingGraph.clone, Qmc.clone
  * a per-field report (copied / re-derived / parameter / reset / defaulted / skipped) written to
    `.cache/fields_report.json`; checks/C14.py prints it when a proof about the generated file fails, so the
    offending field is named.
"""
import json
import os
import re
import sys

HERE = os.path.dirname(os.path.abspath(__file__))
VERIF = os.path.dirname(HERE)


class Unknown(Exception):
    """source shape outside the whitelist -> fail closed"""


# --------------------------------------------------------------------------------------------
# lexical helpers
# --------------------------------------------------------------------------------------------
def strip_comments(src):
    """Replace comments by spaces (newlines kept so that line numbers survive); string and char literals are kept."""
    out = []
    i, n = 0, len(src)
    while i < n:
        c = src[i]
        if src.startswith("//", i):
            while i < n and src[i] != "\n":
                out.append(" ")
                i += 1
        elif src.startswith("/*", i):
            depth = 0
            while i < n:
                if src.startswith("/*", i):
                    depth += 1
                    out.append("  ")
                    i += 2
                elif src.startswith("*/", i):
                    depth -= 1
                    out.append("  ")
                    i += 2
                    if depth == 0:
                        break
                else:
                    out.append("\n" if src[i] == "\n" else " ")
                    i += 1
        elif c == '"':
            j = i + 1
            while j < n and src[j] != '"':
                j += 2 if src[j] == "\\" else 1
            out.append(src[i : j + 1])
            i = j + 1
        elif c == "'":
            # char literal ('x', '\n', '\'') or lifetime ('a)
            m = re.match(r"'(\\.|[^\\'])'", src[i:])
            if m:
                out.append(m.group(0))
                i += len(m.group(0))
            else:
                out.append(c)
                i += 1
        else:
            out.append(c)
            i += 1
    return "".join(out)


OPEN = {"(": ")", "[": "]", "{": "}"}
CLOSE = {")", "]", "}"}


def match_close(s, i):
    """index of the bracket closing s[i] (one of ( [ {); string literals skipped"""
    stack = []
    n = len(s)
    while i < n:
        c = s[i]
        if c == '"':
            i += 1
            while i < n and s[i] != '"':
                i += 2 if s[i] == "\\" else 1
        elif c == "'":
            m = re.match(r"'(\\.|[^\\'])'", s[i:])
            if m:
                i += len(m.group(0)) - 1
        elif c in OPEN:
            stack.append(OPEN[c])
        elif c in CLOSE:
            if not stack or stack.pop() != c:
                raise Unknown("unbalanced brackets")
            if not stack:
                return i
        i += 1
    raise Unknown("unbalanced brackets (eof)")


def split_top(s, sep=","):
    """split at top-level separators (outside () [] {} <> and strings); `->`, `=>` and comparison-free code assumed"""
    parts, depth, cur = [], 0, []
    i, n = 0, len(s)
    while i < n:
        c = s[i]
        if c == '"':
            j = i + 1
            while j < n and s[j] != '"':
                j += 2 if s[j] == "\\" else 1
            cur.append(s[i : j + 1])
            i = j + 1
            continue
        if c in "([{":
            depth += 1
        elif c in ")]}":
            depth -= 1
        elif c == "<":
            depth += 1
        elif c == ">" and i > 0 and s[i - 1] not in "-=":
            depth -= 1
        if c == sep and depth == 0:
            parts.append("".join(cur))
            cur = []
        else:
            cur.append(c)
        i += 1
    if "".join(cur).strip():
        parts.append("".join(cur))
    return parts


def squash(s):
    return re.sub(r"\s+", "", s)


def line_of(src, pos):
    return src.count("\n", 0, pos) + 1


# --------------------------------------------------------------------------------------------
# Rust items
# --------------------------------------------------------------------------------------------
class Field:
    def __init__(self, name, ty, attrs):
        self.name, self.ty, self.attrs = name, ty, attrs
        self.serde = None  # None | "skip" | "default" | ("with", module)


class Struct:
    def __init__(self, name, file, generics, fields, attrs, line):
        self.name, self.file, self.generics, self.fields, self.attrs, self.line = name, file, generics, fields, attrs, line
        self.serde = False
        self.derive_clone = False


def leading_attrs(src, pos):
    """attributes (#[…], possibly spanning several lines) directly above the item starting at `pos`; comments are already
    blanked.  Each attribute is returned as ONE string (inner newlines kept; callers squash)."""
    i = src.rfind("\n", 0, pos) + 1  # start of the item's line
    # an attribute may also sit on the same line before the item keyword: include that part
    j = pos
    attrs = []
    while True:
        k = j - 1
        while k >= 0 and src[k].isspace():
            k -= 1
        if k < 0 or src[k] != "]":
            break
        # walk back to the matching '[' (strings inside attributes contain no brackets in this code base; checked below)
        depth, q = 0, k
        while q >= 0:
            if src[q] == "]":
                depth += 1
            elif src[q] == "[":
                depth -= 1
                if depth == 0:
                    break
            q -= 1
        if q <= 0 or src[q - 1] != "#":
            break
        text = src[q - 1 : k + 1]
        if text.count("[") != text.count("]"):
            raise Unknown("attribute with unbalanced brackets near line %d" % line_of(src, q))
        attrs.append(text)
        j = q - 1
    return list(reversed(attrs))


def parse_generics(g):
    """'<R: Rng, M: IsingManager = X, 'a, const N: usize>' -> ['R','M'] (lifetimes and consts dropped)"""
    if not g:
        return []
    inner = g.strip()[1:-1]
    out = []
    for p in split_top(inner):
        p = p.strip()
        if not p or p.startswith("'") or p.startswith("const "):
            continue
        m = re.match(r"([A-Za-z_]\w*)", p)
        if not m:
            raise Unknown("generic parameter %r" % p)
        out.append(m.group(1))
    return out


def serde_attr_payloads(attr, where):
    """payloads of serde(...) inside one attribute line; attribute lines that mention serde in any other way fail"""
    a = squash(attr)
    if "serde" not in a:
        return []
    m = re.fullmatch(r"#\[serde\((.*)\)\]", a)
    if m:
        return split_top(m.group(1))
    m = re.fullmatch(r'#\[cfg_attr\(feature="serialize",serde\((.*)\)\)\]', a)
    if m:
        return split_top(m.group(1))
    raise Unknown("%s: attribute mentions serde in an unrecognised form: %s" % (where, attr))


def has_serialize_derive(attrs):
    ser = de = False
    for a in attrs:
        s = squash(a)
        m = re.fullmatch(r"#\[derive\((.*)\)\]", s) or re.fullmatch(r'#\[cfg_attr\(feature="serialize",derive\((.*)\)\)\]', s)
        if m:
            names = m.group(1).split(",")
            ser |= "Serialize" in names
            de |= "Deserialize" in names
    if ser != de:
        raise Unknown("Serialize and Deserialize are not derived together: %s" % attrs)
    return ser


def has_clone_derive(attrs):
    for a in attrs:
        m = re.fullmatch(r"#\[derive\((.*)\)\]", squash(a))
        if m and "Clone" in m.group(1).split(","):
            return True
    return False


def find_structs(src, file):
    """all brace structs of a (comment-stripped) file"""
    out = []
    for m in re.finditer(r"^[ \t]*(?:pub(?:\([a-z]+\))?\s+)?struct\s+([A-Za-z_]\w*)", src, re.M):
        name = m.group(1)
        i = m.end()
        generics = ""
        if src[i : i + 1] == "<":
            depth, j = 0, i
            while True:
                if src[j] == "<":
                    depth += 1
                elif src[j] == ">" and src[j - 1] != "-":
                    depth -= 1
                    if depth == 0:
                        break
                j += 1
            generics = src[i : j + 1]
            i = j + 1
        # up to the body: optional where clause; `;` or `(` first = unit/tuple struct
        k = i
        while src[k] not in "{;(":
            k += 1
        attrs = leading_attrs(src, m.start())
        if src[k] != "{":
            if has_serialize_derive(attrs):
                raise Unknown("%s: tuple/unit struct %s derives Serialize (shape not handled)" % (file, name))
            continue
        end = match_close(src, k)
        body = src[k + 1 : end]
        fields = []
        for item in split_top(body):
            item = item.strip()
            if not item:
                continue
            fattrs = []
            while item.startswith("#["):
                e = match_close(item, 1)
                fattrs.append(item[: e + 1])
                item = item[e + 1 :].strip()
            fm = re.fullmatch(r"(?:pub(?:\([a-z]+\))?\s+)?([A-Za-z_]\w*)\s*:\s*(.+)", item, re.S)
            if not fm:
                raise Unknown("%s: struct %s: field item not understood: %r" % (file, name, item[:80]))
            fields.append(Field(fm.group(1), " ".join(fm.group(2).split()), fattrs))
        out.append(Struct(name, file, parse_generics(generics), fields, attrs, line_of(src, m.start())))
    return out


def find_enums_with_serde(src, file):
    """enums deriving Serialize must not carry serde attributes (they are leaves of the model)"""
    names = []
    for m in re.finditer(r"^[ \t]*(?:pub(?:\([a-z]+\))?\s+)?enum\s+([A-Za-z_]\w*)", src, re.M):
        attrs = leading_attrs(src, m.start())
        if not has_serialize_derive(attrs):
            continue
        k = src.index("{", m.end())
        body = src[k : match_close(src, k) + 1]
        extra = [" ".join(a.split()) for a in attrs if "serde(" in squash(a)]
        if "serde" in body or extra:
            raise Unknown("%s: enum %s carries a serde attribute — its serialised REPRESENTATION is customised (%s), not the derived one the field model assumes; a from/into/with conversion can re-derive instead of store (e.g. the Diagonal/Offdiagonal tag)" % (file, m.group(1), "; ".join(extra) or "variant/field attribute"))
        names.append(m.group(1))
    return names


def find_aliases(src):
    """`type Name<P..> = T;` at any nesting (trait-associated `type X: Bound` / `type X = Y` inside impls are harmless
    because only aliases that are *used* in a field type are ever looked up)"""
    al = {}
    for m in re.finditer(r"^[ \t]*(?:pub(?:\([a-z]+\))?\s+)?type\s+([A-Za-z_]\w*)\s*(<[^=]*>)?\s*=\s*([^;]+);", src, re.M):
        al[m.group(1)] = (parse_generics(m.group(2) or ""), " ".join(m.group(3).split()))
    return al


# --------------------------------------------------------------------------------------------
# Rust type -> Lean type
# --------------------------------------------------------------------------------------------
NAT = {"usize", "u64", "u32", "u16", "u8", "u128"}
INT = {"isize", "i64", "i32", "i16", "i8", "i128"}


class Ty:
    """kind: nat|int|bool|f64|list|option|tuple|var ; args ; name (for var)"""

    def __init__(self, kind, args=(), name=None):
        self.kind, self.args, self.name = kind, list(args), name

    def vars(self):
        if self.kind == "var":
            return [self.name]
        out = []
        for a in self.args:
            for v in a.vars():
                if v not in out:
                    out.append(v)
        return out

    def uses_f64(self):
        return self.kind == "f64" or any(a.uses_f64() for a in self.args)

    def lean(self, top=True):
        k = self.kind
        if k == "nat":
            return "Nat"
        if k == "int":
            return "Int"
        if k == "bool":
            return "Bool"
        if k == "f64":
            return "F64"
        if k == "var":
            return self.name
        if k == "list":
            s = "List " + self.args[0].lean(False)
        elif k == "option":
            s = "Option " + self.args[0].lean(False)
        elif k == "tuple":
            s = " × ".join(a.lean(False) for a in self.args)
        else:
            raise Unknown("type kind " + k)
        return s if top else "(" + s + ")"


def sanitize(t):
    s = re.sub(r"[^A-Za-z0-9]+", "_", t).strip("_")
    return s


def parse_type(t, generics, aliases, where):
    t = t.strip()
    if t.startswith("("):
        e = match_close(t, 0)
        if e != len(t) - 1:
            raise Unknown("%s: type %r" % (where, t))
        parts = [p for p in split_top(t[1:-1]) if p.strip()]
        if len(parts) == 0:
            raise Unknown("%s: unit type in a field" % where)
        if len(parts) == 1:
            return parse_type(parts[0], generics, aliases, where)
        return Ty("tuple", [parse_type(p, generics, aliases, where) for p in parts])
    if t.startswith("&") or t.startswith("*") or t.startswith("dyn ") or t.startswith("impl ") or t.startswith("fn"):
        raise Unknown("%s: reference / pointer / trait-object type %r in a serialised or cloned struct" % (where, t))
    m = re.fullmatch(r"([A-Za-z_][\w:]*)\s*(<.*>)?", t, re.S)
    if not m:
        raise Unknown("%s: type %r" % (where, t))
    head, args = m.group(1).split("::")[-1], m.group(2)
    argl = [a.strip() for a in split_top(args[1:-1])] if args else []
    if head in NAT and not argl:
        return Ty("nat")
    if head in INT and not argl:
        return Ty("int")
    if head == "bool" and not argl:
        return Ty("bool")
    if head == "f64" and not argl:
        return Ty("f64")
    if head == "f32":
        raise Unknown("%s: f32 field" % where)
    if head == "Vec" and len(argl) == 1:
        return Ty("list", [parse_type(argl[0], generics, aliases, where)])
    if head == "Option" and len(argl) == 1:
        return Ty("option", [parse_type(argl[0], generics, aliases, where)])
    if head == "SmallVec" and len(argl) == 1:
        am = re.fullmatch(r"\[(.*);\s*\w+\]", argl[0], re.S)
        if not am:
            raise Unknown("%s: SmallVec argument %r" % (where, argl[0]))
        return Ty("list", [parse_type(am.group(1), generics, aliases, where)])
    if head in generics and not argl:
        return Ty("var", name=head)
    if head in aliases:
        params, body = aliases[head]
        if len(params) != len(argl):
            raise Unknown("%s: alias %s used with %d arguments" % (where, head, len(argl)))
        for p, a in zip(params, argl):
            body = re.sub(r"\b%s\b" % re.escape(p), a, body)
        return parse_type(body, generics, aliases, where)
    # any other named type: an abstract component type, one Lean type variable per distinct Rust type text
    return Ty("var", name=sanitize(t))


def map_expr(ty, e, used):
    """Lean expression: value `e` of type `ty` with `rt_X` applied at every component type variable"""
    if not ty.vars():
        return e
    k = ty.kind
    if k == "var":
        used.append(ty.name)
        return "rt_%s %s" % (ty.name, e)
    if k == "list":
        return "(%s).map (fun a => %s)" % (e, map_expr(ty.args[0], "a", used))
    if k == "option":
        return "(%s).map (fun a => %s)" % (e, map_expr(ty.args[0], "a", used))
    if k == "tuple":
        n = len(ty.args)
        projs = []
        for i, a in enumerate(ty.args):
            p = "p" + ".2" * i + (".1" if i < n - 1 else "")
            projs.append(map_expr(a, p, used))
        return "(fun p => (%s)) (%s)" % (", ".join(projs), e)
    raise Unknown("map over type kind " + k)


# --------------------------------------------------------------------------------------------
# model of one struct
# --------------------------------------------------------------------------------------------
class Model:
    def __init__(self, st, aliases):
        self.st = st
        self.name = st.name
        self.fields = []  # (name, Ty, serde)
        where0 = "%s: struct %s" % (st.file, st.name)
        for a in st.attrs:
            if "serde(" in squash(a) and not re.fullmatch(r'#\[cfg_attr\(feature="serialize",derive\((.*)\)\)\]|#\[derive\((.*)\)\]', squash(a)):
                raise Unknown("%s: container-level serde attribute — the serialised REPRESENTATION of %s is customised (%s), not the derived one the field model assumes" % (where0, st.name, " ".join(a.split())))
        for f in st.fields:
            where = "%s.%s" % (where0, f.name)
            ty = parse_type(f.ty, st.generics, aliases, where)
            mode = None
            for a in f.attrs:
                for p in serde_attr_payloads(a, where):
                    p = p.strip()
                    if p in ("skip", "skip_serializing", "skip_deserializing"):
                        mode = "skip"
                    elif p == "default":
                        mode = mode or "default"
                    elif re.fullmatch(r'with="numeric_serialize"', squash(p)):
                        mode = ("with", "numeric_serialize")
                    else:
                        raise Unknown("%s: serde attribute `%s` is not modelled" % (where, p))
            self.fields.append((f.name, ty, mode))
        # parameters: F64 (if used), generics in declaration order, then component types by first appearance
        vs = []
        for _, ty, _ in self.fields:
            for v in ty.vars():
                if v not in vs:
                    vs.append(v)
        self.params = [g for g in st.generics if g in vs] + [v for v in vs if v not in st.generics]
        self.f64 = any(ty.uses_f64() for _, ty, _ in self.fields)

    def all_params(self):
        return (["F64"] if self.f64 else []) + self.params

    def applied(self, subst=None):
        ps = [(subst or {}).get(p, p) for p in self.all_params()]
        return ("%s %s" % (self.name, " ".join(ps))).strip()

    def lean_structure(self):
        ps = self.all_params()
        hdr = "structure %s%s where" % (self.name, (" (" + " ".join(ps) + " : Type)") if ps else "")
        lines = ["/-- `%s` (%s:%d) -/" % (self.name, self.st.file, self.st.line), hdr]
        for n, ty, _ in self.fields:
            lines.append("  %s : %s" % (n, ty.lean()))
        return "\n".join(lines)

    def lean_serde_rt(self):
        used, inh, body = [], [], []
        for n, ty, mode in self.fields:
            if mode == "skip":
                body.append("    %s := default" % n)
                inh.append(ty.lean(False))
            elif mode and mode[0] == "with":
                if ty.kind != "list":
                    raise Unknown("%s.%s: numeric_serialize on a non-Vec field" % (self.name, n))
                body.append("    %s := List.replicate x.%s.length default" % (n, n))
                inh.append(ty.args[0].lean(False))
            else:
                body.append("    %s := %s" % (n, map_expr(ty, "x." + n, used)))
        usedp = [p for p in self.params if p in used]
        imp = self.all_params()
        sig = "def %s.serdeRT" % self.name
        if imp:
            sig += " {%s : Type}" % " ".join(imp)
        for t in dict.fromkeys(inh):
            sig += " [Inhabited %s]" % t
        for p in usedp:
            sig += " (rt_%s : %s → %s)" % (p, p, p)
        sig += "\n    (x : %s) : %s :=" % (self.applied(), self.applied())
        doc = "/-- serde round trip of `%s` (serialise, then deserialise); component round trips: %s -/" % (self.name, ", ".join(usedp) or "none")
        return "\n".join([doc, sig, "  {", ",\n".join(body), "  }"]), usedp

    def serde_keys(self):
        return [n for n, _, mode in self.fields if mode != "skip"]


# --------------------------------------------------------------------------------------------
# conversion bodies
# --------------------------------------------------------------------------------------------
def find_impl_fn(src, impl_re, fn_name, file):
    """body (inside the braces) and parameter text of `fn fn_name` inside the impl whose squashed header matches impl_re"""
    hits = []
    for m in re.finditer(r"^[ \t]*impl\b", src, re.M):
        k = src.index("{", m.start())
        # where clauses contain no braces in this code base
        header = squash(src[m.start() : k])
        if re.fullmatch(impl_re, header):
            hits.append((k, match_close(src, k)))
    if len(hits) != 1:
        raise Unknown("%s: expected exactly one impl matching /%s/, found %d" % (file, impl_re, len(hits)))
    k, e = hits[0]
    body = src[k + 1 : e]
    fm = list(re.finditer(r"\bfn\s+%s\b" % re.escape(fn_name), body))
    if len(fm) != 1:
        raise Unknown("%s: expected exactly one fn %s in impl /%s/, found %d" % (file, fn_name, impl_re, len(fm)))
    p0 = body.index("(", fm[0].end() - 1) if body[fm[0].end()] != "<" else None
    i = fm[0].end()
    if body[i] == "<":
        depth = 0
        while True:
            if body[i] == "<":
                depth += 1
            elif body[i] == ">":
                depth -= 1
                if depth == 0:
                    break
            i += 1
        i += 1
    p0 = body.index("(", i)
    p1 = match_close(body, p0)
    b0 = body.index("{", p1)
    b1 = match_close(body, b0)
    return body[b0 + 1 : b1], body[p0 + 1 : p1]


def parse_struct_literal(text, expect_name, where):
    """`Name { a: e, b, c: e }` -> [(field, expr or None for shorthand)]"""
    t = text.strip()
    m = re.match(r"([A-Za-z_]\w*)\s*\{", t)
    if not m or m.group(1) not in expect_name:
        raise Unknown("%s: expected a struct literal of %s, found %r" % (where, "/".join(expect_name), t[:60]))
    k = t.index("{")
    e = match_close(t, k)
    if t[e + 1 :].strip():
        raise Unknown("%s: trailing code after the struct literal: %r" % (where, t[e + 1 :].strip()[:60]))
    out = []
    for item in split_top(t[k + 1 : e]):
        item = item.strip()
        if not item:
            continue
        if item.startswith(".."):
            raise Unknown("%s: struct update syntax `%s` (fields not listed one by one)" % (where, item[:40]))
        fm = re.fullmatch(r"([A-Za-z_]\w*)\s*:\s*(.+)", item, re.S)
        if fm:
            out.append((fm.group(1), fm.group(2)))
        elif re.fullmatch(r"[A-Za-z_]\w*", item):
            out.append((item, None))
        else:
            raise Unknown("%s: literal item %r" % (where, item[:60]))
    return out


DEFAULTS = {"0", "0.0", "0.", "false", "vec![]", "Vec::new()", "Default::default()", "Vec::default()", "None::<usize>"}


def translate_expr(expr, srcvar, leanvar, params, where):
    """whitelisted field expressions -> (lean expr, kind, field read from the source object or None)"""
    s = squash(expr)
    v = re.escape(srcvar)
    m = re.fullmatch(r"%s\.(\w+)" % v, s)
    if m:
        return "%s.%s" % (leanvar, m.group(1)), "copied", m.group(1)
    m = re.fullmatch(r"%s\.(\w+)\.clone\(\)" % v, s)
    if m:
        return "%s.%s" % (leanvar, m.group(1)), "copied", m.group(1)
    m = re.fullmatch(r"%s\.(\w+)\.len\(\)" % v, s)
    if m:
        return "%s.%s.length" % (leanvar, m.group(1)), "re-derived(len of %s)" % m.group(1), m.group(1)
    m = re.fullmatch(r"\(0\.\.%s\.(\w+)\)\.collect\(\)" % v, s)
    if m:
        return "List.range %s.%s" % (leanvar, m.group(1)), "re-derived(0..%s)" % m.group(1), m.group(1)
    m = re.fullmatch(r"Some\((\w+)\)", s)
    if m and m.group(1) in params:
        return "some %s" % m.group(1), "parameter(%s)" % m.group(1), None
    if s == "None":
        return "none", "reset(None)", None
    if s in DEFAULTS:
        return "default", "defaulted(%s)" % s, None
    raise Unknown("%s: expression `%s` is outside the whitelist (copy / .clone() / .len() / (0..n).collect() / Some(param) / None / default literal)" % (where, " ".join(expr.split())))


def literal_to_lean(items, target, srcvar, leanvar, params, where, report, conv, special=None):
    """struct literal -> Lean structure instance; checks that exactly the target's fields are assigned"""
    names = [n for n, _, _ in target.fields]
    got = [n for n, _ in items]
    if sorted(got) != sorted(names):
        raise Unknown("%s: literal assigns fields %s but struct %s has %s" % (where, got, target.name, names))
    tymap = {n: ty for n, ty, _ in target.fields}
    lines, inh, reads = [], [], []
    for n, e in items:
        if special and n in special:
            lean, kind, rd = special[n]
        elif e is None:
            raise Unknown("%s: shorthand field `%s` without a recognised local binding" % (where, n))
        else:
            lean, kind, rd = translate_expr(e, srcvar, leanvar, params, "%s field `%s`" % (where, n))
        if kind == "copied" and rd != n:
            kind = "cross-copied(from field `%s`)" % rd
        if lean == "default":
            inh.append(tymap[n].lean(False))
        if rd:
            reads.append(rd)
        report.append({"conversion": conv, "field": n, "kind": kind, "source": " ".join((e or n).split())})
        lines.append("      %s := %s" % (n, lean))
    return "{\n" + ",\n".join(lines) + " }", inh, reads



# --------------------------------------------------------------------------------------------
# small imperative bodies over `self` of the tempering container (cache maintenance)
# --------------------------------------------------------------------------------------------
def find_fn_unique(src, name, file):
    """(body, params) of the only `fn name` WITH a body in the file (trait declarations without body are skipped)"""
    hits = []
    for m in re.finditer(r"\bfn\s+%s\b" % re.escape(name), src):
        i = m.end()
        if src[i] == "<":
            depth = 0
            while True:
                if src[i] == "<":
                    depth += 1
                elif src[i] == ">" and src[i - 1] != "-":
                    depth -= 1
                    if depth == 0:
                        break
                i += 1
            i += 1
        p0 = src.index("(", i)
        p1 = match_close(src, p0)
        j = p1 + 1
        while src[j] not in "{;":
            j += 1
        if src[j] == ";":
            continue
        hits.append((src[j + 1 : match_close(src, j)], src[p0 + 1 : p1]))
    if len(hits) != 1:
        raise Unknown("%s: expected exactly one fn %s with a body, found %d" % (file, name, len(hits)))
    return hits[0]


def split_stmts(text, where):
    """top-level statements of a block: `if … {…} [else {…}]` items and `…;` items (a trailing expression is kept)"""
    out, i, n = [], 0, len(text)
    while i < n:
        while i < n and text[i].isspace():
            i += 1
        if i >= n:
            break
        if re.match(r"if\b", text[i:]):
            k = i
            depth = 0
            while text[k] != "{" or depth:
                if text[k] in "([":
                    depth += 1
                elif text[k] in ")]":
                    depth -= 1
                k += 1
            e = match_close(text, k)
            cond, then = text[i + 2 : k], text[k + 1 : e]
            j = e + 1
            els = None
            m = re.match(r"\s*else\s*\{", text[j:])
            if m:
                k2 = j + m.end() - 1
                e2 = match_close(text, k2)
                els = text[k2 + 1 : e2]
                j = e2 + 1
            elif re.match(r"\s*else\b", text[j:]):
                raise Unknown("%s: `else if` chain is not modelled" % where)
            out.append(("if", cond, then, els))
            i = j
            m = re.match(r"\s*;", text[i:])
            if m:
                i += m.end()
        else:
            depth, k = 0, i
            while k < n and (text[k] != ";" or depth):
                if text[k] in "([{":
                    depth += 1
                elif text[k] in ")]}":
                    depth -= 1
                k += 1
            out.append(("stmt", text[i:k], k < n))
            i = k + 1
    return out


def split_op(s, op):
    parts, depth, cur, i = [], 0, "", 0
    while i < len(s):
        if s[i] in "([{":
            depth += 1
        elif s[i] in ")]}":
            depth -= 1
        if depth == 0 and s.startswith(op, i):
            parts.append(cur)
            cur = ""
            i += len(op)
            continue
        cur += s[i]
        i += 1
    parts.append(cur)
    return parts


def translate_cond(c, where):
    c = squash(c)
    while c.startswith("(") and match_close(c, 0) == len(c) - 1:
        c = c[1:-1]
    parts = split_op(c, "||")
    if len(parts) > 1:
        return "(" + " || ".join(translate_cond(x, where) for x in parts) + ")"
    parts = split_op(c, "&&")
    if len(parts) > 1:
        return "(" + " && ".join(translate_cond(x, where) for x in parts) + ")"
    if c.startswith("!"):
        return "(!" + translate_cond(c[1:], where) + ")"
    m = re.fullmatch(r"self\.(\w+)\.is_none\(\)", c)
    if m:
        return "tc.%s.isNone" % m.group(1)
    m = re.fullmatch(r"self\.(\w+)\.is_some\(\)", c)
    if m:
        return "tc.%s.isSome" % m.group(1)
    m = re.fullmatch(r"self\.graphs\.len\(\)%2(==|!=)(\d+)", c)
    if m:
        return "(tc.graphs.length %% 2 %s %s)" % (m.group(1), m.group(2))
    m = re.fullmatch(r"self\.graphs\.is_empty\(\)", c)
    if m:
        return "tc.graphs.isEmpty"
    raise Unknown("%s: condition `%s` is outside the whitelist" % (where, c))


def translate_self_block(text, where, allow, env=None):
    """sequence of whitelisted statements on `self` -> list of Lean `let tc := …` lines (strings).
    allow: set of statement kinds permitted here ("reset", "rebuild", "push", "check", "ok")."""
    env = dict(env or {})
    lines = []
    stmts = split_stmts(text, where)
    for idx, st in enumerate(stmts):
        if st[0] == "if":
            _, cond, then, els = st
            c = translate_cond(cond, where)
            t = translate_self_block(then, where, allow - {"check", "ok", "push"}, env)
            e = translate_self_block(els, where, allow - {"check", "ok", "push"}, env) if els is not None else []
            blk = lambda ls: "(" + "; ".join(ls + ["tc"]) + ")"
            lines.append("let tc := if %s then %s else %s" % (c, blk(t), blk(e)))
            continue
        _, body, has_semi = st
        b = squash(body)
        if not b:
            continue
        m = re.fullmatch(r"self\.(graph_ham_eq_[ab])=None", b)
        if m and "reset" in allow:
            lines.append("let tc := { tc with %s := none }" % m.group(1))
            continue
        m = re.fullmatch(r"letgraphs=self\.make_(first|second)_subgraphs\(\)", b)
        if m and "rebuild" in allow:
            env["graphs"] = m.group(1)
            continue
        m = re.fullmatch(r"self\.(graph_ham_eq_[ab])=Some\(Self::make_eqs_from_graphs\(graphs\)\)", b)
        if m and "rebuild" in allow:
            if "graphs" not in env:
                raise Unknown("%s: `graphs` used before `let graphs = self.make_*_subgraphs()`" % where)
            lines.append("let tc := { tc with %s := some (%s tc.graphs) }" % (m.group(1), "eqsFirst" if env["graphs"] == "first" else "eqsSecond"))
            continue
        if b == "self.graphs.push((q,beta))" and "push" in allow:
            lines.append("let tc := { tc with graphs := tc.graphs ++ [(q, beta)] }")
            continue
        if b == "self.graphs.last().map(|(g,_)|g.can_swap_graphs(&q)).unwrap_or(Ok(()))?" and "check" in allow and idx == 0:
            continue  # the compatibility check: returns Err before anything is modified (modelled as a precondition)
        if b == "Ok(())" and "ok" in allow and idx == len(stmts) - 1 and not has_semi:
            continue
        raise Unknown("%s: statement `%s` is outside the whitelist (reset of a cache to None / rebuild of a cache from a sub-slice / push of the new replica / if-else over is_none, parity)" % (where, " ".join(body.split())))
    return lines

# --------------------------------------------------------------------------------------------
# generation of Fields.lean
# --------------------------------------------------------------------------------------------
PRELUDE = '''/-
GENERATED by tools/extract_fields.py from the Rust sources listed below — DO NOT EDIT.
Regenerated (and re-proved against) on every run of ./check C14 / ./check C13.
Core Lean only.

Reading guide: every Rust struct that derives serde's Serialize becomes a Lean structure over abstract
component types (`F64`, the struct's generic parameters, and one type variable per other named Rust type);
`S.serdeRT` is "serialise with serde, deserialise again" as implied by the `#[serde(..)]` attributes found
(derive semantics trusted); `snapshot` / `restore` / `clone` are the field-by-field bodies of the manual
conversions and `Clone` impls.  `g.rng.unwrap()` is modelled with `Option` (`none` = panic).
-/
namespace Qmc.Gen

/-- `iter.map(f).collect()` where `f` may panic (`unwrap`): `none` as soon as one element fails. -/
def optMapM {α β : Type} (f : α → Option β) : List α → Option (List β)
  | [] => some []
  | a :: l =>
    match f a, optMapM f l with
    | some b, some bs => some (b :: bs)
    | _, _ => none
'''


def norm_list(xs):
    return "[" + ", ".join('"%s"' % x for x in xs) + "]"


def gen_fields(repo):
    srcs = {}
    for root, _, files in os.walk(os.path.join(repo, "src")):
        for f in sorted(files):
            if f.endswith(".rs"):
                p = os.path.join(root, f)
                srcs[os.path.relpath(p, repo)] = strip_comments(open(p).read())
    structs, enums = {}, []
    aliases_by_file = {}
    for file in sorted(srcs):
        src = srcs[file]
        aliases_by_file[file] = find_aliases(src)
        enums += find_enums_with_serde(src, file)
        test_spans = [(a, b) for kind, _, a, b, _, attrs in item_spans(src) if any("#[cfg(test)]" in x for x in attrs)]
        for st in find_structs(src, file):
            pos = sum(len(l) + 1 for l in src.split("\n")[: st.line - 1])
            if any(a <= pos <= b for a, b in test_spans):
                continue  # test-only helper types are not part of the library's snapshot format
            st.serde = has_serialize_derive(st.attrs)
            st.derive_clone = has_clone_derive(st.attrs)
            if st.serde or st.name in ("Qmc", "QmcIsingGraph", "GraphState"):
                if st.name in structs:
                    raise Unknown("two serde structs named %s" % st.name)
                structs[st.name] = st
    n_derives = 0
    for file in sorted(srcs):
        src = srcs[file]
        tspans = [(a, b) for kind, _, a, b, _, attrs in item_spans(src) if any("#[cfg(test)]" in x for x in attrs)]
        for m in re.finditer(r"derive\s*\(([^)]*)\)", src):
            if re.search(r"\bSerialize\b", m.group(1)) and not any(a <= m.start() <= b for a, b in tspans):
                n_derives += 1
    n_found = len([st for st in structs.values() if st.serde]) + len(enums)
    if n_derives != n_found:
        raise Unknown("census: %d `derive(.. Serialize ..)` in non-test code but only %d structs/enums were recognised as serialisable (an attribute or item shape escaped the parser)" % (n_derives, n_found))
    required = ["QmcIsingGraph", "SerializeQmcGraph", "Qmc", "TemperingContainer", "SerializeTemperingContainer",
                "FastOpsTemplate", "FastOpNodeTemplate", "Allocator", "DefaultFastOpAllocator", "BondWeights", "BondContainer",
                "Interaction", "BasicOp", "PRel"]
    if "GraphState" not in structs:
        raise Unknown("struct GraphState (classical sampler) not found")
    for r in required:
        if r not in structs:
            raise Unknown("struct %s not found (or no longer derives Serialize)" % r)
        if not structs[r].serde:
            raise Unknown("struct %s no longer derives Serialize/Deserialize" % r)
    models = {n: Model(structs[n], aliases_by_file[structs[n].file]) for n in sorted(structs)}
    report = []
    for n, mo in models.items():
        for fn, _, mode in mo.fields:
            if mode == "skip":
                report.append({"conversion": "serde(%s)" % n, "field": fn, "kind": "skipped(serde skip -> Default)", "source": "#[serde(skip..)]"})
            elif mode and mode[0] == "with":
                report.append({"conversion": "serde(%s)" % n, "field": fn, "kind": "re-derived(with = %s: only the length is stored)" % mode[1], "source": "#[serde(with..)]"})

    out = [PRELUDE]
    out.append("/-! ## Structures and serde round trips (one per struct deriving Serialize/Deserialize) -/\n")
    rt_params = {}
    for n in sorted(models):
        mo = models[n]
        out.append(mo.lean_structure() + "\n")
        if not mo.st.serde:
            continue
        txt, usedp = mo.lean_serde_rt()
        rt_params[n] = usedp
        out.append(txt + "\n")

    # ---- numeric_serialize shape check -------------------------------------------------------
    alloc_src = srcs[structs["Allocator"].file]
    mm = re.search(r"mod\s+numeric_serialize\s*\{", alloc_src)
    if not mm:
        raise Unknown("util/allocator.rs: mod numeric_serialize not found")
    k = alloc_src.index("{", mm.start())
    body = squash(alloc_src[k : match_close(alloc_src, k) + 1])
    if "letn=t.len();s.serialize_u64(nasu64)" not in body:
        raise Unknown("numeric_serialize::serialize no longer has the shape `let n = t.len(); s.serialize_u64(n as u64)`")
    if "lets:u64=Deserialize::deserialize(d)?;Ok((0..s).map(|_|T::default()).collect())" not in body:
        raise Unknown("numeric_serialize::deserialize no longer has the shape `let s: u64 = ..; Ok((0..s).map(|_| T::default()).collect())` (pool restored with something else than the saved count)")
    report.append({"conversion": "numeric_serialize", "field": "instances", "kind": "shape-checked(len -> u64 -> len defaults)", "source": "util/allocator.rs mod numeric_serialize"})

    # ---- Ising snapshot / restore -------------------------------------------------------------
    isrc = srcs[structs["QmcIsingGraph"].file]
    G, SG = models["QmcIsingGraph"], models["SerializeQmcGraph"]
    allp = list(dict.fromkeys(G.all_params() + SG.all_params()))

    body, params = find_impl_fn(isrc, r"impl<R,M>From<QmcIsingGraph<R,M>>for\(SerializeQmcGraph<M>,R\)where.*", "from", G.st.file)
    pm = re.fullmatch(r"(\w+):QmcIsingGraph<R,M>", squash(params))
    if not pm:
        raise Unknown("From<QmcIsingGraph> for (SerializeQmcGraph, R): parameter list %r" % params)
    gv = pm.group(1)
    stmts = [s for s in split_top(body, ";")]
    if len(stmts) != 2:
        raise Unknown("From<QmcIsingGraph> for (SerializeQmcGraph, R): body is not `let sg = SerializeQmcGraph {..}; (sg, g.rng.unwrap())`")
    lm = re.fullmatch(r"\s*let\s+(\w+)\s*=\s*(.*)", stmts[0], re.S)
    if not lm:
        raise Unknown("From<QmcIsingGraph>…: first statement is not a let")
    sgv = lm.group(1)
    if squash(stmts[1]) != "(%s,%s.rng.unwrap())" % (sgv, gv):
        raise Unknown("From<QmcIsingGraph>…: result is not `(%s, %s.rng.unwrap())` but `%s`" % (sgv, gv, squash(stmts[1])))
    items = parse_struct_literal(lm.group(2), ["SerializeQmcGraph"], "QmcIsingGraph.snapshot")
    lit, inh, reads = literal_to_lean(items, SG, gv, "g", [], "QmcIsingGraph.snapshot", report, "QmcIsingGraph.snapshot")
    reads.append("rng")
    for n, _, _ in G.fields:
        if n not in reads:
            report.append({"conversion": "QmcIsingGraph.snapshot", "field": n, "kind": "dropped(not read by the snapshot conversion)", "source": "-"})
    out.append("/-! ## Ising sampler: RNG-less snapshot and restore (qmc_ising.rs `mod serialization`) -/\n")
    out.append("/-- `impl From<QmcIsingGraph<R, M>> for (SerializeQmcGraph<M>, R)` -/")
    out.append("def QmcIsingGraph.snapshot {%s : Type}%s\n    (g : %s) : Option (%s × R) :=\n  match g.rng with\n  | none => none\n  | some rng => some (\n    (%s : %s), rng)\n" % (
        " ".join(allp), "".join(" [Inhabited %s]" % t for t in dict.fromkeys(inh)), G.applied(), SG.applied(), lit, SG.applied()))

    body, _ = find_impl_fn(isrc, r"impl<R,M>From<QmcIsingGraph<R,M>>forSerializeQmcGraph<M>where.*", "from", G.st.file)
    if squash(body) != "let(sg,_)=g.into();sg":
        raise Unknown("From<QmcIsingGraph> for SerializeQmcGraph: body is not `let (sg, _) = g.into(); sg`")

    body, params = find_impl_fn(isrc, r"impl<M>SerializeQmcGraph<M>where.*", "into_qmc", G.st.file)
    pm = re.fullmatch(r"self,(\w+):R", squash(params))
    if not pm:
        raise Unknown("SerializeQmcGraph::into_qmc: parameter list %r" % params)
    rngp = pm.group(1)
    items = parse_struct_literal(body, ["QmcIsingGraph"], "SerializeQmcGraph.restore")
    lit, inh, reads = literal_to_lean(items, G, "self", "sg", [rngp], "SerializeQmcGraph.restore", report, "SerializeQmcGraph.restore")
    for n, _, _ in SG.fields:
        if n not in reads:
            report.append({"conversion": "SerializeQmcGraph.restore", "field": n, "kind": "dropped(not read by into_qmc)", "source": "-"})
    out.append("/-- `SerializeQmcGraph::into_qmc(self, rng)` -/")
    out.append("def SerializeQmcGraph.restore {%s : Type}%s\n    (sg : %s) (%s : R) : %s :=\n    %s\n" % (
        " ".join(allp), "".join(" [Inhabited %s]" % t for t in dict.fromkeys(inh)), SG.applied(), rngp, G.applied(), lit))

    # ---- manual Clone impls ---------------------------------------------------------------------
    out.append("/-! ## Manual `Clone` impls -/\n")
    for sname, hdr in (("QmcIsingGraph", r"impl<R,M>CloneforQmcIsingGraph<R,M>where.*"), ("Qmc", r"impl<R,M>CloneforQmc<R,M>where.*"),
                       ("GraphState", r"impl<R:Rng\+Clone>CloneforGraphState<R>")):
        mo = models[sname]
        body, params = find_impl_fn(srcs[mo.st.file], hdr, "clone", mo.st.file)
        if squash(params) != "&self":
            raise Unknown("%s::clone: parameter list %r" % (sname, params))
        items = parse_struct_literal(body, ["Self", sname], sname + ".clone")
        lit, inh, reads = literal_to_lean(items, mo, "self", "x", [], sname + ".clone", report, sname + ".clone")
        ps = mo.all_params()
        out.append("/-- `impl Clone for %s` (every `.clone()` of a component is a structural copy: trusted std/derive semantics) -/" % sname)
        out.append("def %s.clone {%s : Type}%s\n    (x : %s) : %s :=\n    %s\n" % (
            sname, " ".join(ps), "".join(" [Inhabited %s]" % t for t in dict.fromkeys(inh)), mo.applied(), mo.applied(), lit))

    manual = []
    for file in sorted(srcs):
        for m in re.finditer(r"^[ \t]*impl\b[^{;]*\bClone\s+for\s+([A-Za-z_]\w*)", srcs[file], re.M):
            manual.append(m.group(1))
            # a hand-written impl may also override `clone_from`: every statement must copy the same-named field
            src2 = srcs[file]
            kk = src2.index("{", m.start())
            ibody = src2[kk + 1 : match_close(src2, kk)]
            fns = re.findall(r"\bfn\s+([A-Za-z_]\w*)", ibody)
            if sorted(set(fns)) not in (["clone"], ["clone", "clone_from"]):
                raise Unknown("impl Clone for %s defines %s (only clone / clone_from are modelled)" % (m.group(1), fns))
            if "clone_from" in fns:
                cm = re.search(r"\bfn\s+clone_from\s*\(\s*&mut\s+self\s*,\s*(\w+)\s*:\s*&Self\s*\)\s*\{", ibody)
                if not cm:
                    raise Unknown("impl Clone for %s: clone_from signature not understood" % m.group(1))
                srcv = cm.group(1)
                cb = ibody[cm.end() - 1 :]
                cbody = cb[1 : match_close(cb, 0)]
                copied = []
                for st in split_top(cbody, ";"):
                    b = squash(st)
                    if not b:
                        continue
                    mm = re.fullmatch(r"self\.(\w+)\.clone_from\(&%s\.(\w+)\)" % srcv, b) or re.fullmatch(r"self\.(\w+)=%s\.(\w+)(?:\.clone\(\))?" % srcv, b)
                    if not mm or mm.group(1) != mm.group(2):
                        raise Unknown("impl Clone for %s: hand-written clone_from does not copy verbatim: `%s` (dst.clone_from(&src) must end equal to src.clone(); e.g. keeping the destination's larger cutoff is not a copy)" % (m.group(1), " ".join(st.split())))
                    copied.append(mm.group(1))
                allf = [f for f, _, _ in models[m.group(1)].fields]
                if sorted(copied) != sorted(allf):
                    raise Unknown("impl Clone for %s: clone_from copies %s but the struct has %s" % (m.group(1), copied, allf))
                report.append({"conversion": m.group(1) + ".clone_from", "field": "*", "kind": "copied", "source": "clone_from"})
    if sorted(manual) != ["GraphState", "Qmc", "QmcIsingGraph"]:
        raise Unknown("manual Clone impls in the crate are %s; modelled: GraphState, Qmc, QmcIsingGraph" % sorted(manual))
    out.append("/-- every hand-written `impl Clone` in the crate (all modelled above) -/")
    out.append("def manualClone : List String := %s\n" % norm_list(sorted(manual)))

    # ---- tempering container snapshot / restore -------------------------------------------------
    tsrc = srcs[structs["TemperingContainer"].file]
    T, ST = models["TemperingContainer"], models["SerializeTemperingContainer"]
    if T.all_params() != ["F64", "R", "Q"]:
        raise Unknown("TemperingContainer: parameters %s (expected F64 R Q)" % T.all_params())
    if len(ST.params) != 1:
        raise Unknown("SerializeTemperingContainer: expected exactly one component type (the RNG-less replica), got %s" % ST.params)
    sq = ST.params[0]
    body, params = find_impl_fn(tsrc, r"impl<R1,R2,M>From<TemperingContainer<R1,QmcIsingGraph<R2,M>>>for\(SerializeTemperingContainer<M>,R1,Vec<R2>\)where.*", "from", T.st.file)
    pm = re.fullmatch(r"(\w+):TemperingContainer<R1,QmcIsingGraph<R2,M>>,?", squash(params))
    if not pm:
        raise Unknown("From<TemperingContainer> for (Serialize.., R1, Vec<R2>): parameter list %r" % params)
    tv = pm.group(1)
    stmts = split_top(body, ";")
    if len(stmts) != 3:
        raise Unknown("From<TemperingContainer> for (.., R1, Vec<R2>): expected `let (graphs, rngs) = ..; let sg = ..; (sg, tc.rng.unwrap(), rngs)`")
    want0 = "let(graphs,rngs)=%s.graphs.into_iter().map(|(g,beta)|{let(sg,rng)=g.into();((sg,beta),rng)}).unzip()" % tv
    if squash(stmts[0]) != want0:
        raise Unknown("From<TemperingContainer>…: replica conversion chain changed: `%s`" % " ".join(stmts[0].split()))
    lm = re.fullmatch(r"\s*let\s+(\w+)\s*=\s*(.*)", stmts[1], re.S)
    if not lm or squash(stmts[2]) != "(%s,%s.rng.unwrap(),rngs)" % (lm.group(1), tv):
        raise Unknown("From<TemperingContainer>…: result is not `(sg, %s.rng.unwrap(), rngs)`" % tv)
    items = parse_struct_literal(lm.group(2), ["SerializeTemperingContainer"], "TemperingContainer.snapshot")
    special = {"graphs": ("pairs.unzip.1", "converted(each replica through QmcIsingGraph.snapshot)", "graphs")}
    items2 = [(n, e) for n, e in items]
    lit, inh, reads = literal_to_lean(items2, ST, tv, "tc", [], "TemperingContainer.snapshot", report, "TemperingContainer.snapshot", special)
    reads.append("rng")
    for n, _, _ in T.fields:
        if n not in reads:
            report.append({"conversion": "TemperingContainer.snapshot", "field": n, "kind": "dropped(not read by the snapshot conversion)", "source": "-"})
    f64 = "F64 " if True else ""
    out.append("/-! ## Tempering container: RNG-less snapshot and restore (tempering_container.rs `mod serialization`) -/\n")
    out.append("/-- `impl From<TemperingContainer<R1, QmcIsingGraph<R2, M>>> for (SerializeTemperingContainer<M>, R1, Vec<R2>)`;\n`snapG` is the replica conversion `g.into()` (instantiate with `QmcIsingGraph.snapshot`). -/")
    out.append("def TemperingContainer.snapshot {F64 R1 R2 Q %s : Type}%s (snapG : Q → Option (%s × R2))\n    (tc : TemperingContainer F64 R1 Q) : Option (%s × R1 × List R2) :=\n  match optMapM (fun (p : Q × F64) => (snapG p.1).map (fun sr => ((sr.1, p.2), sr.2))) tc.graphs, tc.rng with\n  | some pairs, some rng => some (\n    (%s : %s), rng, pairs.unzip.2)\n  | _, _ => none\n" % (
        sq, "".join(" [Inhabited %s]" % t for t in dict.fromkeys(inh)), sq, ST.applied(), lit, ST.applied()))

    body, _ = find_impl_fn(tsrc, r"impl<R1,R2,M>From<TemperingContainer<R1,QmcIsingGraph<R2,M>>>forSerializeTemperingContainer<M>where.*", "from", T.st.file)
    items = parse_struct_literal(body, ["SerializeTemperingContainer"], "TemperingContainer -> SerializeTemperingContainer")
    got = {n: squash(e or n) for n, e in items}
    want = {"graphs": "tc.graphs.into_iter().map(|(g,beta)|(g.into(),beta)).collect()", "total_swaps": "tc.total_swaps"}
    if got != want:
        raise Unknown("From<TemperingContainer> for SerializeTemperingContainer (RNG-dropping form) changed shape: %s" % got)

    body, params = find_impl_fn(tsrc, r"impl<M>SerializeTemperingContainer<M>where.*", "into_tempering_container", T.st.file)
    if squash(params) != "self,container_rng:R1,graph_rngs:It,":
        raise Unknown("into_tempering_container: parameter list %r" % squash(params))
    items = parse_struct_literal(body, ["TemperingContainer"], "SerializeTemperingContainer.restore")
    gexpr = dict(items).get("graphs")
    want = "self.graphs.into_iter().zip(graph_rngs.into_iter()).map(|((g,beta),rng)|(g.into_qmc(rng),beta)).collect()"
    if gexpr is None or squash(gexpr) != want:
        raise Unknown("into_tempering_container field `graphs`: replica restore chain changed: `%s`" % " ".join((gexpr or "").split()))
    special = {"graphs": ("(st.graphs.zip graph_rngs).map (fun p => (restoreG p.1.1 p.2, p.1.2))", "converted(each replica through SerializeQmcGraph.restore with its rng)", "graphs")}
    lit, inh, reads = literal_to_lean(items, T, "self", "st", ["container_rng"], "SerializeTemperingContainer.restore", report, "SerializeTemperingContainer.restore", special)
    for n, _, _ in ST.fields:
        if n not in reads:
            report.append({"conversion": "SerializeTemperingContainer.restore", "field": n, "kind": "dropped(not read by into_tempering_container)", "source": "-"})
    out.append("/-- `SerializeTemperingContainer::into_tempering_container(self, container_rng, graph_rngs)`;\n`restoreG` is `g.into_qmc(rng)` (instantiate with `SerializeQmcGraph.restore`). -/")
    out.append("def SerializeTemperingContainer.restore {F64 R1 R2 Q %s : Type}%s (restoreG : %s → R2 → Q)\n    (st : %s) (container_rng : R1) (graph_rngs : List R2) : TemperingContainer F64 R1 Q :=\n    %s\n" % (
        sq, "".join(" [Inhabited %s]" % t for t in dict.fromkeys(inh)), sq, ST.applied(), lit))

    body, _ = find_impl_fn(tsrc, r"impl<M>SerializeTemperingContainer<M>where.*", "into_tempering_container_from_vec", T.st.file)
    if squash(body) != "assert_eq!(self.graphs.len(),graph_rngs.len());self.into_tempering_container(container_rng,graph_rngs.into_iter())":
        raise Unknown("into_tempering_container_from_vec changed shape")

    # ---- tempering container: construction, add_qmc_stepper, cache maintenance ---------------------
    timpl = r"impl<R,Q>TemperingContainer<R,Q>where.*"
    out.append("/-! ## Tempering container: `new`, `add_qmc_stepper`, and who writes the `graph_ham_eq_*` caches -/\n")
    body, params = find_impl_fn(tsrc, timpl, "new", T.st.file)
    pm = re.fullmatch(r"(\w+):R", squash(params))
    if not pm:
        raise Unknown("TemperingContainer::new: parameter list %r" % params)
    items = parse_struct_literal(body, ["Self", "TemperingContainer"], "TemperingContainer.new")
    lit, inh, _ = literal_to_lean(items, T, "self", "tc", [pm.group(1)], "TemperingContainer.new", report, "TemperingContainer.new")
    out.append("/-- `TemperingContainer::new(rng)` -/")
    out.append("def TemperingContainer.new {F64 R Q : Type} (%s : R) : TemperingContainer F64 R Q :=\n    %s\n" % (pm.group(1), lit.replace(":= default", ":= default")))

    body, params = find_impl_fn(tsrc, timpl, "add_qmc_stepper", T.st.file)
    if squash(params) != "&mutself,q:Q,beta:f64":
        raise Unknown("add_qmc_stepper: parameter list %r" % squash(params))
    lines = translate_self_block(body, "TemperingContainer::add_qmc_stepper", {"reset", "push", "check", "ok"})
    if not any("graphs ++" in l for l in lines):
        raise Unknown("add_qmc_stepper no longer pushes the new replica")
    out.append("/-- `add_qmc_stepper(&mut self, q, beta)` after the `can_swap_graphs` check passed (on `Err` nothing is modified):\nwhich caches are reset, under which guard, and the push -/")
    out.append("def TemperingContainer.addQmcStepper {F64 R Q : Type} (tc : TemperingContainer F64 R Q) (q : Q) (beta : F64) :\n    TemperingContainer F64 R Q :=\n  %s\n  tc\n" % "\n  ".join(lines))
    report.append({"conversion": "TemperingContainer.add_qmc_stepper", "field": "graph_ham_eq_a/b", "kind": "statements(%s)" % " | ".join(lines), "source": "add_qmc_stepper"})

    body, params = find_impl_fn(tsrc, timpl, "make_ham_equalities", T.st.file)
    if squash(params) != "&mutself":
        raise Unknown("make_ham_equalities: parameter list %r" % squash(params))
    lines = translate_self_block(body, "TemperingContainer::make_ham_equalities", {"rebuild"})
    out.append("/-- `make_ham_equalities(&mut self)`: `eqsFirst` / `eqsSecond` stand for `make_eqs_from_graphs(make_first/second_subgraphs())` -/")
    out.append("def TemperingContainer.makeHamEqualities {F64 R Q : Type} (eqsFirst eqsSecond : List (Q × F64) → List Bool)\n    (tc : TemperingContainer F64 R Q) : TemperingContainer F64 R Q :=\n  %s\n  tc\n" % "\n  ".join(lines))
    report.append({"conversion": "TemperingContainer.make_ham_equalities", "field": "graph_ham_eq_a/b", "kind": "statements(%s)" % " | ".join(lines), "source": "make_ham_equalities"})

    guards = []
    for fname in ("tempering_step", "parallel_tempering_step"):
        fbody, _ = find_fn_unique(tsrc, fname, T.st.file)
        sq = squash(fbody)
        if sq.count("make_ham_equalities") != 1:
            raise Unknown("%s: expected exactly one call of make_ham_equalities" % fname)
        gm = re.search(r"if((?:(?!if|\{).)*)\{self\.make_ham_equalities\(\)\}", sq)
        if not gm:
            raise Unknown("%s: the call of make_ham_equalities is not of the form `if <guard> { self.make_ham_equalities() }`" % fname)
        guards.append(translate_cond(gm.group(1), fname + " cache guard"))
    if guards[0] != guards[1]:
        raise Unknown("tempering_step and parallel_tempering_step guard make_ham_equalities differently: %s vs %s" % tuple(guards))
    if len(re.findall(r"\bmake_ham_equalities\s*\(", tsrc)) != 3:
        raise Unknown("make_ham_equalities is called from somewhere else than the two tempering steps")
    out.append("/-- the guard under which `tempering_step` and `parallel_tempering_step` call `make_ham_equalities` -/")
    out.append("def TemperingContainer.rebuildGuard {F64 R Q : Type} (tc : TemperingContainer F64 R Q) : Bool :=\n  %s\n" % guards[0])
    report.append({"conversion": "TemperingContainer.tempering_step", "field": "graph_ham_eq_a/b", "kind": "guard(%s)" % guards[0], "source": "tempering_step / parallel_tempering_step"})

    # the two swap routines: draw order and zip structure (modelled by hand as performSwaps / parPerformSwaps)
    want_ser = "assert_eq!(graphs.len()%2,0);ifgraphs.is_empty(){0}else{graphs.iter_mut().chunks(2).into_iter().map(unwrap_chunk).map(|x|(x,rng.gen_range(0...1.0))).zip(hameqs.iter()).map(|(((ga,gb),p),eq)|ifswap_on_chunks(ga,gb,p,!eq){1}else{0}).sum()}"
    want_par = "assert_eq!(graphs.len()%2,0);ifgraphs.is_empty(){0}else{letprobs=(0..graphs.len()/2).map(|_|rng.gen_range(0...1.0)).collect::<Vec<_>>();graphs.par_iter_mut().chunks(2).map(|g|unwrap_chunk(g.into_iter())).zip(probs.into_par_iter()).zip(hameqs.into_par_iter()).map(|(((ga,gb),p),eq)|ifswap_on_chunks(ga,gb,p,!eq){1}else{0}).sum()}"
    for fname, want in (("perform_swaps", want_ser), ("parallel_perform_swaps", want_par)):
        fbody, _ = find_fn_unique(tsrc, fname, T.st.file)
        if squash(fbody) != want:
            raise Unknown("%s changed shape (modelled: one uniform per pair of the sub-slice — ALL graphs.len()/2 of them, drawn in pair order, zipped with the cached equalities): `%s`" % (fname, " ".join(fbody.split())))

    # the phases take a cache out and put the same vector back (shape-checked; modelled by hand as "unchanged")
    for fname, fld, sub, sw, recv in (("tempering_a", "a", "first", "perform_swaps", "self"), ("tempering_b", "b", "second", "perform_swaps", "self"),
                                      ("parallel_tempering_a", "a", "first", "parallel_perform_swaps", "tc"), ("parallel_tempering_b", "b", "second", "perform_swaps", "tc")):
        fbody, _ = find_fn_unique(tsrc, fname, T.st.file)
        want = "lethameqs=%s.graph_ham_eq_%s.take().unwrap();letgraphs=%s.make_%s_subgraphs();%s.total_swaps+=%s(rng,graphs,&hameqs);%s.graph_ham_eq_%s=Some(hameqs);" % (recv, fld, recv, sub, recv, sw, recv, fld)
        if squash(fbody) != want:
            raise Unknown("%s changed shape (expected: take the cache, swap on the %s sub-slice through %s, put the same cache back): `%s`" % (fname, sub, sw, " ".join(fbody.split())))
    # census of every other write to the caches / to the replica list
    spans = item_spans(tsrc)
    writers = set()
    for m in re.finditer(r"\bgraph_ham_eq_[ab]\s*=(?!=)|\bgraph_ham_eq_[ab]\s*\.\s*(?:take|replace|insert|get_or_insert\w*|as_mut)\b", tsrc):
        fns = [sp for sp in spans if sp[0] == "fn" and sp[2] <= m.start() <= sp[3]]
        writers.add(max(fns, key=lambda sp: sp[2])[1] if fns else "-")
    allowed_writers = {"add_qmc_stepper", "make_ham_equalities", "tempering_a", "tempering_b", "parallel_tempering_a", "parallel_tempering_b"}
    if not writers <= allowed_writers:
        raise Unknown("the graph_ham_eq caches are also written in %s (not modelled)" % sorted(writers - allowed_writers))
    growers = set()
    for m in re.finditer(r"\bgraphs\s*\.\s*(?:push|pop|remove|insert|truncate|clear|retain|drain|swap_remove|extend|append|resize\w*|sort\w*|reverse|rotate\w*)\s*\(", tsrc):
        fns = [sp for sp in spans if sp[0] == "fn" and sp[2] <= m.start() <= sp[3]]
        fn = max(fns, key=lambda sp: sp[2]) if fns else None
        if fn and any("#[cfg(test)]" in x or "#[test]" in x for sp in spans if sp[2] <= m.start() <= sp[3] for x in sp[5]):
            continue
        growers.add(fn[1] if fn else "-")
    if not growers <= {"add_qmc_stepper", "unwrap_chunk"}:
        raise Unknown("the replica list is also restructured in %s (not modelled)" % sorted(growers - {"add_qmc_stepper", "unwrap_chunk"}))
    out.append("/-- every fn that writes a `graph_ham_eq_*` cache (all modelled or shape-checked) -/")
    out.append("def cacheWriters : List String := %s\n" % norm_list(sorted(writers)))

    # ---- scratch pool: what `reset()` does to an instance handed back (shape checks, fail closed) ---------
    asrc = srcs[structs["Allocator"].file]
    bsrc = srcs[structs["BondContainer"].file]
    body, _ = find_fn_unique(asrc, "return_instance", structs["Allocator"].file)
    sq = squash(body)
    if not (sq.startswith("t.reset();") and sq.endswith("self.instances.push(t)")):
        raise Unknown("Allocator::return_instance no longer has the shape `t.reset(); …; self.instances.push(t)`")
    resets = {}
    for m in re.finditer(r"^[ \t]*impl\b([^{;]*)\bReset\s+for\s+([A-Za-z_]\w*)", asrc + "\n" + bsrc, re.M):
        src2 = asrc + "\n" + bsrc
        k = src2.index("{", m.start())
        ibody = src2[k + 1 : match_close(src2, k)]
        rm = re.search(r"\bfn\s+reset\s*\(\s*&mut\s+self\s*\)\s*\{", ibody)
        if not rm:
            raise Unknown("impl Reset for %s: fn reset not found" % m.group(2))
        rb = ibody[rm.end() - 1 :]
        resets[m.group(2)] = squash(rb[1 : match_close(rb, 0)])
    want_resets = {"Vec": "self.clear()", "BinaryHeap": "self.clear()", "BondContainer": "self.clear();"}
    if resets != want_resets:
        raise Unknown("impl Reset bodies changed: %s (expected %s)" % (resets, want_resets))
    body, _ = find_fn_unique(bsrc, "clear", structs["BondContainer"].file)
    want_clear = "letkeys=&mutself.keys;letmap=&mutself.map;keys.iter().map(|(t,_)|t).for_each(|k|{letbond=k.clone().into();map[bond]=None});keys.clear();self.total_weight=0.;"
    if squash(body) != want_clear:
        raise Unknown("BondContainer::clear (= the Reset of a pooled container) changed shape: `%s` — expected: unmap every key, keys.clear(), total_weight = 0. unconditionally (modelled as Snap.bcClear; a path that skips one of the three leaves hidden state in the pool that a snapshot does not carry)" % " ".join(body.split()))
    bc_fields = [f for f, _, _ in models["BondContainer"].fields]
    if bc_fields != ["map", "keys", "total_weight"]:
        raise Unknown("BondContainer fields are %s; the reset model covers map, keys, total_weight" % bc_fields)
    out.append("/-! ## Scratch pool reset (shape-checked: `return_instance` resets before pooling; `BondContainer::clear` unmaps every\nkey, clears `keys` and zeroes `total_weight` unconditionally — modelled by hand as `Snap.bcClear`) -/\n")
    out.append("def resetImpls : List (String × String) := [%s]\n" % ", ".join('("%s", "%s")' % (k2, v) for k2, v in sorted(resets.items())))
    report.append({"conversion": "pool reset", "field": "BondContainer::clear", "kind": "shape-checked(unmap keys; keys.clear(); total_weight = 0.)", "source": "util/bondcontainer.rs"})

    # ---- metadata -------------------------------------------------------------------------------
    out.append("/-! ## Metadata used by the driver (JSON keys the real serde output must have) and by the report -/\n")
    out.append("/-- struct name ↦ keys that serde writes (fields without `skip`) -/")
    out.append("def serdeKeys : List (String × List String) := [")
    out.append(",\n".join('  ("%s", %s)' % (n, norm_list(models[n].serde_keys())) for n in sorted(models) if models[n].st.serde))
    out.append("]\n")
    out.append("/-- (struct, field) stored as a bare length (`with = \"numeric_serialize\"`) -/")
    out.append("def numericFields : List (String × String) := [%s]\n" % ", ".join('("%s", "%s")' % (n, f) for n in sorted(models) for f, _, mode in models[n].fields if mode and mode[0] == "with"))
    out.append("/-- struct name ↦ all fields -/")
    out.append("def structFields : List (String × List String) := [")
    out.append(",\n".join('  ("%s", %s)' % (n, norm_list([f for f, _, _ in models[n].fields])) for n in sorted(models)))
    out.append("]\n")
    out.append("/-- structs whose `Clone` is derived (field-wise copy, trusted) -/")
    out.append("def derivedClone : List String := %s\n" % norm_list([n for n in sorted(models) if models[n].st.derive_clone]))
    out.append("/-- enums deriving Serialize (checked: no serde attribute) -/")
    out.append("def serdeEnums : List String := %s\n" % norm_list(sorted(enums)))
    out.append("/-- (conversion, field, kind) for every field that is not a verbatim copy -/")
    nonverb = [r for r in report if r["kind"] != "copied"]
    out.append("def nonVerbatim : List (String × String × String) := [")
    out.append(",\n".join('  ("%s", "%s", "%s")' % (r["conversion"], r["field"], r["kind"].replace('"', "'")) for r in nonverb))
    out.append("]\n")
    out.append("end Qmc.Gen\n")
    return "\n".join(out), report


# --------------------------------------------------------------------------------------------
# ambient-state scan (C13)
# --------------------------------------------------------------------------------------------
AMBIENT_TOKENS = [
    ("thread_rng", r"\bthread_rng\b"),
    ("ThreadRng", r"\bThreadRng\b"),
    ("from_entropy", r"\bfrom_entropy\b"),
    ("OsRng", r"\bOsRng\b"),
    ("rand::random", r"\brand::random\b"),
    ("getrandom", r"\bgetrandom\b"),
    ("HashMap", r"\bHashMap\b"),
    ("HashSet", r"\bHashSet\b"),
    ("RandomState", r"\bRandomState\b"),
    ("thread_local", r"\bthread_local!"),
    ("static mut", r"\bstatic\s+mut\b"),
    ("static", r"^\s*(?:pub(?:\([a-z]+\))?\s+)?static\s+[A-Z_]+\s*:"),
    ("lazy_static", r"\blazy_static\b|\bonce_cell\b|\bOnceLock\b|\bOnceCell\b|\bLazyLock\b"),
    ("Rc", r"\bRc\b"),
    ("Arc", r"\bArc\b"),
    ("RefCell", r"\bRefCell\b"),
    ("Cell", r"\bCell\b"),
    ("Mutex", r"\bMutex\b"),
    ("RwLock", r"\bRwLock\b"),
    ("Atomic", r"\bAtomic[A-Z]\w*\b"),
    ("Instant", r"\bInstant\b"),
    ("SystemTime", r"\bSystemTime\b"),
    ("std::time", r"\bstd::time\b"),
    ("std::env", r"\bstd::env\b|\benv::var\b"),
    ("std::process", r"\bprocess::id\b|\bthread::current\b|\bcurrent_thread_index\b|\bcurrent_num_threads\b"),
    ("ptr-as-int", r"as\s+\*const\b|as\s+\*mut\b|\.as_ptr\(\)\s+as\s+usize"),
]
# functions that take no rng argument *by design* and forward to the `_with_rng` form with the thread rng;
# a call of one of them from library code is itself an ambient use (kind "wrapper-call")
WRAPPERS = ["new_qmc", "new_thread_rng", "make_diagonal_update", "make_loop_update", "make_heatbath_diagonal_update"]


def item_spans(src):
    """(kind, name, start, end, header) for every fn and mod with a body, plus cfg attributes directly above"""
    spans = []
    for m in re.finditer(r"\b(fn|mod)\s+([A-Za-z_]\w*)", src):
        kind, name = m.group(1), m.group(2)
        # find body start: first `{` before a `;` at bracket depth 0 after the header
        i = m.end()
        depth = 0
        body = None
        while i < len(src):
            c = src[i]
            if c in "([":
                depth += 1
            elif c in ")]":
                depth -= 1
            elif c == ";" and depth == 0:
                break
            elif c == "{" and depth == 0:
                body = i
                break
            i += 1
        if body is None:
            continue
        end = match_close(src, body)
        attrs = leading_attrs(src, src.rfind("\n", 0, m.start()) + 1)
        spans.append((kind, name, m.start(), end, src[m.start() : body], [squash(a) for a in attrs]))
    return spans


def gen_ambient(repo):
    uses = []
    for root, _, files in os.walk(os.path.join(repo, "src")):
        for f in sorted(files):
            if not f.endswith(".rs"):
                continue
            p = os.path.join(root, f)
            rel = os.path.relpath(p, repo)
            src = strip_comments(open(p).read())
            spans = item_spans(src)
            lines = src.split("\n")
            offs = [0]
            for l in lines:
                offs.append(offs[-1] + len(l) + 1)
            toks = AMBIENT_TOKENS + [("wrapper-call:" + w, r"(?<!fn\s)(?<![A-Za-z0-9_])%s\s*(?:::<[^>]*>)?\(" % w) for w in WRAPPERS]
            for ln, l in enumerate(lines):
                for tok, rx in toks:
                    for m in re.finditer(rx, l):
                        pos = offs[ln] + m.start()
                        if tok.startswith("wrapper-call") and re.search(r"\bfn\s+$", l[: m.start()]):
                            continue
                        encl = [s for s in spans if s[2] <= pos <= s[3]]
                        fns = [s for s in encl if s[0] == "fn"]
                        fn = max(fns, key=lambda s: s[2]) if fns else None
                        in_test = any("#[cfg(test)]" in s[5] or "#[test]" in s[5] for s in encl)
                        in_hook = any("#[cfg(qmc_verif)]" in s[5] for s in encl)
                        takes_rng = bool(fn and re.search(r"\bRng\b|\brng\b|\bRngCore\b", fn[4]))
                        kind = "use" if re.match(r"\s*(pub\s+)?use\s", l) else ("call" if tok.startswith("wrapper-call") else "code")
                        uses.append((rel, ln + 1, tok, fn[1] if fn else "-", takes_rng, in_test, in_hook, kind))
    uses = sorted(set(uses))
    librs = strip_comments(open(os.path.join(repo, "src", "lib.rs")).read())
    forbid_unsafe = bool(re.search(r"#!\[forbid\(unsafe_code\)\]", squash(librs)))
    unsafe_count = 0
    for root, _, files in os.walk(os.path.join(repo, "src")):
        for f in sorted(files):
            if f.endswith(".rs"):
                unsafe_count += len(re.findall(r"\bunsafe\b", strip_comments(open(os.path.join(root, f)).read()).replace("unsafe_code", "")))
    out = ['''/-
GENERATED by tools/extract_fields.py (ambient-state scan of /repo/src) — DO NOT EDIT.
One entry per occurrence of a token through which state from outside the object could enter a run:
thread / OS randomness, hash iteration order, statics and thread-locals, interior mutability and
shared ownership, clocks, environment, thread identity, pointer-to-integer casts; plus every *call*
of a thread-rng convenience wrapper.  Core Lean only.
-/
namespace Qmc.Gen

structure AmbientUse where
  file : String
  line : Nat
  token : String
  /-- innermost enclosing fn (`-` = item level) -/
  fn : String
  /-- the enclosing fn's signature mentions `Rng` / `rng` (it is an rng-parameterised path) -/
  fnTakesRng : Bool
  /-- inside `#[cfg(test)]` / `#[test]` -/
  inTest : Bool
  /-- inside a `#[cfg(qmc_verif)]` verification hook (write-only logs, absent from normal builds) -/
  inHook : Bool
  /-- `use` = import line, `call` = call of a thread-rng wrapper, `code` = anything else -/
  kind : String
  deriving Repr, DecidableEq

/-- functions that take no rng argument by design (documented thread-rng convenience wrappers) -/
def threadRngWrappers : List String := %s

def ambientUses : List AmbientUse := [''' % norm_list(WRAPPERS)]
    out.append(",\n".join('  ⟨"%s", %d, "%s", "%s", %s, %s, %s, "%s"⟩' % (a, b, c, d, str(e).lower(), str(f).lower(), str(g).lower(), h) for a, b, c, d, e, f, g, h in uses))
    out.append("]\n")
    out.append("/-- `#![forbid(unsafe_code)]` is present in src/lib.rs: no `unsafe` block can defeat the `&mut` disjointness of\nparallel tasks -/")
    out.append("def forbidUnsafeCode : Bool := %s\n" % str(forbid_unsafe).lower())
    out.append("/-- occurrences of the keyword `unsafe` in src (outside comments and the lint name) -/")
    out.append("def unsafeOccurrences : Nat := %d\n" % unsafe_count)
    out.append("end Qmc.Gen\n")
    return "\n".join(out), uses


# --------------------------------------------------------------------------------------------
def write_if_changed(path, text):
    os.makedirs(os.path.dirname(path), exist_ok=True)
    if os.path.exists(path) and open(path).read() == text:
        return False
    tmp = path + ".tmp%d" % os.getpid()
    with open(tmp, "w") as f:
        f.write(text)
    os.replace(tmp, path)
    return True


def run(repo=None, outdir=None, report_path=None, which=("fields", "ambient")):
    """returns (ok, message, report).  On failure nothing is rewritten (fail closed: the caller reports the
    obligation as unproved)."""
    if repo is None:
        try:
            sys.path.insert(0, VERIF)
            from checks.common import REPO as repo  # noqa
        except Exception:
            repo = os.environ.get("VERIF_REPO", "/repo")
    outdir = outdir or os.path.join(VERIF, "lean", "QmcModel", "Generated")
    report_path = report_path or os.path.join(VERIF, ".cache", "fields_report.json")
    msgs, report = [], {}
    ok = True
    if "fields" in which:
        try:
            text, rep = gen_fields(repo)
            ch = write_if_changed(os.path.join(outdir, "Fields.lean"), text)
            report["fields"] = rep
            msgs.append("Fields.lean %s (%d field mappings, %d not verbatim)" % ("rewritten" if ch else "unchanged", len(rep), len([r for r in rep if r["kind"] != "copied"])))
        except Unknown as e:
            ok = False
            msgs.append("Fields.lean NOT regenerated — unrecognised source shape: %s" % e)
    if "ambient" in which:
        try:
            text, uses = gen_ambient(repo)
            ch = write_if_changed(os.path.join(outdir, "Ambient.lean"), text)
            report["ambient"] = [list(u) for u in uses]
            msgs.append("Ambient.lean %s (%d uses)" % ("rewritten" if ch else "unchanged", len(uses)))
        except Unknown as e:
            ok = False
            msgs.append("Ambient.lean NOT regenerated — unrecognised source shape: %s" % e)
    report["ok"] = ok
    report["messages"] = msgs
    report["repo"] = repo
    os.makedirs(os.path.dirname(report_path), exist_ok=True)
    with open(report_path, "w") as f:
        json.dump(report, f, indent=1, sort_keys=True)
    return ok, "; ".join(msgs), report


if __name__ == "__main__":
    a = sys.argv[1:]
    repo = None
    if "--repo" in a:
        repo = a[a.index("--repo") + 1]
    ok, msg, _ = run(repo)
    print(msg)
    sys.exit(0 if ok else 2)
