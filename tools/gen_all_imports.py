#!/usr/bin/env python3
"""Regenerate /verif/lean/QmcAll.lean: one file that imports EVERY module of the three glob'ed libraries
(QmcModel, QmcProofs, QmcProps).  `lake build QmcAll` then type-checks that the whole development lives in ONE
environment, i.e. that no two modules declare the same name (design_notes/Cleanup.md).

  python3 tools/gen_all_imports.py            rewrite lean/QmcAll.lean (keeps the hand-written tail after the marker)
  python3 tools/gen_all_imports.py --check    exit 1 (loudly) if lean/QmcAll.lean does not import exactly the modules
                                              that exist on disk (a module is missing / a stale import is left)
  python3 tools/gen_all_imports.py --list     print the module names, one per line (for tools/scan_clashes.lean)

Exceptions (modules deliberately NOT imported) are listed in EXCEPTIONS with the reason; the reason is copied into the
header of QmcAll.lean.  Drivers/*.lean are not library modules (each defines a root-level `main`) and are never listed.
"""
import os, re, sys

LEAN = os.path.join(os.path.dirname(os.path.abspath(__file__)), "..", "lean")
LIBS = ["QmcModel", "QmcProofs", "QmcProps"]
OUT = os.path.join(LEAN, "QmcAll.lean")
MARK = "-- END GENERATED IMPORTS (tools/gen_all_imports.py); everything below is hand-written and kept"

# module name -> reason.  Keep EMPTY unless two modules clash BY DESIGN.
EXCEPTIONS = {}


def modules():
    mods = []
    for lib in LIBS:
        for root, dirs, files in os.walk(os.path.join(LEAN, lib)):
            dirs.sort()
            for f in sorted(files):
                if f.endswith(".lean"):
                    rel = os.path.relpath(os.path.join(root, f), LEAN)
                    mods.append(rel[:-5].replace(os.sep, "."))
    return sorted(mods)


def header(mods):
    exc = "".join(f"  * {m}: {r}\n" for m, r in sorted(EXCEPTIONS.items())) or "  (none)\n"
    return (
        "/-\n"
        "GENERATED import list — regenerate with `python3 tools/gen_all_imports.py` (from /verif); do not edit the\n"
        "imports by hand. `python3 tools/gen_all_imports.py --check` fails if a module on disk is not imported here.\n\n"
        f"Imports every module of the libraries QmcModel, QmcProofs, QmcProps ({len(mods) - len(EXCEPTIONS)} modules), so that\n"
        "`lake build QmcAll` certifies that the whole development type-checks in ONE environment: no two modules\n"
        "declare the same name (Lean: \"environment already contains …\"). See design_notes/Cleanup.md.\n\n"
        "Not imported:\n"
        "  * Drivers/*.lean — not library modules: each is the root of an executable and defines a root-level `main`\n"
        "    (24 `main`s cannot share an environment); they are built by the `drv_*` targets.\n"
        "Exceptions among the library modules (clash by design):\n" + exc + "-/\n"
    )


def render(mods, tail):
    imps = "".join(f"import {m}\n" for m in mods if m not in EXCEPTIONS)
    return header(mods) + imps + "\n" + MARK + "\n" + tail


DEFAULT_TAIL = "\n"


def current_tail():
    if not os.path.exists(OUT):
        return DEFAULT_TAIL
    s = open(OUT).read()
    return s.split(MARK + "\n", 1)[1] if MARK in s else DEFAULT_TAIL


def main():
    mods = modules()
    for m in EXCEPTIONS:
        if m not in mods:
            sys.exit(f"gen_all_imports: exception {m} is not a module on disk — remove it from EXCEPTIONS")
    if "--list" in sys.argv:
        print("\n".join(m for m in mods if m not in EXCEPTIONS))
        return
    if "--check" in sys.argv:
        if not os.path.exists(OUT):
            sys.exit("gen_all_imports: FAIL lean/QmcAll.lean does not exist — run python3 tools/gen_all_imports.py")
        have = set(re.findall(r"^import\s+(\S+)", open(OUT).read(), re.M))
        want = set(m for m in mods if m not in EXCEPTIONS)
        missing, stale = sorted(want - have), sorted(have - want)
        if missing or stale:
            for m in missing:
                print(f"gen_all_imports: FAIL module {m} exists on disk but is NOT imported by lean/QmcAll.lean", file=sys.stderr)
            for m in stale:
                print(f"gen_all_imports: FAIL lean/QmcAll.lean imports {m}, which does not exist (or is an exception)", file=sys.stderr)
            sys.exit("gen_all_imports: lean/QmcAll.lean is out of date — run python3 tools/gen_all_imports.py")
        print(f"gen_all_imports: ok, lean/QmcAll.lean imports all {len(want)} modules")
        return
    new = render(mods, current_tail())
    old = open(OUT).read() if os.path.exists(OUT) else None
    if new != old:
        tmp = OUT + ".tmp~"
        open(tmp, "w").write(new)
        os.replace(tmp, OUT)
        print(f"gen_all_imports: wrote lean/QmcAll.lean ({len(mods) - len(EXCEPTIONS)} imports)")
    else:
        print(f"gen_all_imports: lean/QmcAll.lean up to date ({len(mods) - len(EXCEPTIONS)} imports)")


if __name__ == "__main__":
    main()
