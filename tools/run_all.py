#!/usr/bin/env python3
"""tools/run_all.py [quick|thorough] [-j N] [ids…] : run the claimed checks (or the listed ones) and summarise."""
import json, os, subprocess, sys, time
from concurrent.futures import ThreadPoolExecutor
V = os.path.dirname(os.path.dirname(os.path.abspath(__file__)))
args = sys.argv[1:]
tier = "quick"; jobs = 4; ids = []
i = 0
while i < len(args):
    if args[i] in ("quick", "thorough"): tier = args[i]
    elif args[i] == "-j": jobs = int(args[i + 1]); i += 1
    else: ids.append(args[i])
    i += 1
if not ids:
    ids = [c["property_id"] for c in json.load(open(os.path.join(V, "MANIFEST.json")))["checks"]]
def run(p):
    t = time.time()
    r = subprocess.run(["./check", p, "--tier", tier], cwd=V, capture_output=True, text=True)
    last = [l for l in r.stdout.splitlines() if l.startswith(("OK", "VIOLATION", "KNOWN-FINDING"))]
    return p, r.returncode, time.time() - t, last
with ThreadPoolExecutor(jobs) as ex:
    for p, rc, dt, last in ex.map(run, ids):
        print("%s rc=%d %.0fs %s" % (p, rc, dt, " | ".join(last)[:300]))
