#!/bin/sh
# tools/confirm_seed.sh <seed worktree> <n> : independently confirm a seeded change:
#  (1) patch applies, crate compiles, pinned suite passes with the patch (demo files moved aside)
#  (2) demo fails with the patch  (3) demo passes without it. Leaves the worktree clean.
WT=$1; N=$2
cd $WT || exit 2
META=SEED/$N/meta.json
CMD=$(python3 -c "import json;print(json.load(open('$META'))['demo_cmd'])")
echo "demo_cmd: $CMD"
git apply --check SEED/$N/patch.diff || { echo "patch does not apply"; exit 2; }
git apply SEED/$N/patch.diff
mkdir -p /tmp/aside-$$/tests /tmp/aside-$$/examples
# every untracked file under tests/ and examples/ is a demo: keep them out of the pinned-suite run
for f in $(git ls-files --others --exclude-standard tests examples); do mv "$f" /tmp/aside-$$/$f; done
cargo test --workspace --no-fail-fast --offline > /tmp/aside-$$/suite.log 2>&1; SUITE=$?
for d in tests examples; do for f in /tmp/aside-$$/$d/*; do [ -e "$f" ] && mkdir -p $d && mv "$f" $d/; done; done
sh -c "$CMD" > /tmp/aside-$$/demo_with.log 2>&1; WITH=$?
git apply -R SEED/$N/patch.diff
sh -c "$CMD" > /tmp/aside-$$/demo_without.log 2>&1; WITHOUT=$?
echo "suite_with_patch_rc=$SUITE (0 = pass)  demo_with_patch_rc=$WITH (nonzero = fails as required)  demo_without_patch_rc=$WITHOUT (0 = pass)"
grep -E "^test result" /tmp/aside-$$/suite.log | head -8
git status --short | grep -v "SEED\|tests/seed\|examples/seed\|Cargo.lock\|target" | head
rm -rf /tmp/aside-$$
[ $SUITE -eq 0 ] && [ $WITH -ne 0 ] && [ $WITHOUT -eq 0 ] && echo CONFIRMED || echo NOT-CONFIRMED
