#!/bin/sh
# tools/mutcheck.sh <patch.diff> <Cxx> [tier]
# Run a check against a scratch copy of /repo with <patch.diff> applied, without touching
# /repo, /verif/evidence or the shared cargo target dir. Everything is removed afterwards.
# Exit status = exit status of the check (1 = the mutation was detected).
set -e
PATCH=$(readlink -f "$1"); PROP=$2; TIER=${3:-quick}
S=/var/tmp/mut-$$-$PROP
mkdir -p $S
trap 'git -C /repo worktree remove --force $S/repo >/dev/null 2>&1; rm -rf $S' EXIT
git -C /repo worktree add -q --detach $S/repo HEAD
cp /repo/Cargo.lock $S/repo/Cargo.lock 2>/dev/null || true
git -C $S/repo apply "$PATCH"
mkdir -p $S/harness
cp -r /verif/harness/src /verif/harness/Cargo.toml /verif/harness/Cargo.lock $S/harness/
mkdir -p $S/harness/.cargo && cp /verif/harness/.cargo/config.toml $S/harness/.cargo/
sed -i "s|path = \"/repo\"|path = \"$S/repo\"|" $S/harness/Cargo.toml
sed -i "/target-dir/d" $S/harness/.cargo/config.toml
set +e
cd /verif && VERIF_REPO=$S/repo VERIF_HARNESS_DIR=$S/harness VERIF_TARGET_DIR=$S/target VERIF_OUT_DIR=$S/out ./check $PROP --tier $TIER
RC=$?
if [ -d $S/out/replays ]; then echo "--- replay (scratch) ---"; head -c 1500 $S/out/replays/*.json; echo; fi
exit $RC
