#!/usr/bin/env python3
"""Regenerate /verif/MANIFEST.json from checks/registry.py and properties.jsonl."""
import json, os, subprocess, sys
V = os.path.dirname(os.path.dirname(os.path.abspath(__file__)))
sys.path.insert(0, V)
import glob
REG = {}
for f in glob.glob(os.path.join(V, "checks", "registry", "C*.json")):
    REG[os.path.basename(f)[:-5]] = json.load(open(f))

props = [json.loads(l) for l in open(os.path.join(V, "properties.jsonl"))]
commits = subprocess.run(["git", "-C", "/repo", "log", "--format=%h %s"], capture_output=True, text=True).stdout.splitlines()
hook_commits = [c.split()[0] for c in commits if c.split(" ", 1)[1].startswith("verif-hook:")]
# coordinator-owned allowlist: a property is claimed only after its check was validated on the
# unchanged tree (exit 0 in both tiers, evidence valid) and against mutations
validated = set(open(os.path.join(V, "checks", "validated.txt")).read().split())
checks, na = [], []
for p in props:
    r = REG.get(p["id"])
    if r and r.get("claimed") and p["id"] in validated:
        checks.append({
            "property_id": p["id"],
            "quick_cmd": "./check %s --tier quick" % p["id"],
            "thorough_cmd": "./check %s --tier thorough" % p["id"],
            "evidence_file": "/verif/evidence/%s.json" % p["id"],
            "replay_cmd_template": "./check %s --replay {path}" % p["id"],
            "engine": "lean4-proof+correspondence",
            "level_claimed": {"category": r.get("category", "proof"), "text": r["text"], "design_ref": r["design_ref"]},
            "level_note": r["note"],
            "technique": r["technique"],
        })
    else:
        na.append({"property_id": p["id"], "reason": (r or {}).get("reason", "not claimed yet: the Lean model / theorems / correspondence mode for this property are not built in the committed tree (planned, DESIGN.md §9); the technique itself applies")})
m = {
    "version": 1,
    "setup_cmd": "./setup.sh",
    "hooks": {
        "guard": "--cfg qmc_verif",
        "enable": "RUSTFLAGS=\"--cfg qmc_verif --cap-lints warn\" cargo build --offline (harness crate /verif/harness, path dependency on /repo)",
        "baseline_off_cmd": "cd /repo && cargo test --workspace --no-fail-fast --offline",
        "source_commits": hook_commits,
        "add_only": True,
    },
    "engines": [{"name": "lean4-proof+correspondence", "path": "/verif/check", "serves_properties": [c["property_id"] for c in checks],
                 "kind_free_text": "Lean 4 theorems about a hand-written executable model (lean/), tied to /repo on every run by a Rust harness (harness/) driving the real code with a recording RNG and a compiled Lean driver replaying the same inputs; implementation-side oracles search for failing inputs"}],
    "checks": checks,
    "not_applicable": na,
    "notes": "See DESIGN.md. Known findings: known_findings.json. fix: commits in /repo repair genuine defects found by the checks.",
}
json.dump(m, open(os.path.join(V, "MANIFEST.json"), "w"), indent=1)
print("claimed:", [c["property_id"] for c in checks])
