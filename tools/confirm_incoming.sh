#!/bin/sh
# tools/confirm_incoming.sh <Cxx-n> : independently confirm a seeded change stored in /verif/seeded/_incoming/<id>
# (or /verif/seeded/<id>) when the seeder's own worktree is gone:
#  (1) patch applies to a fresh scratch worktree of /repo HEAD, the pinned suite passes with the patch
#  (2) the demonstration fails with the patch  (3) and passes without it.
# The demo command is taken from meta.json (`--test NAME` / `--example NAME`, --release, --features …, env prefix);
# demo.rs is installed as tests/NAME.rs or examples/NAME.rs. Everything lives under /var/tmp and is removed.
ID=$1
SRC=/verif/seeded/_incoming/$ID
[ -d "$SRC" ] || SRC=/verif/seeded/$ID
WT=/var/tmp/cf-$ID
trap 'git -C /repo worktree remove --force $WT >/dev/null 2>&1; rm -rf $WT /var/tmp/cf-$ID.logs' EXIT
git -C /repo worktree add -q --detach $WT HEAD || exit 2
cp /repo/Cargo.lock $WT/Cargo.lock 2>/dev/null
mkdir -p /var/tmp/cf-$ID.logs
cd $WT
eval "$(python3 - "$SRC/meta.json" <<'EOF'
import json, re, shlex, sys
m = json.load(open(sys.argv[1]))
cmd = m["demo_cmd"]
kind, name = None, None
mt = re.search(r"--(test|example)\s+(\S+)", cmd)
if mt: kind, name = mt.group(1), mt.group(2)
# the cargo invocation = last '&&'-separated part that contains 'cargo'
part = [p for p in cmd.split("&&") if "cargo" in p][-1].strip()
print("KIND=%s" % shlex.quote(kind or ""))
print("NAME=%s" % shlex.quote(name or ""))
print("CARGOCMD=%s" % shlex.quote(part))
EOF
)"
[ -n "$KIND" ] || { echo "cannot parse demo_cmd"; echo NOT-CONFIRMED; exit 2; }
DIR=tests; [ "$KIND" = example ] && DIR=examples
git apply --check $SRC/patch.diff || { echo "patch does not apply"; echo NOT-CONFIRMED; exit 2; }
git apply $SRC/patch.diff
export CARGO_NET_OFFLINE=true
cargo test --workspace --no-fail-fast --offline > /var/tmp/cf-$ID.logs/suite.log 2>&1; SUITE=$?
mkdir -p $DIR && cp $SRC/demo.rs $DIR/$NAME.rs
sh -c "$CARGOCMD" > /var/tmp/cf-$ID.logs/with.log 2>&1; WITH=$?
git apply -R $SRC/patch.diff
sh -c "$CARGOCMD" > /var/tmp/cf-$ID.logs/without.log 2>&1; WITHOUT=$?
echo "[$ID] suite_with_patch_rc=$SUITE demo_with_patch_rc=$WITH demo_without_patch_rc=$WITHOUT  $(grep -E '^test result' /var/tmp/cf-$ID.logs/suite.log | awk '{p+=$4; f+=$6} END {print p" passed "f" failed"}')"
if [ $WITH -eq 0 ] || [ $WITHOUT -ne 0 ]; then tail -5 /var/tmp/cf-$ID.logs/with.log | cut -c1-200; tail -5 /var/tmp/cf-$ID.logs/without.log | cut -c1-200; fi
[ $SUITE -eq 0 ] && [ $WITH -ne 0 ] && [ $WITHOUT -eq 0 ] && echo "[$ID] CONFIRMED" || echo "[$ID] NOT-CONFIRMED"
