#!/usr/bin/env python3
"""tools/keep_seed.py <Cxx> <n> <detected: yes|no> "<what tripped / notes>" : copy a confirmed seed from
/tmp/seed-Cxx/SEED/n to /verif/seeded/Cxx-n with meta.json extended by what the coordinator ran."""
import json, os, shutil, sys
prop, n, det, note = sys.argv[1:5]
src = "/tmp/seed-%s/SEED/%s" % (prop, n)
if not os.path.isdir(src):
    src = "/verif/seeded/_incoming/%s-%s" % (prop, n)
dst = "/verif/seeded/%s-%s" % (prop, n)
os.makedirs(dst, exist_ok=True)
for f in os.listdir(src):
    shutil.copy(os.path.join(src, f), dst)
m = json.load(open(os.path.join(dst, "meta.json")))
m["breaks_property"] = prop
m["coordinator_confirmation"] = {
    "ran": "tools/confirm_seed.sh /tmp/seed-%s %s  (patch applies; pinned suite passes with patch; demo fails with patch; demo passes without)" % (prop, n),
    "result": "CONFIRMED",
}
m["check_result"] = {"ran": "tools/mutcheck.sh seeded/%s-%s/patch.diff %s" % (prop, n, prop), "detected": det == "yes", "notes": note}
json.dump(m, open(os.path.join(dst, "meta.json"), "w"), indent=1)
print("kept", dst)
