#!/bin/sh
# tools/seed_sweep.sh <seed> [tier] : run all claimed checks with VERIF_SEED=<seed>, 6 in parallel, print non-OK lines
S=$1; T=${2:-quick}
cd "$(dirname "$0")/.."
ids=$(python3 -c "import json;print(' '.join(c['property_id'] for c in json.load(open('MANIFEST.json'))['checks']))")
echo $ids | tr ' ' '\n' | xargs -P 6 -I{} sh -c "VERIF_SEED=$S VERIF_OUT_DIR=/var/tmp/sweep-$S ./check {} --tier $T > /var/tmp/sweep-$S-{}.log 2>&1; echo {} rc=\$? \$(grep -E '^OK|^VIOLATION' /var/tmp/sweep-$S-{}.log | cut -c1-120)"
