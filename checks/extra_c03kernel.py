"""C03, extract-flip lemma and kernel-level reversibility of the RVB update (lean/QmcProps/C03Kernel.lean;
lean/QmcProofs/RvbExtractFlip.lean, RvbHam.lean, RvbReverse.lean, RvbWeight.lean, RvbKernel.lean):

* G1 `rvb_extract_flip`: after an RVB move the segment abstraction read off the new configuration is the flipped
  abstraction of the old one, same shape of the assignments (formerly the OBSERVED hypotheses `hflip`/`hshape` of
  `rvb_detailed_balance_full_cfg`), for all configurations/regions/couplings, provided neither sweep of
  `calculate_flip_prob` is abandoned (`mult < EPSILON`); `rvb_extract_flip_underflow_corner`: without that proviso the
  statement is false (J = 2^60 triangle: 5 segments against 3). `rvb_detailed_balance_cfg_closed`: the full identity with
  nothing observed (`Admissible` derived: `rvb_admissible`, `rvb_closeExact_of_grid`).
* the move relation is symmetric on legal configurations (`rvbMove_symm`), keeps `Good` (`rvbMove_keeps_good`) and the
  region's well-formedness (`rvbMove_keeps_regionOK`); the SSE weight factors through the abstraction
  (`rvb_sse_weight_factor`), hence `rvb_detailed_balance_sse` for `configWeight (isingHam E) beta`.
* G2 `rvb_kernel_reversible(_cut)`, `rvb_kernel_rowSum`, `rvb_kernel_invariant(_cut)`: the RVB update as a Markov kernel
  `rvbK` on `Config` (finite mixture over regions, proposal probability a function of the skeleton, per-region entries
  = the model's acceptProb x redrawProb: `rvb_kernel_entry`); `ising_timestep_invariant_rvb(_cut)`,
  `ising_timestep_invariant_rvb_proposal`: one Ising `timestep` WITH the RVB update enabled
  (`timestepWith sweepKM [restr S rvbK] (ofComponents ...)`) leaves the SSE measure invariant.

* `rvb_proposeRegion_regionOK`: the region the exact proposal model `proposeRegion` hands over satisfies `RegionOK`
  for every Good configuration and every script (derived: QmcProofs/RvbRegionDerive.lean); hence
  `rvb_kernel_proposal_eq` (with the model's proposal law the RegionOK guard is redundant) and
  `ising_timestep_invariant_rvb_cut_proposal` (no hypothesis on the regions). `rvb_regionOK_decider`,
  `rvb_moveOK_decider`: the deciders the driver evaluates on every traced proposal / applied update are sound.

Built and audited (#print axioms + forbidden-token scan over the import closure) as extra obligations of C03.
Usage from the C03 plugin: `from checks import extra_c03kernel; extra_c03kernel.run(ck)`."""
MODULE = "QmcProps.C03Kernel"
C03 = "Qmc.C03."
XF = "Qmc.Rvb.ExtractFlip."
RK = "Qmc.Rvb.Kernel."
THEOREMS = (
    [C03 + t for t in [
        "rvb_extract_flip", "rvb_extract_flip_of_good", "rvb_extract_flip_underflow_corner",
        "rvbMove_symm", "rvbMove_keeps_good", "rvbMove_keeps_regionOK",
        "rvb_admissible", "rvb_regionOK_decider", "rvb_closeExact_of_grid", "rvb_detailed_balance_cfg_closed",
        "rvb_sse_weight_factor", "rvb_detailed_balance_sse",
        "rvb_moveOK_symm", "rvb_kernel_target_in_space", "rvb_kernel_entry", "rvb_kernel_reversible", "rvb_kernel_reversible_cut",
        "rvb_kernel_rowSum", "rvb_kernel_invariant", "rvb_kernel_invariant_cut",
        "ising_timestep_invariant_rvb", "ising_timestep_invariant_rvb_cut", "ising_timestep_invariant_rvb_cut_hb",
        "ising_timestep_invariant_rvb_proposal", "ising_timestep_invariant_rvb_cut_proposal",
        "rvb_proposeRegion_regionOK", "rvb_regionOK_of_proposed", "rvb_kernel_proposal_eq", "rvb_moveOK_decider",
        "exB_good", "exR_regionOK", "ex_moveOK", "exE_closeExact", "exE_edgesOK", "ex_rvbT"]]
    + [XF + t for t in [
        "stepOp_eq_stepI", "run_eq_runI", "boundary_xor", "step_rebond", "step_flip", "lockstep",
        "extract_flip", "restW_eq", "underflow_corner"]]
    + [RK + t for t in [
        "isingHam_w", "opsWeight_eq_opsW", "opOK_of_legalFor", "Steps.reverse", "rvbMove_reverse",
        "Steps.legalFor", "rvbMove_good", "regionOK_of_move", "tw_step", "tw_run", "opsW_factor",
        "admissible_of_good", "closeExact_of_grid", "closeExact_of_nonpos",
        "remK_reversible", "remK_rowSumOn", "mixRate_balance", "MoveOK.symm", "guard_of_moveOK", "guard_balance",
        "rvbT_balance", "rvbK_reversible", "rvbK_reversible_cut", "rvbK_rowSumOn", "rvbK_invariant",
        "rvbK_invariant_cut", "ising_timestep_invariant_rvb", "ising_timestep_invariant_rvb_cut",
        "regionOKb_sound", "moveOKb_sound"]]
    + ["Qmc.Rvb.Derive." + t for t in [
        "keysOf_insert", "keysOf_removeIndex", "owns_unique", "constantPs_at", "mem_constPs", "push_some", "push_none",
        "pop_inv", "fos_ne_nil", "pushNeighbours_inv", "growOne_inv", "buildCluster_inv", "asm_fold",
        "assemble_regionOK", "proposeRegion_regionOK", "regionOK_of_qProp", "rvbKP_eq_rvbK",
        "ising_timestep_invariant_rvb_cut_proposal"]]
)


def run(ck):
    save = ck.prop
    try:
        if ck.lake_build([MODULE]):
            ck.prop = "%sxkernel" % save
            ck.audit(MODULE, THEOREMS)
    finally:
        ck.prop = save
