"""Source -> Lean translation of small pure functions, re-proved equal to the hand model on every run.

    from checks import pure_fns
    pure_fns.run(ck)            # inside a check's main(ck), before ck.finish(...)

adds these obligations to the calling check:
  1. `translate_pure.py regenerated PureFns.lean …`   tools/translate_pure.py parsed every whitelisted function /
     expression of `checks.common.REPO` (fail closed: an unknown shape names the function and the construct) and
     wrote lean/QmcModel/Generated/PureFns.lean (only if its content changed);
  2. `lake build QmcProofs.PureFnsAgree …`            the agreement theorems still hold for the regenerated file
     (the detail names the theorems that broke, i.e. the Rust functions that no longer match the hand model);
  3. `every generated definition is the subject of an agreement theorem`;
  4. one `theorem Qmc.PureFnsAgree.<name>` obligation per agreement theorem (#print axioms, forbidden-token scan;
     audit file `.audit/<Cxx>-purefns.lean`).
When REPO is a scratch tree (tools/mutcheck.sh) the generated file of the real /repo is put back at the end (and the
Lean build brought back in line with it), so a scratch run leaves nothing foreign behind.  A process-wide file lock
serialises concurrent callers (several checks call this).
"""
import os
import re
import sys

from checks import common

sys.path.insert(0, os.path.join(common.VERIF, "tools"))
import translate_pure  # noqa: E402

MODULE = "QmcProofs.PureFnsAgree"
GENERATED = os.path.join(common.LEAN, "QmcModel", "Generated", "PureFns.lean")
AGREE = os.path.join(common.LEAN, "QmcProofs", "PureFnsAgree.lean")
# historical: QmcModel/Cluster.lean could not be imported together with QmcModel/Interaction.lean (both declared Qmc.absR;
# resolved, design_notes/Cleanup.md): own file
MODULE_C = "QmcProofs.PureFnsAgreeCluster"
AGREE_C = os.path.join(common.LEAN, "QmcProofs", "PureFnsAgreeCluster.lean")

THEOREMS = [
    # fixed prelude of the translation
    "fabs_agree", "fabs_agree_rvb", "fabs_agree_isingHam", "EPSILON_agree", "EPSILON_agree_rvb", "powi_agree",
    # Ising matrix elements (qmc_ising.rs)
    "two_site_hamiltonian_agree", "two_site_hamiltonian_agree_pairs", "transverse_hamiltonian_agree",
    "longitudinal_hamiltonian_agree", "two_site_hamiltonian_agree_tempering", "two_site_hamiltonian_agree_rvb",
    "longitudinal_hamiltonian_agree_rvb", "two_site_hamiltonian_agree_isingHam",
    "longitudinal_hamiltonian_agree_isingHam", "longitudinal_hamiltonian_agree_tempering_diag",
    # cluster.rs
    "is_valid_cluster_edge_agree",
    # cutoff rule, three sites
    "cutoff_rule_single_diagonal_step_agree", "cutoff_rule_timestep_agree", "cutoff_rule_diagonal_update_agree",
    # energy estimator, both samplers
    "get_energy_for_average_n_ising_agree", "get_energy_for_average_n_generic_agree",
    "get_energy_for_average_n_generic_agree_gqmc", "get_energy_for_average_n_agree_stepper",
    # offset, bond count, field guard
    "total_energy_offset_agree", "field_guard_agree", "field_guard_agree_tempering",
    "num_bonds_single_diagonal_step_agree", "num_bonds_single_rvb_sweep_agree", "num_bonds_set_enable_heatbath_agree",
    "num_bonds_timestep_agree", "num_bonds_agree_tempering", "num_bonds_agree_isingHam",
    # Metropolis diagonal update
    "diag_insert_prob_agree", "diag_remove_prob_agree", "diag_insert_accept_agree", "diag_insert_accept_draws_agree",
    "diag_remove_accept_agree", "diag_remove_accept_draws_agree", "metropolisSlot_none_agree", "metropolisSlot_diag_agree",
    # heat bath gates
    "hb_remove_prob_agree", "hb_insert_prob_agree", "heatBathSlot_none_agree", "heatBathSlot_diag_agree",
    # replica swap
    "swap_on_chunks_agree", "swap_on_chunks_agree_dec",
    # bond numbering
    "hamiltonian_dispatch_agree", "bonds_fn_timestep_agree", "bonds_fn_single_diagonal_step_agree",
    "bonds_fn_single_rvb_sweep_agree", "bonds_fn_set_enable_heatbath_agree",
    # Ising -> generic conversion matrices
    "into_qmc_edge_matrix_agree", "into_qmc_transverse_matrix_agree", "into_qmc_field_matrix_agree",
    # interaction size rule
    "mat_var_size_rule_agree",
    # replicated closures (the translator requires the copies identical; majority vote names the deviating copy)
    "cluster_weight_timestep_agree", "cluster_weight_single_cluster_step_agree", "ising_ratio_single_rvb_sweep_agree",
    "ising_ratio_timestep_agree", "cluster_weight_agree_samplerCore", "ising_ratio_agree_rvb_edge",
    "ising_ratio_agree_rvb_transverse", "ising_ratio_agree_rvb_field", "rvb_edge_weight_agree_rvb",
    "rvb_edge_weight_timestep_nofield_agree", "rvb_edge_weight_single_rvb_sweep_field_agree",
    "rvb_edge_weight_single_rvb_sweep_nofield_agree", "cluster_flip_prob_agree", "free_refresh_prob_agree",
    "cluster_flip_prob_agree_isingTimestep", "cluster_flip_prob_agree_genericTimestep",
    "free_refresh_prob_agree_samplerCore", "free_refresh_prob_agree_generic", "steps_to_run_timestep_agree",
    "steps_to_run_single_rvb_sweep_agree", "h_closure_timestep_agree", "h_closure_single_diagonal_step_agree",
    "h_closure_single_rvb_sweep_agree", "h_closure_set_enable_heatbath_agree", "h_closure_agree_isingHam",
]

THEOREMS_C = [
    "fabs_agree", "isingFrozen_agree", "isingFrozen_agree_single_cluster_step", "freeRefresh_agree", "twoSiteW_agree",
    "transverseW_agree", "longitudinalW_agree_diag", "bonds_fn_agree_isingClusterHam",
]

TRUSTED = ("tools/translate_pure.py (locates a whitelist of small pure Rust functions by regex, parses them with a ~15-construct "
           "typed expression grammar, emits Lean; fails closed on anything else; f64 read as exact Rat, usize as Nat)")


def _theorem_at(lines, lineno):
    """name of the theorem whose text (doc comment included) contains line `lineno` (1-based)"""
    starts = []
    for i, l in enumerate(lines):
        m = re.match(r"\s*theorem\s+([\w'.]+)", l)
        if not m:
            continue
        j = i
        if j > 0 and lines[j - 1].rstrip().endswith("-/"):
            k = j - 1
            while k >= 0 and not lines[k].lstrip().startswith("/--"):
                k -= 1
            if k >= 0:
                j = k
        starts.append((j + 1, m.group(1)))
    best = None
    for st, name in starts:
        if st <= lineno:
            best = name
    return best


def broken_theorems(build_output):
    names = []
    for path, tag in ((AGREE, ""), (AGREE_C, "Cluster")):
        lines = open(path).read().splitlines() if os.path.exists(path) else []
        for m in re.finditer(r"error:?\s*\S*PureFnsAgree%s\.lean:(\d+):\d+" % tag, build_output):
            t = _theorem_at(lines, int(m.group(1)))
            if t and (tag + ":" + t if tag else t) not in names:
                names.append(tag + ":" + t if tag else t)
    return names


def _lake(targets):
    with common.Lock("lake"):
        return common.sh(["lake", "build"] + targets, cwd=common.LEAN, timeout=3000)


def run(ck):
    """regenerate + re-prove + audit; returns True iff everything held"""
    n0 = len([o for o in ck.obligations if not o[1]])
    with common.Lock("purefns"):
        scratch = os.path.realpath(common.REPO) != "/repo"
        saved = open(GENERATED).read() if (scratch and os.path.exists(GENERATED)) else None
        try:
            # 1. translate (fail closed)
            ck.checker_cmds.append("python3 /verif/tools/translate_pure.py --repo %s" % common.REPO)
            rc, msg = translate_pure.regenerate(common.REPO, GENERATED)
            ck.oblige("translate_pure.py regenerated PureFns.lean (every whitelisted pure function of the source parsed; fail closed otherwise)", rc == 0, msg)
            ck.notes.append(msg)
            if TRUSTED not in ck.extra_trusted:
                ck.extra_trusted.append(TRUSTED)
            if rc != 0:
                ck.oblige("agreement theorems of %s (not re-checked: the translator failed closed)" % MODULE, False, msg)
                return False
            # 2. re-prove
            ck.checker_cmds.append("cd /verif/lean && lake build %s %s" % (MODULE, MODULE_C))
            brc, out, err = _lake([MODULE, MODULE_C])
            text = out + err
            if brc != 0:
                names = broken_theorems(text)
                errs = [l for l in text.splitlines() if "error" in l][:6]
                detail = "hand model and translated Rust source no longer agree: broken theorem(s) %s :: %s :: %s" % (
                    ", ".join(names) or "<none located>", " | ".join(errs), text[-1200:])
            else:
                detail = ""
            ck.oblige("lake build %s %s (hand model == translated Rust source, all arguments)" % (MODULE, MODULE_C), brc == 0, detail)
            if brc != 0:
                return False
            # 3. completeness: every generated definition occurs in the agreement file
            gen = re.findall(r"^def\s+(\w+)", open(GENERATED).read(), re.M)
            agree = common.strip_lean_comments(open(AGREE).read()) + common.strip_lean_comments(open(AGREE_C).read())
            missing = [d for d in gen if not re.search(r"\bGen\.%s\b" % re.escape(d), agree)]
            ck.oblige("every generated definition (%d) is the subject of an agreement theorem" % len(gen), not missing, ("not covered: " + ", ".join(missing)) if missing else "")
            # 4. audit
            save = ck.prop
            ck.prop = save + "-purefns"
            try:
                ck.audit(MODULE, ["Qmc.PureFnsAgree." + t for t in THEOREMS])
                ck.prop = save + "-purefnsc"
                ck.audit(MODULE_C, ["Qmc.PureFnsAgreeCluster." + t for t in THEOREMS_C])
            finally:
                ck.prop = save
        finally:
            if saved is not None and open(GENERATED).read() != saved:
                # mutation experiment on a scratch tree: put the file generated from /repo back, and the build with it
                with open(GENERATED, "w") as f:
                    f.write(saved)
                _lake([MODULE, MODULE_C])
    return len([o for o in ck.obligations if not o[1]]) == n0
