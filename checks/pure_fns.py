"""Source -> Lean translation of small pure functions, re-proved equal to the hand model on every run — SCOPED per check.

    from checks import pure_fns
    pure_fns.run(ck)                      # first statement of a check's main(ck); groups = RELEVANT[ck.prop]
    pure_fns.run(ck, groups=["Diag"])     # explicit list of groups

tools/translate_pure.py translates a whitelist of small pure Rust functions / expressions of `checks.common.REPO` into
lean/QmcModel/Generated/PureFns.lean.  Every generated definition belongs to ONE group (translate_pure.DEF_GROUP) and every
group has ONE agreement module lean/QmcProofs/PureFnsAgree/<Group>.lean proving the hand models equal to the group's
definitions.  A translated function that stops agreeing (or leaves the translator's whitelist) therefore takes down only its
own group, and a check builds / audits / reports ONLY the groups relevant to its property (table RELEVANT below, closed
under DEPS), so a check raises an alarm only for its own property.

Obligations added to the calling check (G = its groups):
  1. `translate_pure.py translated every whitelisted function of groups G`   (sites that failed closed in other groups go to
     ck.notes; the generated file is still written with everything that did translate);
  2. one `lake build QmcProofs.PureFnsAgree.<g>` obligation per g in G (the detail names the theorems that broke);
  3. `every generated definition of groups G is the subject of an agreement theorem of its group, and no group module refers
     to a definition of a foreign group`;
  4. one `theorem Qmc.PureFnsAgree[Cluster].<name>` obligation per agreement theorem of the groups that built (#print axioms,
     forbidden-token scan over the modules' import closure; thorough tier: leanchecker on the modules).
When REPO is a scratch tree (tools/mutcheck.sh) the generated file of the real /repo is put back at the end (and the Lean
build of the used groups brought back in line with it).  The `purefns` file lock serialises concurrent callers.
"""
import os
import re
import sys

from checks import common

sys.path.insert(0, os.path.join(common.VERIF, "tools"))
import translate_pure  # noqa: E402

GENERATED = os.path.join(common.LEAN, "QmcModel", "Generated", "PureFns.lean")
MODPREFIX = "QmcProofs.PureFnsAgree."
# kept for old references: the umbrella module imports only the Prelude group (it is listed in some LEAN_TARGETS and must
# never go red because of an unrelated group)
MODULE = "QmcProofs.PureFnsAgree"

# group -> groups whose DEFINITIONS its agreement module also mentions (the hand model's copy is proved equal to them)
DEPS = {"Tempering": ["IsingHam"], "Rvb": ["IsingHam"], "ClusterIsing": ["IsingHam"]}

# property -> groups (Prelude and DEPS are added automatically); one-line reasons in design_notes/Translator.md
RELEVANT = {
    "C01": ["IsingHam", "Cluster", "ClusterIsing", "RefreshIsing", "EnergyIsing", "Diag", "HeatBathIsing"],
    "C02": ["IsingHam", "HeatBath", "HeatBathIsing"],
    "C03": ["IsingHam", "Rvb", "BondContainer"],
    "C04": ["Cluster", "RefreshGeneric", "EnergyGeneric", "Diag", "HeatBath", "Loop"],
    "C05": ["IsingHam", "Tempering"],
    "C08": ["Diag", "HeatBath"],
    "C09": ["IsingHam", "Cluster", "ClusterIsing", "RefreshIsing"],
    "C10": ["IsingHam", "Tempering"],
    "C12": ["Cutoff"],
    "C15": ["IsingHam", "Convert", "EnergyIsing", "EnergyGeneric"],
    "C16": ["Size"],
    "C17": ["EnergyIsing", "EnergyGeneric", "Stepper"],
    # C19 and C20 call pure_fns.run since session 4; C13 and C07 do not call it yet (two lines each, see design_notes/Translator.md)
    "C19": ["Classical"],
    "C13": ["Stepper"],
    "C07": ["BondContainer"],
    "C20": ["Autocorr", "Stepper"],
}

# agreement theorems per group: namespace Qmc.PureFnsAgree
GROUP_THEOREMS = {
    "Prelude": ["fabs_agree", "fabs_agree_rvb", "fabs_agree_isingHam", "EPSILON_agree", "EPSILON_agree_rvb", "powi_agree", "bondsFnRef_agree"],
    "IsingHam": ["two_site_hamiltonian_agree", "two_site_hamiltonian_agree_pairs", "transverse_hamiltonian_agree", "longitudinal_hamiltonian_agree",
                 "two_site_hamiltonian_agree_isingHam", "longitudinal_hamiltonian_agree_isingHam", "total_energy_offset_agree", "field_guard_agree",
                 "num_bonds_single_diagonal_step_agree", "num_bonds_timestep_agree", "num_bonds_agree_isingHam", "hamiltonian_dispatch_agree",
                 "bonds_fn_timestep_eq_ref", "bonds_fn_timestep_agree", "bonds_fn_single_diagonal_step_agree", "h_closure_timestep_agree",
                 "h_closure_single_diagonal_step_agree", "h_closure_agree_isingHam"],
    "Tempering": ["two_site_hamiltonian_agree_tempering", "longitudinal_hamiltonian_agree_tempering",
                  "field_guard_agree_tempering", "num_bonds_agree_tempering", "swap_on_chunks_agree", "swap_on_chunks_agree_dec"],
    "Rvb": ["two_site_hamiltonian_agree_rvb", "longitudinal_hamiltonian_agree_rvb", "num_bonds_single_rvb_sweep_agree", "bonds_fn_single_rvb_sweep_agree",
            "h_closure_single_rvb_sweep_agree", "ising_ratio_timestep_agree", "ising_ratio_single_rvb_sweep_agree", "ising_ratio_agree_rvb_edge",
            "ising_ratio_agree_rvb_transverse", "ising_ratio_agree_rvb_field", "rvb_edge_weight_agree_rvb", "rvb_edge_weight_timestep_nofield_agree",
            "rvb_edge_weight_single_rvb_sweep_field_agree", "rvb_edge_weight_single_rvb_sweep_nofield_agree", "steps_to_run_timestep_agree",
            "steps_to_run_single_rvb_sweep_agree",
            "rvb_calculate_mult_agree", "rvb_should_mutate_draws_agree", "rvb_should_mutate_agree", "rvb_accept_prob_agree", "rvb_mult_early_exit_1_agree",
            "rvb_mult_early_exit_2_agree", "rvb_mult_early_exit_agree_sweep", "rvb_pop_index_agree_zero", "rvb_pop_index_agree_gate", "rvb_pop_index_agree_pick",
            "rvb_push_weight_default_agree", "rvb_push_new_weight_agree", "rvb_push_adjacent_agree", "rvb_push_adjacent_agree_noflip"],
    "Cluster": ["is_valid_cluster_edge_agree", "cluster_flip_prob_cluster_update_sym_agree", "cluster_flip_prob_agree_genericTimestep"],
    "ClusterIsing": ["cluster_weight_timestep_agree", "cluster_weight_single_cluster_step_agree", "cluster_weight_agree_samplerCore", "cluster_flip_prob_agree",
                     "cluster_flip_prob_agree_isingTimestep"],
    "RefreshIsing": ["free_refresh_prob_agree", "free_refresh_prob_agree_samplerCore"],
    "RefreshGeneric": ["free_refresh_prob_flip_free_bits_agree", "free_refresh_prob_agree_generic"],
    "Cutoff": ["cutoff_rule_single_diagonal_step_agree", "cutoff_rule_timestep_agree", "cutoff_rule_diagonal_update_agree"],
    "EnergyIsing": ["get_energy_for_average_n_ising_agree", "get_energy_for_average_n_agree_stepper"],
    "EnergyGeneric": ["get_energy_for_average_n_generic_agree", "get_energy_for_average_n_generic_agree_gqmc", "get_energy_for_average_n_generic_agree_stepper"],
    "Diag": ["diag_insert_prob_agree", "diag_remove_prob_agree", "diag_insert_accept_agree", "diag_insert_accept_draws_agree", "diag_remove_accept_agree",
             "diag_remove_accept_draws_agree", "metropolisSlot_none_agree", "metropolisSlot_diag_agree"],
    "HeatBath": ["hb_remove_prob_agree", "hb_insert_prob_agree", "heatBathSlot_none_agree", "heatBathSlot_diag_agree"],
    "HeatBathIsing": ["num_bonds_set_enable_heatbath_agree", "bonds_fn_set_enable_heatbath_agree", "h_closure_set_enable_heatbath_agree"],
    "Convert": ["into_qmc_edge_matrix_agree", "into_qmc_transverse_matrix_agree", "into_qmc_field_matrix_agree"],
    "Size": ["mat_var_size_rule_agree"],
    "Classical": ["classical_should_flip_agree", "classical_should_flip_draws_agree", "classical_should_flip_agree_accProb", "classical_flip_summand_delta_e_agree",
                              "classical_flip_summand_do_spin_flip_agree", "classical_deltaE_agree", "classical_spin_delta_total_agree",
                              "classical_edge_delta_agree", "classical_worm_bias_term_agree", "classical_energy_coupling_term_agree", "classical_rowEnergy_agree",
                              "classical_energy_bias_term_agree", "classical_getEnergy_agree", "classical_doTimeStep_agree", "classical_only_basic_default_agree",
                              "classical_cumTable_agree", "classical_importance_guard_agree"],
    "Stepper": ["stepper_sampling_freq_agree", "stepper_measureBody_agree", "stepper_average_n_agree", "stepper_average_n_agree_avgN", "chunk_init_agree",
                            "chunk_continue_agree", "chunk_iter_agree", "chunk_final_energy_agree", "chunk_init_remaining_parallel_agree",
                            "chunk_init_to_swap_parallel_agree", "chunk_init_to_sample_parallel_agree", "chunk_continue_parallel_agree",
                            "chunk_t_parallel_agree", "chunk_energy_acc_parallel_agree", "chunk_to_sample_dec_parallel_agree",
                            "chunk_to_swap_dec_parallel_agree", "chunk_remaining_dec_parallel_agree", "chunk_swap_due_parallel_agree",
                            "chunk_to_swap_reset_parallel_agree", "chunk_sample_due_parallel_agree", "chunk_to_sample_reset_parallel_agree",
                            "chunk_final_energy_parallel_agree"],
    "Loop": ["loop_exit_agree", "loop_start_agree", "loop_total_vars_agree"],
    "BondContainer": ["bc_correct_total_agree", "bc_grow_agree", "bc_insert_agree", "bc_remove_index_agree", "bc_pick_loop_agree"],
    "Autocorr": ["autocorr_mean_agree", "autocorr_center_agree", "autocorr_norm_agree", "dot_div", "rot_map", "autocorr_norm_agree_colAutocorr",
                             "autocorr_final_agree", "autocorr_final_agree_autocorr", "autocorr_spin_value_agree", "autocorr_spin_value_product_agree",
                             "autocorr_mappers_agree"],
}
# … namespace Qmc.PureFnsAgreeCluster (the theorems about QmcModel/Cluster.lean keep their old namespace)
GROUP_THEOREMS_C = {
    "Prelude": ["fabs_agree"],
    "ClusterIsing": ["isingFrozen_agree", "isingFrozen_agree_single_cluster_step", "twoSiteW_agree", "transverseW_agree", "longitudinalW_agree",
                     "bonds_fn_agree_isingClusterHam"],
    "RefreshIsing": ["freeRefresh_agree"],
}
ALL_GROUPS = list(GROUP_THEOREMS)

TRUSTED = ("tools/translate_pure.py (locates a whitelist of small pure Rust functions by regex, parses them with a ~20-construct "
           "typed expression grammar, emits Lean; fails closed per group on anything else; f64 read as exact Rat, usize as Nat)")


def groups_for(prop, groups=None):
    """the groups a check looks at: explicit list, else RELEVANT[prop] (unknown property: all), + DEPS + Prelude"""
    gs = list(groups) if groups is not None else list(RELEVANT.get(prop, ALL_GROUPS))
    out = ["Prelude"]
    todo = list(gs)
    while todo:
        g = todo.pop(0)
        if g not in GROUP_THEOREMS:
            raise ValueError("pure_fns: unknown group %r" % g)
        if g not in out:
            out.append(g)
            todo += DEPS.get(g, [])
    return out


def module_path(g):
    return os.path.join(common.LEAN, "QmcProofs", "PureFnsAgree", g + ".lean")


def _theorem_at(lines, lineno):
    """name of the theorem whose text (doc comment included) contains line `lineno` (1-based)"""
    starts = []
    for i, l in enumerate(lines):
        m = re.match(r"\s*theorem\s+([\w'.]+)", l)
        if not m:
            continue
        j = i
        if j > 0 and lines[j - 1].rstrip().endswith("-/"):
            k = j - 1
            while k >= 0 and not lines[k].lstrip().startswith("/--"):
                k -= 1
            if k >= 0:
                j = k
        starts.append((j + 1, m.group(1)))
    best = None
    for st, name in starts:
        if st <= lineno:
            best = name
    return best


def broken_theorems(build_output, g):
    path = module_path(g)
    lines = open(path).read().splitlines() if os.path.exists(path) else []
    names = []
    for m in re.finditer(r"error:?\s*\S*PureFnsAgree/%s\.lean:(\d+):\d+" % re.escape(g), build_output):
        t = _theorem_at(lines, int(m.group(1)))
        if t and t not in names:
            names.append(t)
    return names


def _lake(targets):
    with common.Lock("lake"):
        rc, out, err = common.sh(["lake", "build"] + targets, cwd=common.LEAN, timeout=3000)
        if rc != 0 and "no such file or directory" in (out + err):
            # transient: an UNLOCKED `lake build` of somebody else (a manual build, `lake build QmcAll`) was rewriting the same
            # .olean while ours ran (seen once during parallel scratch runs); the build is idempotent, try once more
            rc, out, err = common.sh(["lake", "build"] + targets, cwd=common.LEAN, timeout=3000)
        return rc, out, err


def _failed_modules(text, gs):
    """which of the group modules did not build (lake lists them as `- <module>` / marks them `✖ … Building <module>`)"""
    bad = set()
    for g in gs:
        mod = MODPREFIX + g
        if re.search(r"(?m)^- %s\s*$" % re.escape(mod), text) or re.search(r"✖ \[\d+/\d+\] (?:Building|Built|Running) %s\b" % re.escape(mod), text) \
                or re.search(r"error:?\s*\S*PureFnsAgree/%s\.lean:" % re.escape(g), text):
            bad.add(g)
    return bad


def _audit(ck, gs):
    """#print axioms for every agreement theorem of the groups `gs` (all built): one obligation per theorem, one source scan"""
    theorems = []
    for g in gs:
        theorems += ["Qmc.PureFnsAgree." + t for t in GROUP_THEOREMS[g]]
        theorems += ["Qmc.PureFnsAgreeCluster." + t for t in GROUP_THEOREMS_C.get(g, [])]
    os.makedirs(os.path.join(common.LEAN, ".audit"), exist_ok=True)
    name = ck.prop + "-purefns"
    path = os.path.join(common.LEAN, ".audit", name + ".lean")
    with open(path, "w") as f:
        for g in gs:
            f.write("import %s%s\n" % (MODPREFIX, g))
        for t in theorems:
            f.write("#print axioms %s\n" % t)
    ck.checker_cmds.append("cd /verif/lean && lake env lean .audit/%s.lean   # #print axioms for %d agreement theorems of groups %s" % (name, len(theorems), ",".join(gs)))
    rc, out, err = common.sh(["lake", "env", "lean", path], cwd=common.LEAN, timeout=1800)
    text = out + err
    found = {}
    for m in re.finditer(r"'([^']+)' depends on axioms: \[([^\]]*)\]", text, re.S):
        found[m.group(1)] = set(a.strip() for a in m.group(2).replace("\n", " ").split(",") if a.strip())
    for m in re.finditer(r"'([^']+)' does not depend on any axioms", text):
        found[m.group(1)] = set()
    for t in theorems:
        if t not in found:
            ck.oblige("theorem " + t, False, "not found / did not elaborate: " + text[-1500:])
        else:
            extra = found[t] - common.ALLOWED_AXIOMS
            ck.oblige("theorem " + t, not extra, "axioms: " + ", ".join(sorted(found[t])))
    files = []
    for g in gs:
        for f in ck.lean_closure(MODPREFIX + g):
            if f not in files:
                files.append(f)
    ck.scan_sources(files)
    if ck.tier == "thorough":
        mods = [MODPREFIX + g for g in gs]
        ck.checker_cmds.append("cd /verif/lean && lake env leanchecker " + " ".join(mods))
        rc, out, err = common.sh(["lake", "env", "leanchecker"] + mods, cwd=common.LEAN, timeout=3000)
        ck.oblige("leanchecker " + " ".join(mods), rc == 0, out + err)


def completeness(gs):
    """-> list of problems: a definition of a group in `gs` that its module does not mention / a module of `gs` that mentions
    a definition of a group outside its own + DEPS"""
    bad = []
    group_of = dict(translate_pure.DEF_GROUP)
    for d in translate_pure.PRELUDE_DEFS:
        group_of[d] = "Prelude"
    for g in gs:
        path = module_path(g)
        if not os.path.exists(path):
            bad.append("module of group %s missing" % g)
            continue
        text = common.strip_lean_comments(open(path).read())
        used = set(re.findall(r"\bGen\.(\w+)", text))
        for d, dg in group_of.items():
            if dg == g and d not in used:
                bad.append("%s (group %s) has no agreement theorem" % (d, g))
        allowed = set([g, "Prelude"] + DEPS.get(g, []))
        for d in sorted(used):
            if d not in group_of:
                bad.append("%s.lean mentions unknown Gen.%s" % (g, d))
            elif group_of[d] not in allowed:
                bad.append("%s.lean mentions Gen.%s of foreign group %s" % (g, d, group_of[d]))
    return bad


def run(ck, groups=None):
    """regenerate + re-prove + audit the groups relevant to this check; returns True iff everything held"""
    n0 = len([o for o in ck.obligations if not o[1]])
    gs = groups_for(ck.prop, groups)
    label = ",".join(gs)
    with common.Lock("purefns"):
        scratch = os.path.realpath(common.REPO) != "/repo"
        saved = open(GENERATED).read() if (scratch and os.path.exists(GENERATED)) else None
        try:
            # 1. translate (fail closed per group)
            ck.checker_cmds.append("python3 /verif/tools/translate_pure.py --repo %s" % common.REPO)
            rc, msg, failures = translate_pure.regenerate(common.REPO, GENERATED)
            mine = [f for f in failures if set(f["groups"]) & set(gs)]
            other = [f for f in failures if not (set(f["groups"]) & set(gs))]
            detail = " || ".join("[%s] %s: %s" % (",".join(f["groups"]), f["site"], f["what"]) for f in mine)
            ck.oblige("translate_pure.py translated every whitelisted pure function of groups %s (fail closed otherwise)" % label,
                      rc in (0, 2) and not mine, ("translate_pure: FAIL-CLOSED: " + detail) if mine else (msg if rc not in (0, 2) else ""))
            ck.notes.append("pure_fns groups for %s: %s; %s" % (ck.prop, label, msg.split(";")[0]))
            for f in other:
                ck.notes.append("pure_fns: a translated function of an unrelated group failed closed (not an obligation of this check): [%s] %s: %s"
                                % (",".join(f["groups"]), f["site"], f["what"][:300]))
            if TRUSTED not in ck.extra_trusted:
                ck.extra_trusted.append(TRUSTED)
            # 2. re-prove the relevant groups (one lake call; per-group obligations)
            mods = [MODPREFIX + g for g in gs]
            ck.checker_cmds.append("cd /verif/lean && lake build " + " ".join(mods))
            brc, out, err = _lake(mods)
            text = out + err
            bad = _failed_modules(text, gs) if brc != 0 else set()
            if brc != 0 and not bad:
                bad = set(gs)      # could not attribute the failure: fail closed for all of this check's groups
            built = []
            for g in gs:
                if g in bad:
                    names = broken_theorems(text, g)
                    errs = [l for l in text.splitlines() if "error" in l and ("PureFnsAgree/%s.lean" % g) in l][:6]
                    d = "hand model and translated Rust source no longer agree: broken theorem(s) %s :: %s :: %s" % (
                        ", ".join(names) or "<none located>", " | ".join(errs), text[-800:])
                else:
                    d = ""
                    built.append(g)
                ck.oblige("lake build %s%s (hand model == translated Rust source, all arguments)" % (MODPREFIX, g), g not in bad, d)
            # 3. completeness / no foreign references, for the relevant groups
            probs = completeness(gs)
            # a definition that is missing only because its site failed closed is already reported by obligation 1
            ck.oblige("every generated definition of groups %s is the subject of an agreement theorem of its own group" % label, not probs, "; ".join(probs))
            # 4. audit the groups that built
            if built:
                _audit(ck, built)
        finally:
            if saved is not None and open(GENERATED).read() != saved:
                # mutation experiment on a scratch tree: put the file generated from /repo back, and the build with it
                with open(GENERATED, "w") as f:
                    f.write(saved)
                _lake([MODPREFIX + g for g in gs])
    return len([o for o in ck.obligations if not o[1]]) == n0
