"""C20 — Autocorrelation helpers compute the documented normalised autocorrelation (partial: FFT numerics are runtime)."""
from checks import big_scale
from checks import extra_c20fft
from checks import pure_fns
LEAN_TARGETS = ["QmcProps.C20", "drv_c20", "QmcProps.C20FFT"]
BINS = ["c20"]

THEOREMS = [
    "autocorr_length",
    "autocorr_getElem?",
    "colAutocorr_formula",
    "autocorr_lag_zero",
    "autocorr_defined",
    "autocorr_symm",
    "autocorr_affine_invariant",
    "calc_autocorr_samples",
    "calc_autocorr_length",
    "spinProd_perm",
    "spinProd_remove_pair",
    "prodMapper_literal",
]

RULE = ("scripted steppers walking through prescribed state / observable sequences: number of samples in "
        "{2..13,16,17,19,23,31,32,37,64} (+ {27,49,61,81,100,127,128,199,251,256} thorough: even, odd, prime, 2^k) x 1..6 "
        "observables x sampling period none/1/2/3/5 with non-divisor T, for calculate_autocorrelation (table mapper), "
        "calculate_variable_autocorrelation and calculate_spin_product_autocorrelation; values k/4 with partly smoothed "
        "(correlated) columns, columns forced non-constant; tempering helper on 1..4 mock replicas with scripted swaps; "
        "calculate_variable_autocorrelation on real Ising samplers against a single-stepped clone; excluded inputs once. "
        "Shift invariance with |mean| >> fluctuation: the table-mapper cases are repeated with a mix of columns shifted by "
        "+-2^k, k in {10,14,17,20} (every k meets power-of-two and non-power-of-two lengths), through "
        "calculate_autocorrelation, calculate_bond_autocorrelation (mapper = value_for_bond) and, in half of the temper cases, "
        "the tempering helpers (closure mapper and bond mapper). All such values and their running sums are exactly "
        "representable, so the rational model sees the same numbers; the unchanged code removes the rounded mean first, which "
        "shifts every entry of a column by the same delta <= 2^(k-53) and therefore perturbs the result only in second order "
        "(T*delta^2/sum y^2 < 1e-16 for k <= 20; measured worst deviation from the model 1.4e-15), far below the 1e-9 tolerance. "
        "Scale invariance with tiny values: the same cases with a mix of columns multiplied by 2^-60 or 2^-100 (non-constant, "
        "norm far below f64::EPSILON; exact power-of-two scaling, exact rationals in the model), through the same entry points "
        "and a quarter of the temper cases; the oracle rescales by a power of two before its direct evaluation. "
        "genbond: calculate_bond_autocorrelation and the tempering bond helper on real generic Qmc samplers with 1..4-variable "
        "interactions (full matrices with/without offset, diagonal tables) whose diagonals differ only in late rows / only in "
        "early rows / nowhere; observables must be exactly the registered interactions with a non-constant diagonal (judged by "
        "the harness from all 2^n entries), n_bonds() must equal their number, output = direct autocorrelation over them. "
        "isingbond: calculate_bond_autocorrelation and the tempering bond helper on real QmcIsingGraph samplers on 3..5-site "
        "rings/stars/chains/random graphs (both edge orientations, mixed-sign J != 0, an edge on the two last variables, "
        "duplicate edges); observable of edge (a,b,J) = +1 iff satisfied (equal spins for J<0, different for J>0), computed by "
        "the harness from s[a], s[b], sign J on the states of an identically seeded clone. "
        "temper oracle = identically built reference container driven in lock step (serial semantics): samples, final "
        "arrangement and total_swaps; plus the swap-period boundary s in {T-1,T,T+1,2T} with f dividing T, equal betas, every "
        "exchange accepted. "
        "Spin products list 1..3 variables plus repeated indices (even and odd multiplicities, shuffled), taken literally by "
        "oracle and model; tempering variable / spin-product helpers on mock replicas with prescribed spin states; isingbond "
        "graphs include J = 0 and |J| = 2^-60 edges (first/middle/last/all), observables over ALL listed edges, n_bonds() == "
        "edges.len(). "
        "A few cases per mode use 65..130 spins with 6..13 samples (products with indices >= 64: [63,64], mixed, all high, "
        "repeated high; variable helper; bonds on sites >= 64; tempering spin helpers). "
        "Non-trivial = all columns non-constant (oracle applies); distinct = distinct input line.")


def main(ck):
    pure_fns.run(ck)   # source->Lean translation of the arithmetic around the FFT calls (group Autocorr) and of the measuring loop (group Stepper), re-proved equal to the hand models
    if ck.lake_build(LEAN_TARGETS):
        ck.audit("QmcProps.C20", ["Qmc.C20." + t for t in THEOREMS])
    if ck.cargo_build(BINS):
        for mode in ["custom", "vars", "prod", "temper", "real", "genbond", "isingbond", "edge"]:
            cases = ck.harness("c20", [mode])
            ck.correspond(mode, "drv_c20", cases)
    ck.assumptions += [
        "PARTIAL: the theorems are about exact arithmetic; the FFT route as the code writes it (forward DFT, norm_sqr, unnormalised inverse DFT, divisions) is PROVED equal to the direct circular sum for all lengths and inputs (Wiener-Khinchin, QmcProps/C20FFT.lean: wiener_khinchin, fft_route_eq_direct); that rustfft computes the DFT it documents and the f64 rounding of the route are compared numerically (1e-9) on every run, not proved",
        "columns are non-constant and there is at least one sample and one observable (otherwise NaN / panic: documented, run once in mode edge)",
        "sampling period >= 1; mapper returns rows of equal length; spin-product variables are in range",
    ]
    ck.extra_trusted += ["rustfft and f64 rounding of the FFT route (observed to 1e-9, not modelled)"]
    extra_c20fft.run(ck)   # Wiener-Khinchin: the FFT pipeline of the code = the direct-sum model (audited theorems)
    big_scale.run(ck, "longrun.autocorr")   # large-scale regime (>65536 bonds/ops/slots, release semantics): model-free oracles of the property statements
    return ck.finish(RULE)
