"""C11 — the FastOps operator container's bookkeeping always agrees with its contents."""
from checks import big_scale
from checks import fault_inj
from checks import api_cov
from checks import extra_c11hint
LEAN_TARGETS = ["QmcProps.C11", "drv_c11", "QmcProps.C11Hint"]
BINS = ["c11", "c11h"]

THEOREMS = [
    "refine_step",
    "refine_seq",
    "refine_seq_new",
    "mutate_p_refines",
    "cursor_correct",
    "install_refines",
    "install_empty",
    "strictIncr_iff",
    "install_rejects_iff",
    "install_checked_refines",
    "nth_eq_scan",
    "by_var_eq_scan",
    "nav_round_trip",
    "nav_round_trip_back",
    "sub_cursor_correct",
    "varlist_unfilled",
    "mutate_p_sub_refines",
    "getters_eq_scan",
    "getters_after_history",
    "interface_algorithms_agree",
    "refine_step_canon",
    "applyC_shape",
    "new_inv",
    "inv_implies_global",
    "endsOK_of_inv",
    "mutate_p_global",
    "cursor_correct_partial",
    "refine_step_partial",
    "refine_step_partial_of_Inv",
    "refine_seq_partial",
]

RULE = ("one PRNG (SplitMix64 from the seed) generates HISTORIES of mutations applied to a real qmc FastOps and replayed by the "
        "stateful Lean model: each history starts with `new` (nvars 1..6; bond counters absent ~40% or 1..6 bonds) or `install` "
        "(~25%, new_from_ops on a random increasing op list, also empty / single-op) and continues with up to 200 (quick, cutoff <= 40) "
        "/ 2000 (thorough, cutoff <= 200, most histories cutoff <= 60) mutations: single-slot mutate_p through a filled cursor "
        "(insert into an empty slot, removal, same-vars replacement = fast path with same or different bond and in/out, "
        "different-vars replacement incl. permutations of the same variables, no-ops), mutate_ps sweeps over arbitrary sub-ranges and "
        "the full range mixing keep/remove/set (with array growth when pend exceeds the cutoff), mutate_ops sweeps (pend inclusive), "
        "set_cutoff growth and no-op shrink requests, sub-variable sweeps mutate_subsection / mutate_subsection_ops whose cursor is "
        "built in one of three ways (1/3 each): Varlist + fill_args_at_p_with_hint (hints `_` or any position holding an op on that "
        "variable), `N` = get_empty_args + plain fill_args_at_p, `A` = additionally through SubvarAccess::Args; for N/A the variable "
        "list is `*` (SubvarAccess::All) in 1/4 of the cases; variable lists are random subsets in random order (non-leading ones "
        "like [3], [2,3], [1,3] included); ~15% of the histories (nvars >= 3) never put an op on variable 0 (half of them also not on 1) "
        "so that only high variables carry ops while Varlists name the high ones; clear-everything-then-refill episodes and single-op "
        "insert/remove histories. Ops have 1..3 pairwise distinct variables (3 spills the SmallVec), diagonal or offdiagonal, random "
        "bond/in/out/constant flag. Generation stays inside the valid domain (what the Rust debug_asserts / unwraps demand; for N/A "
        "Varlist fills: some listed variable has an op or nothing below pstart is occupied); six excluded points (self-loop op, "
        "zero-variable op, Varlist cursor without hint and without listed ops, removal inside mutate_ops, mutate_ps starting at the array "
        "length, hint fill beyond the array length) are run once as probes and documented as STAT lines. After EVERY mutation the harness "
        "prints the contents, the serde snapshot of all private pointers (n, p_ends, var_ends, bond_counters, per node previous/next and "
        "per-variable links), every public getter (get_n, first/last p, get_count(0..8), per-variable first/last/has, node links through "
        "the LoopUpdater rel-var getters, get_nth_p(0..n)), fill_args_at_p cursors at 0..5 query positions, the by-variable accessors "
        "get_previous_p_for_var / get_next_p_for_var for every (occupied slot, variable) incl. variables not on the op (Err) and "
        "iterate_ops / iterate_ps over the range spanned by the query positions; the model must reproduce all 14 tokens. Oracle (real "
        "code only): every pointer/getter/cursor compared with a direct scan of get_pth(0..cutoff); by-variable accessors vs the scan, vs "
        "the rel-var accessors and forward/backward consistent; iterate_ops == try_iterate_ops == occupied slots in [a,b], iterate_ps == "
        "try_iterate_ps == slots a..min(b,cutoff); the cursor built by an N/A fill is compared with the scan BEFORE the mutation runs; the "
        "contents are compared with a naive slot array kept by the harness; a panic inside the domain is a failure; a failing history is "
        "delta-debugged to a minimal mutation sequence. Non-trivial = the container holds at least one op after the mutation; distinct = "
        "distinct (history, step, contents-before hash, mutation, query positions).")


def main(ck):
    if ck.lake_build(LEAN_TARGETS):
        if THEOREMS:
            ck.audit("QmcProps.C11", ["Qmc.C11." + t for t in THEOREMS])
        extra_c11hint.run(ck)   # hint fills, propagated substate, read-only iterators, heap-branch sub-sweeps: refinement theorems
    if ck.cargo_build(BINS):
        cases = ck.harness("c11", ["hist"])
        ck.correspond("container-histories", "drv_c11", cases)
        extra_c11hint.correspond(ck)   # the same helpers on the real FastOps vs the model and vs naive scans
    api_cov.run(ck, "c11")   # otherwise unexercised public API, model-free oracles of this property
    big_scale.run(ck, "manyops.onebond")   # large-scale regime (>65536 bonds/ops/slots, release semantics): model-free oracles of the property statements
    big_scale.run(ck, "longstring.ring", tags=["C18"])   # large-scale regime (>65536 bonds/ops/slots, release semantics): model-free oracles of the property statements
    fault_inj.run(ck, "container")   # fault injection: a public call that panics part-way (bad beta, failing rng/Hamiltonian/callback) under catch_unwind; a surviving object must satisfy the property oracles
    return ck.finish(RULE + extra_c11hint.RULE)
