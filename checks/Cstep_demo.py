"""temporary plugin: runs the whole-timestep helper on its own (deleted afterwards)"""
from checks import full_step
LEAN_TARGETS = full_step.LEAN_TARGETS
BINS = full_step.BINS
THEOREMS = []
RULE = full_step.RULE
def main(ck):
    full_step.run(ck, modes=["generic"])
    return ck.finish(RULE)
