"""temporary plugin: runs the whole-timestep helper on its own (deleted after the mutation experiments)"""
from checks import full_step
LEAN_TARGETS = full_step.LEAN_TARGETS
BINS = full_step.BINS
THEOREMS = []
RULE = full_step.RULE
def main(ck):
    full_step.run(ck)
    return ck.finish(RULE)
