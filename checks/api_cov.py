"""Public-API coverage oracle (harness bin `apicov`): every externally reachable function of the crate that no property
harness calls (census: `tools/api_census.py`) is exercised in realistic sequences — constructors against the canonical
constructor, thread_rng convenience wrappers and `_with_rng` / `_with_rng_and_state_ref` variants against the sampler-level
calls under the same RNG state, accessors against a scan of the slots, a naive slot-array container driving the generic
sampler through the provided trait methods, Clone / Debug / PartialEq / serde of every public type, every measuring helper
against a manual loop, the allocator and bond-container surface — and each call is followed by MODEL-FREE oracles taken from
the property statements (world-line consistency C06, legality C07, getters = scan C11, cutoff rule C12, pool balance C18,
determinism of copies C13/C14, cadence and energy C17, exchange bookkeeping C10, classical energy / Metropolis rule C19).
Model-independent like `kern` (the output column is the constant `ok`): it supports the search for failing inputs behind
otherwise unexercised public API and is not a proof. `run(ck, mode)` is called from the check of the property whose
statement supplies the oracle; `mode` is the harness mode (`c01`, `c03`, `c04`, `c06`, … — see harness/src/bin/apicov.rs)."""
import hashlib
import re

BIN = "apicov"


def _own(ck, msg, tags):
    """A failure message names the property whose statement supplied the violated oracle ("C11 get_n 4 vs scan 3",
    "C13/C14 serde …"); a check counts a failure only if one of its messages names its own property (or one of `tags`) or
    names no property at all (a library panic inside the scenario). Failures that belong to another property are that
    property's business — they are tallied in the evidence (stat apicov_foreign_failures) and raise no alarm here."""
    own = False
    for part in msg.split(";"):
        found = set(re.findall(r"\bC\d\d\b", part))
        if not found or (found & tags):
            own = True
    return own


def run(ck, cov_mode, tags=None):
    mode = "public-api-coverage"
    tags = set(tags or []) | {ck.prop}
    # the bin is (re)built here as well, so the oracle never runs a stale binary if "apicov" is missing from the caller's BINS
    # (a no-op when the caller already built it)
    if not ck.cargo_build([BIN]):
        return
    cases = ck.harness(BIN, [cov_mode])
    if not cases:
        ck.oblige("correspondence %s produced cases" % mode, False, "harness produced no cases (apicov %s)" % cov_mode)
        return
    fails = 0
    kinds = {}
    for c in cases:
        ck.evaluations += 1
        parts = c["input"].split(" ", 2)
        kind = "apicov-" + "-".join(parts[:2])
        kinds[kind] = kinds.get(kind, 0) + 1
        if c["nt"]:
            ck.distinct.add(hashlib.sha1((mode + c["input"]).encode()).hexdigest())
        if c["output"].strip() != "ok" or c["oracle"] is None or c["oracle"].startswith("FAIL"):
            if c["oracle"] and c["oracle"].startswith("FAIL") and not _own(ck, c["oracle"][5:], tags):
                ck.stats["apicov_foreign_failures"] = ck.stats.get("apicov_foreign_failures", 0) + 1
                continue
            fails += 1
            ck.add_failure("oracle", mode, c, "ok", (c["oracle"] or "FAIL:no verdict")[5:], True)
    prev = ck.modes.get(mode)
    if prev:  # several apicov modes wired into one check: accumulate
        for k, v in kinds.items():
            prev["kinds"][k] = prev["kinds"].get(k, 0) + v
        prev["cases"] += len(cases)
        prev["oracle_failures"] += fails
    else:
        ck.modes[mode] = {"cases": len(cases), "kinds": kinds, "disagreements": 0, "ties_skipped": 0, "oracle_failures": fails}
    exercised = sorted(k[4:] for k in ck.stats if k.startswith("api."))
    ck.notes.append("public-api-coverage (%s): %d scenarios on otherwise unexercised public API (%d distinct functions counted by "
                    "STAT api.* lines so far), each followed by model-free oracles from the property statements (consistency, "
                    "legality, getters = scan, cutoff rule, pool balance, identical continuation of copies, cadence/energy of "
                    "measuring helpers); a model-independent oracle that supports the search for failing inputs, not a theorem"
                    % (cov_mode, len(cases), len(exercised)))
    ck.oblige("%s: model-free oracles hold on %d scenarios of otherwise unexercised public API (apicov %s)"
              % (mode, len(cases), cov_mode), fails == 0, "%d oracle failures" % fails)
