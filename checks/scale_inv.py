"""Scale-invariance twin oracle (harness bin `scale`): for a power-of-two factor c = 2^-k binary64 arithmetic is exactly
covariant, so the model (J, Gamma, h, interaction matrices) times c sampled at beta / c from the same RNG state must give the
IDENTICAL trajectory (states, operator strings incl. positions / bonds / in-out values, cutoff, n, number of RNG draws and
last word) and energies / offsets exactly c times the unit-scale ones (bitwise after multiplying by 2^k) — as long as nothing
under/overflows and no ABSOLUTE threshold is crossed. With k <= 40 and |values| >= 1/8 every scaled quantity stays >= 2^-43,
far above the f64::EPSILON thresholds of the unchanged library (F23, F24, verify(), calculate_mult), so the unchanged code is
exactly invariant; an absolute tolerance / floor introduced on the numeric path (bit-for-bit invisible at unit scale) shows as a
divergence of a twin. Every scenario runs the unit-scale object and its twins k = 20, 30, 40 in lockstep and compares after
every public call; Ising models with h = 0 driven through single_diagonal_step + single_cluster_step only (a path without any
absolute threshold in the unchanged code) also get a deep twin k = 60. RVB proposals of the unchanged code are NOT covariant
(unit weight 1.0 of imaginary-time neighbours next to |J| of spatial neighbours): mode c03 only demands that the scaled runs
stay valid. Model-independent like `kern` / `apicov` (output column `ok`); not a proof. `run(ck, mode, tags=None)`; every failure
message starts with the tag of the property whose call diverged."""
import hashlib
import re

BIN = "scale"


def _own(ck, msg, tags):
    """A failure message names the property whose call made a twin diverge ("C08 scale invariance: call 3 …"); a check counts a
    failure only if one of its ';'-separated messages names its own property (or one of `tags`) or names no property at all (a
    library panic at unit scale). Failures that belong to another property are tallied (stat scale_foreign_failures)."""
    own = False
    for part in msg.split(";"):
        found = set(re.findall(r"\bC\d\d\b", part))
        if not found or (found & tags):
            own = True
    return own


def run(ck, scale_mode, tags=None):
    mode = "scale-invariance-twin"
    tags = set(tags or []) | {ck.prop}
    # (re)built here too, so the oracle never runs a stale binary if "scale" is missing from the caller's BINS
    if not ck.cargo_build([BIN]):
        return
    cases = ck.harness(BIN, [scale_mode])
    if not cases:
        ck.oblige("correspondence %s produced cases" % mode, False, "harness produced no cases (scale %s)" % scale_mode)
        return
    fails = 0
    kinds = {}
    for c in cases:
        ck.evaluations += 1
        parts = c["input"].split(" ", 2)
        kind = "scale-" + "-".join(parts[:2])
        kinds[kind] = kinds.get(kind, 0) + 1
        if c["nt"]:
            ck.distinct.add(hashlib.sha1((mode + c["input"]).encode()).hexdigest())
        if c["output"].strip() != "ok" or c["oracle"] is None or c["oracle"].startswith("FAIL"):
            if c["oracle"] and c["oracle"].startswith("FAIL") and not _own(ck, c["oracle"][5:], tags):
                ck.stats["scale_foreign_failures"] = ck.stats.get("scale_foreign_failures", 0) + 1
                continue
            fails += 1
            ck.add_failure("oracle", mode, c, "ok", (c["oracle"] or "FAIL:no verdict")[5:], True)
    prev = ck.modes.get(mode)
    if prev:  # several scale modes wired into one check: accumulate
        for k, v in kinds.items():
            prev["kinds"][k] = prev["kinds"].get(k, 0) + v
        prev["cases"] += len(cases)
        prev["oracle_failures"] += fails
    else:
        ck.modes[mode] = {"cases": len(cases), "kinds": kinds, "disagreements": 0, "ties_skipped": 0, "oracle_failures": fails}
    ck.notes.append("scale-invariance-twin (%s): %d scenarios, each run at unit scale and with the model times 2^-k at beta times 2^k "
                    "(k = 20, 30, 40; deep twin k = 60 on the threshold-free Ising path) from the same RNG state and compared after "
                    "every public call: identical states, operator strings, cutoff, n, RNG draws; energies exactly 2^-k times the "
                    "unit-scale ones; a model-independent oracle against absolute tolerances / floors, not a theorem"
                    % (scale_mode, len(cases)))
    ck.oblige("%s: twins scaled by powers of two follow the unit-scale trajectory exactly on %d scenarios (scale %s)"
              % (mode, len(cases), scale_mode), fails == 0, "%d oracle failures" % fails)
