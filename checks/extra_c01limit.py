"""C01, the limit L -> infinity of the capstone (lean/QmcProps/C01Limit.lean; helpers lean/QmcProofs/CapstoneLimit.lean
[matrix analysis, Mathlib's NormedSpace.exp], CapstoneCount.lean [operator-count-graded re-indexing over the sampler's
configuration space], CapstoneLimitIsing.lean [isingMatrix symmetric, St N non-empty]):

* `taylor_tendsto_exp` (+ `_entry`, `_trace`): for every real square matrix over a finite index type the Taylor
  polynomials `sum_{k<=L} beta^k/k! A^k` converge (entrywise) to `NormedSpace.exp (beta . A)`; `exp_offset_factor`:
  `e^{beta(C.1 - H)} = e^{beta C} . e^{-beta H}`; `exp_symm_diag_pos`, `exp_symm_trace_pos`: the diagonal entries and the
  trace of the exponential of a real SYMMETRIC matrix are positive (so `Tr e^{-beta H} != 0` is proved, not assumed);
  `isingMatrix_symm`.
* `ising_marginal_tendsto`: valid Ising spec, Gamma >= 0, FieldOK, any beta: the normalised alpha-marginal of the cut SSE
  measure `sseCutOn s.ham beta (cfgSpace s.ham nvars L)` (the measure `ising_capstone` proves invariant) tends, as
  L -> infinity, to `<alpha|e^{-beta H}|alpha> / Tr e^{-beta H}`; `ising_partition_tendsto`: its total mass tends to
  `e^{beta C} Tr e^{-beta H}`; `ising_limit_pos`, `ising_limit_sum_one`: the limit is a probability vector with full support.
* `ising_mean_n`: `sum_c (#operators of c) pi_L(c) = sum_{n<=L} n beta^n/n! Tr((C.1-H)^n)` over the configuration space;
  `ising_energy_tendsto`: `C - <n>_L/beta -> Tr(H e^{-beta H}) / Tr e^{-beta H}` (beta != 0).
* `ising_capstone_limit`: for the sampler, invariance at every L (beta > 0) and the three limits in one statement.

Still NOT claimed: ergodicity, convergence of the chain to pi_L, uniqueness of the invariant measure.

Built and audited (#print axioms + forbidden-token scan over the import closure) as extra obligations of C01.
Usage from the C01 plugin: `from checks import extra_c01limit; extra_c01limit.run(ck)`."""
MODULE = "QmcProps.C01Limit"
C01 = "Qmc.C01."
CL = "Qmc.CapstoneLimit."
THEOREMS = (
    [C01 + t for t in [
        "taylor_tendsto_exp", "taylor_tendsto_exp_entry", "taylor_tendsto_exp_trace", "exp_offset_factor",
        "exp_symm_diag_pos", "exp_symm_trace_pos", "isingMatrix_symm", "ising_trace_exp_pos",
        "ising_marginal_tendsto", "ising_partition_tendsto", "ising_limit_pos", "ising_limit_sum_one",
        "ising_mean_n", "ising_energy_tendsto", "ising_capstone_limit"]]
    + [CL + t for t in [
        "hasSum_taylor", "partialExp_tendsto", "exp_scalar_add", "exp_offset", "exp_diag_pos", "exp_trace_pos",
        "toReal_pow", "toReal_offset", "toReal_isSymm", "cast_partial_entry", "cast_partial_trace",
        "cast_partial_trace_succ", "marginal_tendsto", "partition_tendsto", "marginal_ratio_tendsto",
        "mean_n_tendsto", "energy_tendsto",
        "W_eq_pow", "config_marginal_g", "config_partition_g", "sseCutOn_total_g",
        "agreeOff_comm", "isingMatrix_symm"]]
)


def run(ck):
    save = ck.prop
    try:
        if ck.lake_build([MODULE]):
            ck.prop = save + "limit"          # separate .audit file
            ck.audit(MODULE, THEOREMS)
    finally:
        ck.prop = save
