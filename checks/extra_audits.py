"""Theorems proved in cross-property files (refinement of the exact update models into the C06/C07 relations,
kernel composition) that a property's claim also rests on: built and audited (#print axioms) as extra
obligations of that property's check."""
REFINE = "Qmc.Refine."
EXTRA = {
    "C08": [("QmcProofs.Refinement", [REFINE + t for t in [
        "metropolisSweep_is_diagSweepStep", "heatBathSweep_is_diagSweepStep", "sweep_is_diagSweepStep",
        "makeBondWeights_tableOK", "metroSigns_needed", "tableOK_needed"]])],
    "C06": [("QmcProofs.Refinement", [REFINE + t for t in [
        "metropolisSweep_pres", "heatBathSweep_pres", "freeRefresh_is_freeStep", "freeRefresh_pres", "freeRefresh_driver",
        "sampler_step_history", "sampler_step_history_with", "spinFlipStep_of_consistent", "flipCert_spinFlipStep",
        "certifiedUpdate_is_spinFlipStep", "loopUpdate_is_step"]])],
    "C07": [("QmcProofs.Refinement", [REFINE + t for t in [
        "metropolisSweep_is_step", "heatBathSweep_is_step", "freeRefresh_is_step", "certifiedUpdate_pres",
        "presUpdate_is_step", "loopUpdate_pres", "loopUpdate_sameSkeleton", "ising_metroSigns"]])],
    "C12": [("QmcProofs.Refinement", [REFINE + t for t in [
        "run_consistent_legal_headroom", "run_consistent_legal_headroom_with", "diagSweepStep_isSweepResult",
        "certifiedUpdate_midOK"]])],
    "C09": [("QmcProofs.RefinementClusterExact", [REFINE + t for t in [
        "clusterMove_flipCert", "clusterUpdate_flipCert", "clusterUpdate_keepsWeight", "exactClusterUpdate_flipCert",
        "exactClusterUpdate_keepsWeight"]])],
}


def run(ck):
    save = ck.prop
    try:
        for i, (module, thms) in enumerate(EXTRA.get(save, [])):
            if ck.lake_build([module]):
                ck.prop = "%sx%d" % (save, i)
                ck.audit(module, thms)
    finally:
        ck.prop = save
