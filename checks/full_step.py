"""Whole-`timestep` trajectories (helper; call `full_step.run(ck)` from a property's plugin).

Builds the driver `drv_step` (lean/QmcModel/Sampler.lean: `isingTimestep`, `genericTimestep` = exact model of one
whole `QmcIsingGraph::timestep` / `Qmc::timestep` with RVB off) and the harness bin `fullstep`, then replays whole real
time steps: k = 1..30 consecutive `timestep(beta)` of real `DefaultQmcIsingGraph<RecRng>` / `DefaultQmc<RecRng>` samplers,
a fresh dyadic beta per step; per step the model receives the full sampler state before + the RNG words that step
consumed and must reproduce operator string (incl. tags), state, n, cutoff and the draw count exactly.
`audit=True` also builds and audits the preservation theorems of QmcProofs/Sampler*.lean.
"""
LEAN_TARGETS = ["drv_step"]
BINS = ["fullstep"]
MODES = ["ising", "generic"]

# (module, theorems) — the first two were written when the two halves could not be co-imported; Composed came after the cleanup
THEOREMS = [
    ("QmcProofs.SamplerStep", ["Qmc.Sampler." + t for t in [
        "freeRefresh_eq", "isingTimestepWith_eq", "isingTimestepWith_pres", "isingTraceWith_inv", "isingRunWith_inv",
        "loopUpdate_loopCert", "stepLoop_eq", "loopK_stepOK", "genericTimestepWith_pres", "genericRunWith_inv"]]),
    ("QmcProofs.SamplerCluster", ["Qmc.Sampler." + t for t in [
        "clusterK_flipCert", "clusterK_clusterCert", "ising_clusterCert", "generic_clusterCert"]]),
    # since the name-clash cleanup (design_notes/Cleanup.md) everything co-imports: the composition stated directly
    # about the functions drv_step replays (exact cluster / loop kernels, C06/C07 invariants, kernel invariance)
    ("QmcProofs.Composed", ["Qmc.Composed." + t for t in [
        "clusterUpdate_is_step", "ising_clusterUpdate_is_step", "isingTimestep_pres", "isingTrace_inv", "isingRun_inv",
        "genericTimestep_pres", "genericTrace_inv", "isingSpec_timestep_invariant", "isingSpec_timestep_invariant_hb",
        "longitudinal_eq_longitudinalW", "isingSpec_ham_fields", "isingSpec_ham_eq"]]),
]

RULE = ("whole-timestep trajectories: real Ising samplers on 2..6 spins (multi-edges, isolated spins, J of both signs k/8, "
        "Gamma = k/8 > 0, h = 0 / > 0 / < 0, heat-bath on/off, initial cutoff 1..3*nvars, random initial state) and real generic "
        "samplers on 1..5 variables (exchange / pair-flip terms with loop updates, symmetric + constant single-site terms with "
        "cluster updates, both together, symmetry-breaking fields, three-site terms, constant two-site terms, heat-bath on/off, "
        "a term added in mid-run), k = 1..30 consecutive timestep(beta) with a fresh dyadic beta per step; one case per step; "
        "non-trivial = the step consumed at least one RNG word; distinct = distinct (state before, draw log)")


def run(ck, modes=None, audit=False):
    """returns True iff everything could be built (the comparisons themselves are recorded in `ck`)"""
    ok = True
    if ck.lake_build(LEAN_TARGETS):
        if audit:
            save = ck.prop
            try:
                for i, (module, thms) in enumerate(THEOREMS):
                    if ck.lake_build([module]):
                        ck.prop = "%sstep%d" % (save, i)
                        ck.audit(module, thms)
                    else:
                        ok = False
            finally:
                ck.prop = save
    else:
        ok = False
    if ok and ck.cargo_build(BINS):
        for m in (modes or MODES):
            ck.correspond("full-timestep-" + m, "drv_step", ck.harness("fullstep", [m]))
        # the same whole time steps with the real code compiled WITHOUT debug assertions (release semantics): a change whose
        # effect is hidden behind debug_assert! (e.g. a side effect moved into one) is invisible in the dev profile
        if ck.cargo_build(BINS, profile="nodebug"):
            for m in (modes or MODES):
                ck.correspond("full-timestep-" + m + "-release", "drv_step", ck.harness("fullstep", [m], profile="nodebug"))
        else:
            ok = False
    else:
        ok = False
    return ok
