"""C04, row mass of the fuel-truncated directed-loop kernel and its limit (lean/QmcProps/C04Mass.lean over
lean/QmcProofs/LoopKernelMass.lean and LoopKernelMassLimit.lean): non-negativity and monotonicity in the fuel,
sub-stochasticity on every configuration, the exact accounting `row mass + open-walk mass = 1` on legal
configurations, sub-invariance of the cut SSE measure with its exact defect, the limit kernel (exists, reversible,
sub-stochastic, row mass = 1 - lim open mass, stochastic iff open mass -> 0) and the Doeblin-type sufficient
condition for termination with probability 1. Built and audited (#print axioms + source scan) as extra
obligations of C04; call `extra_c04mass.run(ck)` from the C04 plugin."""
MODULE = "QmcProps.C04Mass"
NS = "Qmc.C04."
THEOREMS = [NS + t for t in [
    "loopKn_nonneg",
    "loopKn_mono",
    "loop_open_mass_antitone",
    "loopKn_row_le_one",
    "loop_walk_closed_add_open",
    "loopKn_row_add_open",
    "loop_some_leg_exists",
    "loop_kernel_subinvariant_truncated",
    "loop_kernel_flow_defect_truncated",
    "loop_kernel_limit_exists",
    "loop_kernel_limit_reversible",
    "loop_kernel_limit_reversible_cut",
    "loop_kernel_limit_row_le_one",
    "loop_kernel_limit_row_mass",
    "loop_kernel_limit_stochastic_iff",
    "loop_open_mass_geometric",
    "loop_open_mass_geometric_one_visit",
    "loop_kernel_limit_stochastic_of_geometric",
]]


def run(ck):
    save = ck.prop
    try:
        if ck.lake_build([MODULE]):
            ck.prop = save + "mass"          # separate .audit file
            ck.audit(MODULE, THEOREMS)
    finally:
        ck.prop = save
