"""C18 — pooled scratch buffers are always returned: no leak, exhaustion or stale data."""
from checks import big_scale
import os
import sys

from . import common
from checks import api_cov

LEAN_TARGETS = ["QmcProps.C18", "drv_c18"]
BINS = ["c18"]

THEOREMS = [
    "summary_sound",
    "summary_sound_matcher",
    "matcher_exact",
    "run_restores_iff",
    "exhaustion_iff_peak",
    "diag_ok",
    "heatbath_ok",
    "cluster_ok",
    "loop_ok",
    "rvb_ok",
    "install_ok",
    "sweepOps_ok",
    "sweepVar_ok",
    "isingStep_ok",
    "genericStep_ok",
    "every_update_ok",
    "any_history_ok",
    "any_history_no_exhaustion",
    "occupancy_after_each_call",
    "bondContainer_clear_clean",
    "bondContainer_covered_init",
    "bondContainer_covered_preserved",
    "bondContainer_any_use_then_reset_clean",
    "reset_clean",
    "free_list_always_clean",
    "restore_keeps_occupancy_clean",
]

RULE = (
    "pool: for every public update call (timestep, single_diagonal_step, single_cluster_step, single_rvb_sweep(Some(0..5)|None), "
    "timesteps(t), Qmc::{diagonal_update, loop_update, cluster_update, timestep, flip_free_bits}, FastOps::{mutate_ops, mutate_ps, "
    "get_empty_args+mutate_subsection[_ops], new_from_ops, flip_each_cluster_rng(weights), make_loop_update_with_rng(Some(k))}, "
    "TemperingContainer::{timesteps, tempering_step, parallel_*}, swap_manager_and_state, and serde_json snapshot/restore of QmcIsingGraph, "
    "SerializeQmcGraph, Qmc, FastOps, TemperingContainer, SerializeTemperingContainer - after construction, after an RVB sweep and at random "
    "points, the history continuing on the restored object; restored occupancy must equal the one before, a fresh pool's and Generated.caps) "
    "plus every public cluster / sweep / cursor / fold entry point with its degenerate parameter (flip probability 0, tiny, 1/2, 1; empty "
    "ranges; beta = 0; zero steps; cursor borrowed and returned at once; empty manager) and LARGE runs (operator strings of 6000-14000 "
    "operators, pooled vectors far beyond 4096 entries) "
    "medium-size regimes (34x34 torus = 1156 variables with RVB; cubic 6x6x6 and a 150-spin fully connected model with RVB regions of more "
    "than 32 / 128 world lines, 60 steps; 8 spins at beta = 200 with an 8000-slot string; at the end every advertised free instance is "
    "borrowed through Factory and must be blank), "
    "cold starts (first call of each update kind on a fresh sampler), cursor re-use across 2-4 windows through SubvarAccess::Args, all of it on "
    "three allocator configurations (DefaultFastOpAllocator; SwitchableFastOpAllocator wrapping a bounded pool; the wrapper without a pool - "
    "vacuous there, run for panics with a silent hook) "
    "along random call histories on Ising samplers "
    "(14-17 lattices incl. pair, rings, isolated variables, frustrated; heat bath on/off; RVB on/off; h = 0 and h != 0; beta 1/64..8; "
    "cutoff 1..4n, so the first calls see an empty operator string) and generic samplers (single spin, Heisenberg/XXZ chains with loop "
    "updates, generic TFIM with cluster updates, ZZ-only without constant op, isolated variables, symmetry breaking term, 3-body term): "
    "the allocator hook log of exactly that call is an event word; the model must accept it as a word of that update kind's allocation "
    "grammar and predict the occupancy after the call and the low-water mark of each of the nine allocators. Oracle: per-type balance, "
    "no exhaustion event, every returned buffer clean, serde snapshot of the allocator equal before/after. A case is non-trivial the "
    "first time its (kind, non-empty word) pair occurs, so distinct_nontrivial counts distinct words. bc: random insert/remove/clear "
    "sequences on BondContainer<usize> with dyadic weights, state after every operation compared with the model, plus oracle-only "
    "bcfloat sequences with non-dyadic weights emptied through remove() and pushed through the pool (must come back blank despite "
    "f64 rounding residue); a third of the Ising pool scenarios and half of the soak runs use non-dyadic couplings on frustrated "
    "graphs with RVB on (cleanliness of returned containers under total_weight drift); soak: long mixed "
    "runs with the aggregated log (balance after every call, cleanliness, exhaustion) and the snapshot before/after."
)

GENERATED = os.path.join(common.LEAN, "QmcModel", "Generated", "PoolCaps.lean")


def main(ck):
    # 1. regenerate the capacities from the source tree under check (fail closed)
    scratch = os.path.realpath(common.REPO) != "/repo"
    saved = open(GENERATED).read() if (scratch and os.path.exists(GENERATED)) else None
    cmd = [sys.executable, os.path.join(common.VERIF, "tools", "extract_pool.py"), "--repo", common.REPO]
    ck.checker_cmds.append("python3 /verif/tools/extract_pool.py --repo %s" % common.REPO)
    rc, out, err = common.sh(cmd)
    ck.oblige("pool capacities regenerated from src/sse/fast_op_alloc.rs (extractor recognised the source shape)", rc in (0, 3), out + err)
    shape_fails = [l.split("RESET-SHAPE FAIL ", 1)[1] for l in (out + err).splitlines() if "RESET-SHAPE FAIL " in l]
    ck.oblige(
        "what return_instance does to a buffer has the modelled shape (impl Reset for Vec/BinaryHeap/BondContainer, "
        "BondContainer::clear, Allocator::{get_instance, return_instance}, verif_is_clean probes, forwarding Factory impls of fast_op_alloc.rs)",
        rc in (0, 2) and not shape_fails,
        "; ".join(shape_fails),
    )
    ck.notes.append((out + err).strip())
    ck.extra_trusted += [
        "tools/extract_pool.py (regex extraction of the nine new_with_max_in_flight literals; fails closed on any other shape)",
        "allocator hook log in /repo/src/util/allocator.rs (cfg qmc_verif) and std::any::type_name for the buffer type names",
        "serde snapshot of DefaultFastOpAllocator (instance counts) as the observation of private pool state",
    ]
    try:
        # 2. proofs against the regenerated capacities
        if ck.lake_build(LEAN_TARGETS):
            ck.audit("QmcProps.C18", ["Qmc.C18." + t for t in THEOREMS])
            built = True
        else:
            built = False
    finally:
        if saved is not None:
            # mutation experiment on a scratch tree: put the file generated from /repo back
            with open(GENERATED, "w") as f:
                f.write(saved)
    if scratch and built:
        # the driver was linked against the scratch capacities; rebuild happens on the next real run
        pass
    # 3. correspondence on the real code
    if ck.cargo_build(BINS):
        if built:
            cases = ck.harness("c18", ["pool"])
            ck.correspond("pool-event-words", "drv_c18", cases)
            cases = ck.harness("c18", ["bc"])
            ck.correspond("bond-container", "drv_c18", cases)
            cases = ck.harness("c18", ["soak"], timeout=2400)
            ck.correspond("soak", "drv_c18", cases)
        else:
            # proofs did not build (e.g. a capacity no longer covers the peak demand): still look for a failing
            # input on the real code with the model-independent oracle
            for mode, name in (("pool", "pool-event-words"), ("soak", "soak")):
                cases = ck.harness("c18", [mode], timeout=2400)
                n_bad = 0
                for c in cases:
                    ck.evaluations += 1
                    if c["oracle"] is not None and c["oracle"].startswith("FAIL"):
                        n_bad += 1
                        ck.add_failure("oracle", name, c, "<driver not built>", c["oracle"][5:], True)
                ck.oblige("oracle %s on %d cases (driver unavailable)" % (name, len(cases)), n_bad == 0, "%d oracle failures" % n_bad)
    api_cov.run(ck, "c18")   # otherwise unexercised public API, model-free oracles of this property
    api_cov.run(ck, "c03")   # otherwise unexercised public API, model-free oracles of this property
    big_scale.run(ck, "longstring.ring")   # large-scale regime (>65536 bonds/ops/slots, release semantics): model-free oracles of the property statements
    big_scale.run(ck, "densegraph")   # large-scale regime (>65536 bonds/ops/slots, release semantics): model-free oracles of the property statements
    big_scale.run(ck, "manyvars.vars")   # large-scale regime (>65536 bonds/ops/slots, release semantics): model-free oracles of the property statements
    return ck.finish(RULE)
