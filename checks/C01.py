"""C01 — TFIM sampler and the quantum thermal state (partial by nature; see QmcProps/C01.lean)."""
LEAN_TARGETS = ["QmcProps.C01", "drv_c01"]
BINS = ["c01"]

THEOREMS = [
    "bond_matrices_sum_diag",
    "bond_matrices_sum_offdiag",
    "terms_are_consistent",
    "configs_are_paths",
    "sse_config_weight_marginal",
    "sse_partition_function",
    "sse_mean_n",
    "sse_bond_count",
    "ising_vars_ok",
]

RULE = ("ham: random graphs 2..6 spins, 1..8 edges (multi-edges, both signs, unequal dyadic |J|), Gamma in k/8, h = 0 / > 0 / < 0: "
        "every bond x every in/out pattern of QmcIsingGraph::hamiltonian, bond count and get_offset vs isingHam; "
        "energy: get_energy_for_average_n vs -<n>/beta + offset; refresh: free-spin refresh draws (one gen_bool(1/2) per "
        "variable without operators, increasing index) after single_cluster_step; pipeline: timestep == single_diagonal_step;"
        "[single_rvb_sweep(None)];single_cluster_step on clones with the same RNG, with RVB / heat-bath on and off, fresh beta per "
        "step, cutoffs 1..12. Non-trivial = every case except refresh cases without an idle spin; distinct by full input.")


def main(ck):
    if ck.lake_build(LEAN_TARGETS):
        ck.audit("QmcProps.C01", ["Qmc.C01." + t for t in THEOREMS])
    if ck.cargo_build(BINS):
        for mode in ["ham", "energy", "refresh", "pipeline"]:
            cases = ck.harness("c01", [mode])
            ck.correspond(mode, "drv_c01", cases)
    ck.notes.append("Kernel invariance of the SSE weight is decided by C08 (slot ratio + weight_step) and C09 (cluster move "
                    "weight-preserving, symmetric); ergodicity and L -> infinity are not theorems.")
    return ck.finish(RULE)
