"""C01 — TFIM sampler and the quantum thermal state (partial by nature; see QmcProps/C01.lean)."""
from checks import big_scale
from checks import extra_c01limit
from checks import kern, law_audits
from checks import full_step
from checks import pure_fns
from checks import api_cov
from checks import scale_inv
LEAN_TARGETS = ["QmcProps.C01Capstone", "QmcProofs.KernelInvarianceCut", "QmcProps.Law", "drv_step", "QmcProofs.SamplerStep", "QmcProofs.SamplerCluster", "QmcProps.C01", "drv_c01", "QmcProps.C08", "drv_c08", "QmcProps.C09", "drv_c09", "QmcProofs.KernelInvariance", "QmcProps.C17", "drv_c17"]
BINS = ["fullstep", "c01", "c08", "c09", "c17", "kern"]

# Theorems of other properties that C01's claim rests on (kernel invariance of the SSE weight): they are
# audited here too, and their correspondence modes are re-run, so that a change to the diagonal or cluster
# update that breaks stationarity is reported against C01 as well.
KERNEL_THEOREMS = [
    "Qmc.C08.metropolis_ratio", "Qmc.C08.weight_step", "Qmc.C08.detailed_balance_M", "Qmc.C08.sweep_uses_current_n",
    "Qmc.C08.offdiag_never_altered_M", "Qmc.C08.zero_weight_never_inserted_M",
    "Qmc.C09.clusterMove_weight_ising", "Qmc.C09.clusterMove_symm", "Qmc.C09.clusterMove_consistent",
    "Qmc.C09.clusterFlips_half", "Qmc.C09.clusterFlips_weight0",
    "Qmc.C17.measure_points", "Qmc.C17.measure_count", "Qmc.C17.measure_energy",
]
# composition into one `timestep` kernel (QmcProofs/KernelInvariance.lean, design_notes/KernelInvariance.md)
COMPOSITION_THEOREMS = [
    "Qmc.Kernel.slot_kernel_reversible", "Qmc.Kernel.slot_kernel_reversible_hb",
    "Qmc.Kernel.sweep_invariant", "Qmc.Kernel.sweep_invariant_hb",
    "Qmc.Kernel.sweep_uses_stateAt_M", "Qmc.Kernel.cluster_kernel_reversible",
    "Qmc.Kernel.cluster_kernel_reversible_consistent", "Qmc.Kernel.free_refresh_invariant",
    "Qmc.Kernel.timestep_invariant_with", "Qmc.Kernel.timestep_invariant", "Qmc.Kernel.timestep_invariant_hb",
    "Qmc.Kernel.timestep_rowSum", "Qmc.Kernel.ising_clusterSym",
    "Qmc.Kernel.timestep_invariant_components", "Qmc.Kernel.timestep_invariant_components_hb", "Qmc.Kernel.ising_timestep_invariant",
]

# invariance of the TRUE SSE measure configWeight * 1_{Good}, Good = Consistent /\ Legal (QmcProofs/KernelInvarianceCut.lean)
CUT_THEOREMS = ["Qmc.Kernel." + t for t in [
    "slot_kernel_reversible_cut", "slot_kernel_reversible_cut_hb", "sweep_invariant_cut", "sweep_invariant_cut_hb",
    "cluster_kernel_reversible_cut", "cluster_kernel_invariant_cut", "free_refresh_reversible_cut", "free_refresh_invariant_cut",
    "timestep_invariant_cut_with", "timestep_invariant_cut", "timestep_invariant_cut_hb",
    "timestep_invariant_components_cut", "timestep_invariant_components_cut_hb",
    "ising_timestep_invariant_cut", "ising_timestep_invariant_cut_hb", "ising_timestep_invariant_cut_sum",
    "good_of_isingInv", "good_mem_cfgSpace", "good_diag_is_canon", "sseCutOn_pos_iff", "good_insert", "good_remove",
    "slotFlip_good", "toggleIdle_good", "clusterMove_legal", "clusterMove_good", "ofComponents_tagOK", "ofMasks_tagOK",
    "cutTo_reversible_of_zero"]]

THEOREMS = [
    "bond_matrices_sum_diag",
    "bond_matrices_sum_offdiag",
    "terms_are_consistent",
    "configs_are_paths",
    "sse_config_weight_marginal",
    "sse_partition_function",
    "sse_mean_n",
    "sse_bond_count",
    "ising_vars_ok",
    "field_threshold_witness",
]

# the chain joined: invariance of the true SSE measure /\ its spin marginal = diagonal of the degree-L Taylor polynomial
# of exp(-beta (H - C)) (QmcProps/C01Capstone.lean; design_notes/Capstone.md)
CAPSTONE_THEOREMS = ["Qmc.C01." + t for t in [
    "sse_marginal_cfgSpace", "sse_marginal_cfgSpace_struct", "sse_reindex_cfgSpace", "sse_partition_cfgSpace",
    "sseCutOn_marginal", "sseCutOn_total", "sse_invariant_and_marginal", "ising_bond_matrices", "isingMatrix_diag",
    "isingMatrix_offdiag", "ising_capstone", "ising_marginal", "Example.c2_good", "Example.c2_mem"]]

RULE = ("ham: random graphs 2..6 spins, 1..8 edges (multi-edges, both signs, unequal dyadic |J|), Gamma in k/8, h = 0 / > 0 / < 0: "
        "every bond x every in/out pattern of QmcIsingGraph::hamiltonian, bond count and get_offset vs isingHam; "
        "energy: get_energy_for_average_n vs -<n>/beta + offset; refresh: free-spin refresh draws (one gen_bool(1/2) per "
        "variable without operators, increasing index) after single_cluster_step; pipeline: timestep == single_diagonal_step;"
        "[single_rvb_sweep(None)];single_cluster_step on clones with the same RNG, with RVB / heat-bath on and off, fresh beta per "
        "step, cutoffs 1..12. Non-trivial = every case except refresh cases without an idle spin; distinct by full input.")


def main(ck):
    pure_fns.run(ck)   # source->Lean translation of pure functions, re-proved equal to the hand model
    if ck.lake_build(LEAN_TARGETS):
        ck.audit("QmcProps.C01", ["Qmc.C01." + t for t in THEOREMS])
        ck.prop_audit_extra = True
        save = ck.prop
        ck.prop = save + "k"          # separate .audit file
        ck.audit("QmcProps.C09", [t for t in KERNEL_THEOREMS if t.startswith("Qmc.C09")])
        ck.audit("QmcProps.C08", [t for t in KERNEL_THEOREMS if t.startswith("Qmc.C08")])
        ck.audit("QmcProps.C17", [t for t in KERNEL_THEOREMS if t.startswith("Qmc.C17")])
        ck.prop = save + "c"
        ck.audit("QmcProofs.KernelInvariance", COMPOSITION_THEOREMS)
        ck.prop = save
        if ck.lake_build(["QmcProofs.KernelInvarianceCut"]):
            ck.prop = save + "cut"
            ck.audit("QmcProofs.KernelInvarianceCut", CUT_THEOREMS)
            ck.prop = save
        if ck.lake_build(["QmcProps.C01Capstone"]):
            ck.prop = save + "cap"
            ck.audit("QmcProps.C01Capstone", CAPSTONE_THEOREMS)
            ck.prop = save
    if ck.cargo_build(BINS):
        for mode in ["ham", "energy", "refresh", "pipeline"]:
            cases = ck.harness("c01", [mode])
            ck.correspond(mode, "drv_c01", cases)
        # the kernels C01 composes (same harness modes as C08 / C09)
        ck.correspond("diagonal-sweep-trajectory", "drv_c08", ck.harness("c08", ["traj"]))
        ck.correspond("diagonal-slot-probabilities", "drv_c08", ck.harness("c08", ["prob"]))
        ck.correspond("cluster-equilibrium-strings", "drv_c09", ck.harness("c09", ["equilibrium"]))
        # the reported energy is the measuring loop's -<n>/beta + offset over the sampled steps (C17 modes)
        ck.correspond("energy-measuring-loop", "drv_c17", ck.harness("c17", ["measure"]))
        ck.correspond("energy-measuring-loop-ising", "drv_c17", ck.harness("c17", ["ising"]))
        ck.correspond("field-threshold-witness", "drv_c01", ck.harness("c01", ["fieldwit"]))   # known finding F24
        kern.run(ck, "ising")   # exact one-step kernels of the real code on tiny systems: pi K = pi
    ck.notes.append("Kernel invariance of the SSE weight is decided by C08 (slot ratio + weight_step) and C09 (cluster move "
                    "weight-preserving, symmetric); ergodicity and L -> infinity are not theorems.")
    full_step.run(ck, modes=["ising"], audit=True)   # whole-timestep exact trajectories + preservation theorems
    law_audits.run(ck)   # idealised law of the executable model = the Markov kernel of the invariance theorems
    api_cov.run(ck, "c01")   # otherwise unexercised public API, model-free oracles of this property
    scale_inv.run(ck, "c01")   # power-of-two unit change: identical trajectory, energies exactly scaled (model-free twin oracle)
    extra_c01limit.run(ck)   # the limit L -> infinity of the capstone: marginal -> diag(exp(-beta H))/Z, energy estimator -> Tr(H exp(-beta H))/Z
    big_scale.run(ck, "manybonds.full")   # large-scale regime (>65536 bonds/ops/slots, release semantics): model-free oracles of the property statements
    return ck.finish(RULE)
