"""Per-property registration used by tools/gen_manifest.py. A property appears in MANIFEST.checks
only when its entry here has claimed=True."""

COMMON_NOTE = ("Trusted: Lean 4.33 kernel; axioms propext/Classical.choice/Quot.sound only (audited by #print axioms each run, "
               "no sorry/native_decide/bv_decide/own axioms); the hand-written Lean model, tied to /repo's working tree by the "
               "correspondence run of this check (Rust harness with recording RNG vs compiled Lean driver, exact comparison); "
               "harness, driver and comparison code; rand 0.8.8 primitives as modelled in QmcModel/Rand.lean; f64 vs exact "
               "rationals on dyadic inputs with a tie margin.")

REG = {
    "C16": dict(
        claimed=True,
        text=("Lean theorems over all matrices and variable lists: constructors accept exactly non-negative matrices of size 4^n / 2^n "
              "on a non-empty variable list and otherwise return Err (never panic); at() returns the documented entry for every pattern; "
              "is_constant / is_constant_diag / sym_under_ising are true exactly when the (eps-separated) matrix has the property; accepted "
              "weights are non-negative. The model is tied to qmc_runner.rs by exhaustive small-domain correspondence (all lengths 0..70 x "
              "0..4 variables x 4 constructors, all 0/1 matrices for small arities) plus an implementation-side oracle and sampling runs."),
        note=COMMON_NOTE + " Modelled, not verified: f64 rounding of the offset subtraction (inputs dyadic); the samplers' behaviour on accepted interactions is observed by running them (panic/hang detection), the in-range argument is accepted_weights_nonneg.",
        technique="Lean 4 proof over a hand-written model + differential correspondence (exhaustive small domain)",
        design_ref="DESIGN.md §2 C16",
    ),
}
