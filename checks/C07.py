"""C07 — Only legal Hamiltonian terms with positive weight are ever stored."""
from checks import big_scale
from checks import fault_inj
from checks import pure_fns
from checks import extra_audits
from checks import api_cov
LEAN_TARGETS = ["QmcProps.C07", "drv_c06", "drv_c07"]
BINS = ["c06"]

THEOREMS = [
    "legalB_iff",
    "diagSweep_legal",
    "inserted_legal",
    "spinFlip_legal",
    "spinOnly_keeps_skeleton",
    "spinOnly_keeps_cutoff",
    "free_keeps_ops",
    "rvb_legal",
    "rvb_keeps_positions",
    "move_legal",
    "legal_transfer",
    "reachable_legal",
    "loop_exit_positive",
    "twoSite_values",
    "twoSite_flip_iff",
    "transverse_const",
    "longitudinal_values",
    "longitudinal_offdiag_zero",
    "longitudinal_flip_zero",
    "ising_hamWF",
    "ising_flip_weight_iff",
    "isingCluster_pres",
    "ising_forbidden_mask_illegal",
    "ising_swap_legal",
    "ising_swap_legal_no_field_ops",
    "ising_field_op_illegal_without_field",
    "swapGuard_accepts_zero_field_witness",
    "swapGuard_witness_legal_then_illegal",
]

RULE = ("same harness as C06 (bin c06, driver drv_c06), seeds shifted so the two checks see different walks: after every single public "
        "mutating call the driver decides Legal H after (bond index, variables in order, constant flag, D/O tag vs values, well-formedness, "
        "matrix element > 0 with the Hamiltonian printed by the harness: Ising edges/J/Gamma/h or the generic interaction tables), the "
        "structural mask conditions of the call kind (Ising: two-site op flips on both spins or not at all, longitudinal op never; generic "
        "cluster: all legs or none except constant single-site ops; loop: every changed op keeps a positive element; RVB: re-bonded ops are "
        "positive-weight two-site diagonal terms) and, for spin-only calls, that bonds and positions are unchanged. The Rust oracle evaluates "
        "the sampler's own matrix elements (QmcIsingGraph::hamiltonian / Interaction::at). Mode rvb-zero-word scripts the word 0 (and 2^11) at "
        "every draw position of RVB updates that re-bond (regression for F12). "
        "Generic kinds also cover: symmetry-breaking single-variable field terms registered first/middle/last; interactions with constant diagonal "
        "but non-constant matrix (constant flag recomputed from the matrix); constant two-/three-variable interactions; three-variable full matrices "
        "under loop updates; full two-/three-variable matrices symmetric except for one (idx, ~idx) pair placed in every quarter of the index range, "
        "with the gate oracle that no plain cluster update runs while a term is asymmetric (all 4^n entries compared). Direct swaps use swap_manager_and_state and the SwapManagers trait between hot and fresh samplers. Tempering pairs in the overflow regime (hot replica with >= 24 operators next to a fresh replica at beta = k*2^50 with h = 0 and/or Gamma = 0: ratio inf*0 = NaN must be rejected). Serial tempering ladders mix a "
        "zero-field replica with field replicas of one sign (>= 30 rounds of [steps; tempering_step], every replica judged with its own Hamiltonian). "
        "Mode zero-word-all-updates: every draw position of recorded heat-bath and Metropolis diagonal sweeps, cluster steps, RVB updates and "
        "free-spin refreshes of both samplers re-run with the word 0 / 2^11 / u64::MAX. Walks include Ising samplers with Gamma = 0 (h != 0 and h = 0) "
        "converted by into_qmc and walked on. Mode loop-scripted-exit: every draw position of recorded loop updates (exchange-type, 3-variable, mixed generic samplers) re-run with the word "
        "0 / 2^11 (draw exactly 0.0), the largest word and words at and next to cumulative boundaries of the exit-leg weights. Ising walks include "
        "graphs with a variable without real coupling (index gap, or only J = 0 edges) under RVB with h of both signs. Mode swap-guard-witness: one fixed input reproducing known finding F25 (guard approves h = 0 with h != 0). "
        "Non-trivial = at least one operator before or after.")


def main(ck):
    pure_fns.run(ck)   # source->Lean translation (group BondContainer: weight bookkeeping of the RVB boundary set), agreement theorems re-checked
    extra_audits.run(ck)
    if ck.lake_build(LEAN_TARGETS):
        ck.audit("QmcProps.C07", ["Qmc.C07." + t for t in THEOREMS])
    if ck.cargo_build(BINS):
        cases = ck.harness("c06", ["walk7"])
        ck.correspond("walk", "drv_c06", cases)
        cases = ck.harness("c06", ["f12"])
        ck.correspond("rvb-zero-word", "drv_c06", cases)
        # every draw position of heat-bath / Metropolis sweeps, cluster, RVB and refresh calls (both samplers) replaced
        # in turn by 0, 2^11 (f64 draw exactly 0.0) and u64::MAX: no exact tie may store a zero-weight op
        ck.correspond("zero-word-all-updates", "drv_c06", ck.harness("c06", ["zeroword"]))
        # scripted exit-leg draws of the loop update (0.0 exactly, largest word, cumulative boundaries)
        ck.correspond("loop-scripted-exit", "drv_c06", ck.harness("c06", ["loopzero"]))
        # fixed, seed-independent witness of finding F25 (can_swap_managers accepts h = 0 with h != 0): the
        # oracle column FAILs on the unchanged library; known_findings.json turns it into KNOWN-FINDING
        ck.correspond("swap-guard-witness", "drv_c07", ck.harness("c06", ["swapwit"]))
    api_cov.run(ck, "c07")   # otherwise unexercised public API, model-free oracles of this property
    big_scale.run(ck, "manybonds")   # large-scale regime (>65536 bonds/ops/slots, release semantics): model-free oracles of the property statements
    if ck.tier == "thorough":
        big_scale.run(ck, "hubstar")
    fault_inj.run(ck, "ising")   # fault injection: a public call that panics part-way (bad beta, failing rng/Hamiltonian/callback) under catch_unwind; a surviving object must satisfy the property oracles
    fault_inj.run(ck, "generic")   # fault injection: a public call that panics part-way (bad beta, failing rng/Hamiltonian/callback) under catch_unwind; a surviving object must satisfy the property oracles
    return ck.finish(RULE)
