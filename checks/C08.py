"""C08 — Diagonal update obeys exact detailed balance in every slot (Metropolis and heat-bath)."""
from checks import pure_fns, law_audits
from checks import extra_audits
from checks import api_cov
from checks import scale_inv
LEAN_TARGETS = ["QmcProps.C08", "drv_c08"]
BINS = ["c08"]

THEOREMS = [
    "bridge_genBool",
    "bridge_clipped",
    "threshold_is_probability",
    "metropolis_insert_decision",
    "metropolis_remove_decision",
    "metropolis_ratio",
    "metropolis_regime_insert_unclipped",
    "metropolis_regime_insert_clipped",
    "heatbath_ratio",
    "heatbath_empty_slot_spec",
    "heatbath_diag_slot_spec",
    "hb_accept_threshold",
    "cumulative_pick",
    "cumulative_width",
    "maxw_is_max",
    "maxw_bounds_current",
    "maxw_attained",
    "zero_weight_never_inserted_M",
    "zero_weight_never_inserted_HB",
    "offdiag_never_altered",
    "offdiag_never_altered_M",
    "offdiag_never_altered_HB",
    "no_offdiag_created",
    "sweep_leaves_tail_untouched",
    "sweep_uses_current_n",
    "sweep_final_count",
    "weight_step",
    "detailed_balance_M",
]

RULE = ("random table Hamiltonians (1-4 variables, 1-5 bonds on 1-4 variables (3-/4-variable diagonal terms with the unique maximum at a uniformly chosen sub-state index), constant flags, diagonal weights from "
        "{0,1/8,...,6} incl. all-zero bonds), beta in {1/8..4}, cutoff 1..10 (container sometimes shorter than the cutoff), "
        "random operator strings with diagonal and off-diagonal ops whose inputs follow the propagated state; "
        "in a fifth of the trait-level cases the container is LONGER than the sweep cutoff (pre-grown with set_cutoff after the install, or with operators in the tail as after a longer earlier sweep; tail-operator cases that run out of L-n are skipped); "
        "a tenth of the strings are completely full (n == L from the first slot), and in a third of the prob cases every other empty slot of the sweep is filled (from slot 0 or from a random position, so the string becomes full during the sweep): the examined slot is then the last free slot (insertion with L-n = 1) and the removal of the installed operator is bisected at n == L (L-n+1 = 1), both variants; "
        "traj: one real sweep (Metropolis / heat-bath with the real or an inflated table) under a recorded RNG, replayed by the model; "
        "prob: threshold bisection of the bond/attempt/acceptance/removal words of a random empty slot k inside a sweep, "
        "compared with the model's rationals and (oracle, real code only) p_insert/p_remove against beta*w/(L-n) with the n current at slot k. "
        "generic samplers: the reference Hamiltonian is what was REGISTERED (matrices handed to make_interaction / make_diagonal_interaction; index = outputs++inputs, first variable most significant), and Interaction::at must return the registered entry on every pattern; 3- and 4-variable terms with variables in random order: maximum at a controlled sub-state, or pairwise distinct diagonal entries (i+1)/8 in random order with zeros (not reversal symmetric), via the diagonal constructor or as full 64-/256-entry matrices; sampler bisection prefers many-body bonds (non-palindromic sub-states counted); "
        "generic: Qmc with set_do_heatbath(true) that has already swept (lazy table built) gets a further interaction (3/4 of them with an all-equal diagonal: constant term, equal-diagonal full matrix, constant diagonal constructor), then diagonal_update trajectories replayed with the table of the CURRENT interactions (gsweep) and the insert/remove probabilities of the NEW bond bisected (gprob); "
        "converted: Ising samplers run hot then cold (sparse long string; 1/6 converted before any step; 1/4 frustrated) and converted with into_qmc: first sweep must use the Ising cutoff at conversion, trajectories (msweep/gsweep), heat-bath bisection, and a drain step at beta = 1e-12 after which no operator with inputs == outputs may remain anywhere in the string; ising_field: QmcIsingGraph with h of either sign and set_enable_heatbath(true): sweeps replayed with the table of the full Hamiltonian, FIELD bonds bisected on favoured spins (weight 2|h|) and shown never inserted on unfavoured spins (gzero); "
        "in half of the ising_field cases (heat-bath 3/4, default 1/4) the manager is grown by hand (get_manager_mut().set_cutoff(len + 1..40)) before the examined step; constant_terms: Qmc with >= 2 constant single-site terms of different weights (weight 0 in 1/4) registered in random order: Metropolis bisection on a fresh sampler in the unclipped regime (mprob through diagonal_update; other bonds evaluated at slots 0..k first), heat-bath bisection with an earlier insertion of another constant bond in the same sweep, gzero for weight-0 constant bonds, trajectories of both variants; "
        "Non-trivial = the sweep visits at least one slot that is empty or holds an op; distinct = distinct input line.")


def main(ck):
    extra_audits.run(ck)
    pure_fns.run(ck)   # source->Lean translation of pure functions, re-proved equal to the hand model
    if ck.lake_build(LEAN_TARGETS):
        ck.audit("QmcProps.C08", ["Qmc.C08." + t for t in THEOREMS])
    if ck.cargo_build(BINS):
        cases = ck.harness("c08", ["traj"])
        ck.correspond("sweep-trajectory", "drv_c08", cases)
        cases = ck.harness("c08", ["prob"])
        ck.correspond("slot-probabilities", "drv_c08", cases)
        # generic sampler, heat-bath, interaction added after the lazily built table exists: sweeps replayed with the table of
        # the CURRENT interactions, insert probability of the NEW bond bisected
        ck.correspond("generic-sampler-heatbath", "drv_c08", ck.harness("c08", ["generic"]))
    law_audits.run(ck, groups=['refine', 'ideal', 'sweep', 'heatbath', 'good'])   # idealised law of the executable model = the Markov kernel of the invariance theorems
    api_cov.run(ck, "c08")   # otherwise unexercised public API, model-free oracles of this property
    scale_inv.run(ck, "c08")   # power-of-two unit change: identical trajectory, energies exactly scaled (model-free twin oracle)
    return ck.finish(RULE)
