"""C17 — Measurement helpers sample on the documented cadence and report true averages."""
from checks import big_scale
from checks import pure_fns
from checks import api_cov
from checks import scale_inv
LEAN_TARGETS = ["QmcProps.C17", "drv_c17"]
BINS = ["c17"]

THEOREMS = [
    "measure_points",
    "measure_fold_calls",
    "measure_fold_count",
    "measure_count",
    "measure_energy",
    "measure_zip_calls",
    "ctor_offset_accepted_only",
    "rejected_iff_no_contribution",
    "rejected_call_invisible",
    "measure_energy_accepted_calls",
    "measure_energy_rejected_call_invisible",
    "chunk_terminates",
    "chunk_fuel_irrelevant",
    "chunk_log",
    "chunk_adv_pos",
    "chunk_counts",
    "chunk_is_interp",
    "timesteps_is_measure",
    "chunk_final_state",
    "chunk_samples",
    "chunk_energy",
    "chunk_energy_mean_n",
    "serial_eq_parallel_driver",
    "itimeFold_length",
    "itimeFold_states",
    "itimeFold_pure",
    "measure_freq_zero_panics",
    "measure_energy_nan",
    "chunk_swap_zero_never_terminates",
    "chunk_sample_zero_never_terminates",
]

RULE = ("measure: every T in 0..60 (130 thorough) x sampling period none,1..12 (20) x the six QmcStepper helper variants "
        "(rotating subset in quick) on a logging mock stepper with scripted n, plus random larger T/f incl. f > T; "
        "temper: every T in 0..60 (100) x swap period 1..12 (16) x sampling period 1..12 (16), 1..5 mock replicas with "
        "scripted n and scripted swap decisions, serial driver on all and parallel driver on a third (all in thorough), "
        "plus the swap-period boundary s in {T-1,T,T+1,2T} x f dividing T x both drivers (T <= 24/48; half with every exchange "
        "accepted) and random cases with periods > T, 0..8 replicas; every temper case also against an identically built "
        "reference container driven in lock step (samples, final arrangement, total_swaps, last sample); ising: real QmcIsingGraph samplers / tempering containers "
        "against a clone advanced one step at a time (two thirds of the tempering cases with a Hamiltonian ladder: |J|, Gamma, |h| "
        "scaled per slot, offsets captured at construction, get_offset() of every slot checked after every step); generic: real generic Qmc samplers with a non-zero energy offset of either "
        "sign (built with make_*_interaction_and_offset and by into_qmc, with and without longitudinal field) through "
        "timesteps / timesteps_sample / timesteps_measure and both tempering drivers (offset differing from slot to slot), "
        "returned energy vs -<n>/beta + the DOCUMENTED offset from a manual timestep loop (Ising: sum|J| + N(Gamma+|h|) from the "
        "constructor arguments, h of both signs; generic: minus the sum of the smallest diagonal entries of the _and_offset terms "
        "the harness registered, stored matrices checked entry by entry; get_offset() is only compared against these; three quarters of "
        "the generic samplers are built through a mix of ACCEPTED and REJECTED make_*_interaction_and_offset calls and reused after "
        "a rejected call issued after the warm-up steps (rejected calls have a non-zero smallest diagonal entry; reasons: variable "
        "named twice, negative off-diagonal weight, variable index >= nvars, matrix size not fitting the variable list, no variable, "
        "size no power of four/two; also on converted samplers and on replicas inside a tempering container), the documented offset "
        "counts the accepted calls only, get_offset() must equal it exactly, the single-sampler energy is compared at 1e-12, and the "
        "model replays every call (QmcModel/QmcCtor.lean) and must reproduce get_offset() and each call's Ok/Err); itime: imaginary_time_fold on real Ising and generic samplers; "
        "edge: excluded inputs run once. Non-trivial = at least one sample taken (measure) / at least one replica and "
        "one step (temper) / at least one operator (itime); distinct = distinct full input line.")


def main(ck):
    pure_fns.run(ck)   # source->Lean translation of pure functions, re-proved equal to the hand model
    if ck.lake_build(LEAN_TARGETS):
        ck.audit("QmcProps.C17", ["Qmc.C17." + t for t in THEOREMS])
    if ck.cargo_build(BINS):
        for mode in ["measure", "temper", "ising", "generic", "itime", "edge"]:
            cases = ck.harness("c17", [mode])
            ck.correspond(mode, "drv_c17", cases)
    ck.assumptions += [
        "sampling periods and swap periods >= 1 (0 panics / never terminates: stated as theorems, run once in mode edge)",
        "the returned energy of the measuring loop is claimed only when at least one sample is taken (f <= T); otherwise it is 0/0 = NaN in code and model",
        "get_energy_for_average_n is -(avg/beta)+offset (true of QmcIsingGraph and Qmc; the mock implements the same formula)",
        "thread scheduling of rayon is modelled as an arbitrary schedule of per-replica single steps; the real parallel driver is observed, not verified",
    ]
    api_cov.run(ck, "c17")   # otherwise unexercised public API, model-free oracles of this property
    scale_inv.run(ck, "c17")   # power-of-two unit change: identical trajectory, energies exactly scaled (model-free twin oracle)
    big_scale.run(ck, "longrun.tally")   # large-scale regime (>65536 bonds/ops/slots, release semantics): model-free oracles of the property statements
    return ck.finish(RULE)
