"""Large-scale regime oracle (harness bin `bigscale`, built in the `fast` profile = release semantics: no debug assertions,
wrapping arithmetic). Every other harness replays tiny systems against the exact Lean model, so a change that is bit-for-bit
invisible below 65536 bonds / operators per bond / slots / pending cluster legs / loop vertices (an index narrowed to u16, a
"safety" cap at 1 << 16, a buffer policy keyed on capacity) cannot be seen by them. `bigscale` builds a FEW large systems
through the public API — fully connected 400-spin model (80200 bonds), 130x130 lattice with a longitudinal field, a single
bond carrying 7e4 operators and replica ladders of it, a 4e4-operator synthetic ladder and a 32x32 ferromagnet (one cluster of
1e5 operators), a ring of 256 spins at beta = 100 (1.3e5 slots) under diagonal / cluster / RVB interleavings with the pool
hook log, a temperature schedule, a dense 150-spin +-J graph under RVB, XX chains with 1e4 operators under directed loops —
and evaluates MODEL-FREE oracles taken from the property statements after every public update call (world-line consistency
C06, legality C07, cluster decomposition by union-find C09, exchange decision recomputed from the operator strings in log
space against a mirror of the container rng C10, getters = scan in linear time and counters by operator shape C11, cutoff
rule C12, pool balance / clean returns C18, per-bond count symmetry C01). Model-independent like `kern` / `apicov` (the output
column is the constant `ok`): it supports the search for failing inputs in a regime the correspondence cannot reach and is not
a proof. `run(ck, mode)` is called from the check of the property whose statement supplies the oracle; `mode` is the harness
mode (`manybonds`, `manyops`, `bigcluster`, `longstring`, `densegraph`, `hubstar`, `longloops`, `manyvars`, `longrun`,
`classicalring`, or `<mode>.<scenario>`, see design_notes/BigScale.md for the wiring table)."""
import hashlib
import re

BIN = "bigscale"
PROFILE = "fast"


def _own(ck, msg, tags):
    """A failure message names the property whose statement supplied the violated oracle ("C06 op at p=…", "C10 the step
    performed …"); a check counts a failure only if one of its messages names its own property (or one of `tags`) or names no
    property at all (a library panic inside the scenario). Failures that belong to another property are that property's
    business — they are tallied in the evidence (stat bigscale_foreign_failures) and raise no alarm here."""
    own = False
    for part in msg.split(";"):
        found = set(re.findall(r"\bC\d\d\b", part))
        if not found or (found & tags):
            own = True
    return own


def run(ck, big_mode, tags=None, timeout=None):
    mode = "large-scale-regime"
    tags = set(tags or []) | {ck.prop}
    # the bin is (re)built here, so the oracle never runs a stale binary (a no-op when it is up to date)
    if not ck.cargo_build([BIN], profile=PROFILE):
        return
    if timeout is None:
        # generous watchdog: quick runs take seconds, thorough ones well under a minute on an idle machine
        timeout = 900 if ck.tier == "quick" else 3600
    cases = ck.harness(BIN, [big_mode], timeout=timeout, profile=PROFILE)
    if not cases:
        ck.oblige("correspondence %s produced cases" % mode, False, "harness produced no cases (bigscale %s)" % big_mode)
        return
    fails = 0
    kinds = {}
    for c in cases:
        ck.evaluations += 1
        parts = c["input"].split(" ", 2)
        kind = "bigscale-" + "-".join(parts[:2])
        kinds[kind] = kinds.get(kind, 0) + 1
        if c["nt"]:
            ck.distinct.add(hashlib.sha1((mode + c["input"]).encode()).hexdigest())
        if c["output"].strip() != "ok" or c["oracle"] is None or c["oracle"].startswith("FAIL"):
            if c["oracle"] and c["oracle"].startswith("FAIL") and not _own(ck, c["oracle"][5:], tags):
                ck.stats["bigscale_foreign_failures"] = ck.stats.get("bigscale_foreign_failures", 0) + 1
                continue
            fails += 1
            ck.add_failure("oracle", mode, c, "ok", (c["oracle"] or "FAIL:no verdict")[5:], True)
    prev = ck.modes.get(mode)
    if prev:  # several bigscale modes wired into one check: accumulate
        for k, v in kinds.items():
            prev["kinds"][k] = prev["kinds"].get(k, 0) + v
        prev["cases"] += len(cases)
        prev["oracle_failures"] += fails
    else:
        ck.modes[mode] = {"cases": len(cases), "kinds": kinds, "disagreements": 0, "ties_skipped": 0, "oracle_failures": fails}
    ck.notes.append("large-scale-regime (%s): %d checked public calls / blocks of calls on systems beyond 65536 bonds, operators per "
                    "bond, slots, pending cluster legs or loop vertices, real code compiled with release semantics (profile fast: "
                    "no debug assertions, wrapping arithmetic), each followed by model-free oracles from the property statements "
                    "(consistency, legality, cluster decomposition, exchange decision in log space, getters = scan, cutoff rule, "
                    "pool balance); a model-independent oracle that supports the search for failing inputs, not a theorem"
                    % (big_mode, len(cases)))
    ck.oblige("%s: model-free oracles hold on %d checked calls of large systems (bigscale %s, release semantics)"
              % (mode, len(cases), big_mode), fails == 0, "%d oracle failures" % fails)
