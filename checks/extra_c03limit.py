"""C03, capstone + limit L -> infinity for the `timestep` with the RVB update (lean/QmcProps/C03Limit.lean; helper
lean/QmcProofs/CapstoneLimitHam.lean: the three limits for ANY Hamiltonian with VarsOK, non-negative and symmetric matrix
elements):

* `ising_capstone_limit_rvb`: E : Rvb.Ising with edges on two different variables, Gamma >= 0, beta > 0, CloseExact E eps, any
  script distribution mu, any region list: for EVERY L the kernel of `C03.ising_timestep_invariant_rvb_cut_proposal` leaves
  `pi_L = sseCutOn (isingHam E) beta (cfgSpace (isingHam E) nvars L)` invariant, and for every constant C, with
  `H = rvbHamMatrix E C = C.1 - sum_b bondMatrix (isingHam E) b` (symmetric: `rvbHamMatrix_symm`; `rvb_bond_matrices`),
  marginal -> diag e^{-beta H}/Tr e^{-beta H}, total mass -> e^{beta C} Tr e^{-beta H}, C - <n>_L/beta -> Tr(H e^{-beta H})/Tr e^{-beta H}
  (`rvb_marginal_tendsto`, `rvb_partition_tendsto`, `rvb_energy_tendsto`, `rvb_limit_pos`).
* stated for `isingHam E` directly (not IsingSpec); that C.1 - M is entry by entry the Ising matrix is proved for
  IsingSpec.ham / Qmc.isingHam in C01, not re-proved for isingClusterHam. Per-bond operator counts are NOT covered.

Still NOT claimed: ergodicity, convergence of the chain, uniqueness of the invariant measure.
Usage from the C03 plugin: `from checks import extra_c03limit; extra_c03limit.run(ck)`."""
MODULE = "QmcProps.C03Limit"
C03 = "Qmc.C03."
CL = "Qmc.CapstoneLimit."
THEOREMS = (
    [C03 + t for t in [
        "isingHam_w_nonneg", "isingHam_w_symm", "rvbHamMatrix_symm", "rvb_bond_matrices",
        "rvb_marginal_tendsto", "rvb_partition_tendsto", "rvb_energy_tendsto", "rvb_limit_pos",
        "ising_capstone_limit_rvb"]]
    + [CL + t for t in [
        "bondMatrix_sum_symm", "offset_sub_symm", "cutOn_marginal", "cutOn_total",
        "ham_marginal_tendsto", "ham_partition_tendsto", "ham_energy_tendsto",
        "isingClusterHam_w_nonneg", "isingClusterHam_w_symm"]]
)


def run(ck):
    save = ck.prop
    try:
        if ck.lake_build([MODULE]):
            ck.prop = save + "limit"          # separate .audit file
            ck.audit(MODULE, THEOREMS)
    finally:
        ck.prop = save
