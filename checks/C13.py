from checks import pure_fns
"""C13 — Runs are reproducible from their seeds and independent of thread scheduling."""
import os
import sys

from checks import common

sys.path.insert(0, os.path.join(common.VERIF, "tools"))
import extract_fields  # noqa: E402
from checks import api_cov

LEAN_TARGETS = ["QmcProps.C13", "drv_c13"]
BINS = ["c13"]

THEOREMS = [
    "deterministic",
    "twin_runs",
    "next_depends_on_script",
    "clone_eq_ising",
    "clone_eq_qmc",
    "clone_eq_classical",
    "manual_clones_all_modelled",
    "clone_continues",
    "clone_continues_qmc",
    "schedule_independent",
    "component_sees_own_tasks",
    "par_iter_mut_eq_sequential",
    "any_two_orders_agree",
    "swap_uniforms_pre_drawn",
    "parallel_tempering_step_eq",
    "parallel_timesteps_sample_eq",
    "any_two_schedulers_agree",
    "ambient_clean",
    "no_unsafe",
    "one_replica_agrees",
    "one_replica_old_guard_differs",
]

RULE = ("ambient-state list and Clone field maps regenerated from /repo/src on every run.  Runtime (Rust vs Rust, real code): "
        "random small Ising / generic / classical samplers (2..6/8 spins, chain/ring/star/complete, dyadic J, Gamma, h, beta, "
        "RVB x heat-bath x h!=0 enumerated first): equal-seed twin runs (same thread, another OS thread, repeated) compared step "
        "by step on state, operator string, n, cutoff, energy bits, full JSON snapshot; clones at random step k (identical, "
        "stepping one leaves the other's snapshot unchanged, continuation = the clone's = an uninterrupted run's); tempering "
        "containers of 2..7/10 replicas with very different betas (uneven task lengths), random programs mixing timesteps_sample, "
        "tempering_step, timesteps: serial vs rayon in pools of 1,2,3,4,7,16 (quick) / 1..16 (thorough) threads x 2/4 repeated "
        "executions, comparing returned samples, energy bits, replicas, swap count and the full JSON snapshot (container RNG "
        "included; always >= 2 replicas there); long ladders of 70, 130 and 67 replicas of a 3-spin system (smooth beta ladder, hundreds of swaps) serial vs rayon in pools of "
        "1, 4, 9 threads; clone_from scenarios: dst.clone_from(&src) for Ising / generic / classical samplers and containers where dst is "
        "further along (larger cutoff, more ops), behind, equal or fresh, has other options (rvb, heat bath toggled) or is another model: "
        "dst must equal src.clone(), src untouched, and both continue identically; one-replica containers compared on returns/replicas and on the modelled draw "
        "counts.  Non-trivial = at least one operator present at the end; distinct = distinct case line.")


def main(ck):
    pure_fns.run(ck)   # source->Lean translation (group Stepper: cadence arithmetic of both tempering drivers, required pairwise identical), agreement theorems re-checked
    ck.extra_trusted += [
        "tools/extract_fields.py (ambient-state scan by token list + enclosing fn; Clone field maps; fails closed on unknown shapes)",
        "disjointness of rayon task footprints = safe Rust's &mut uniqueness (the crate has #![forbid(unsafe_code)], checked) and rayon's par_iter_mut/zip/chunks semantics: trusted, observed by the pool-size runs",
        "std / derive Clone of components is a structural copy",
    ]
    ok, msg, rep = extract_fields.run(repo=common.REPO, which=("fields", "ambient"))
    ck.checker_cmds.append("python3 tools/extract_fields.py   # regenerates lean/QmcModel/Generated/{Fields,Ambient}.lean from %s/src" % common.REPO)
    ck.oblige("regenerate Generated/Fields+Ambient from the current sources (fail closed on unknown shapes)", ok, msg)
    if ok:
        built = ck.lake_build(LEAN_TARGETS)
        if built:
            ck.audit("QmcProps.C13", ["Qmc.C13." + t for t in THEOREMS])
        else:
            # name what is new: ambient uses that the allow-list rejects, and clone fields that are not copies
            wr = set(extract_fields.WRAPPERS)
            bad = []
            for (f, line, tok, fn, takes, in_test, in_hook, kind) in rep.get("ambient", []):
                allowed = in_test or in_hook or kind == "use" or (fn in wr and not takes and kind == "code" and tok in ("thread_rng", "ThreadRng"))
                if not allowed:
                    bad.append("%s:%d `%s` in fn %s%s" % (f, line, tok, fn, " (takes an rng)" if takes else ""))
            clone_bad = ["%s.%s: %s [%s]" % (r["conversion"], r["field"], r["kind"], r["source"]) for r in rep.get("fields", [])
                         if r["conversion"].endswith(".clone") and r["kind"] != "copied"]
            print("regenerated files: proofs fail; disallowed ambient uses: %s; clone fields not copied: %s" % ("; ".join(bad) or "none", "; ".join(clone_bad) or "none"))
            ck.oblige("ambient_clean / clone_eq re-proved against the regenerated files -- offending: " + ("; ".join((bad + clone_bad)[:3]) or "see lake output"), False,
                      "DISALLOWED AMBIENT USES: " + ("; ".join(bad) or "none") + " || CLONE FIELDS NOT COPIED: " + ("; ".join(clone_bad) or "none"))
            for t in THEOREMS:
                ck.oblige("theorem Qmc.C13." + t, False, "QmcProps.C13 does not build against the regenerated files")
    else:
        print("regenerated files: " + msg)
        for t in THEOREMS:
            ck.oblige("theorem Qmc.C13." + t, False, "Generated files could not be regenerated (unknown source shape)")
    if ck.cargo_build(BINS):
        cases = ck.harness("c13", ["all"])
        ck.correspond("twin-clone-pool", "drv_c13", cases, max_samples=8)
    ck.notes.append("one-replica container: finding F30 (parallel_tempering_step drew one container-RNG word, tempering_step none; after add_qmc_stepper the two drivers diverged) repaired by fix f20b8b5; model: one_replica_agrees, regression witness one_replica_old_guard_differs; measured by the `draws 1` case whose oracle now compares the complete container state")
    api_cov.run(ck, "c13")   # otherwise unexercised public API, model-free oracles of this property
    return ck.finish(RULE)
