"""C16, sampler level (findings F31 / F32, fixed in /repo 2abb7bf / 0a5077c): the constructors a user calls are
`Qmc::make_interaction`, `make_diagonal_interaction`, `make_interaction_and_offset`,
`make_diagonal_interaction_and_offset`; they wrap `Interaction::new*` (which cannot know the sampler's number of
variables) and `Qmc::add_interaction` (which now checks it FIRST). lean/QmcModel/QmcCtor.lean models them as the code
writes them, lean/QmcProps/C16Sampler.lean proves the property at that level; the theorems are built and audited
(#print axioms + forbidden-token scan over the import closure; leanchecker in the thorough tier) as extra obligations
of C16. The model is tied to the real code by the harness mode `qmcctor` (checks/C16.py)."""
MODULE = "QmcProps.C16Sampler"
NS = "Qmc.C16."
THEOREMS = [NS + t for t in [
    "qmc_make_accepts_iff",            # Ok <=> the standalone constructor accepts AND every variable < nvars
    "qmc_make_accepts_iff_explicit",   # ... spelled out on the input for make_interaction / make_diagonal_interaction / make_diagonal_interaction_and_offset
    "qmc_make_never_panics",           # no input makes a sampler-level constructor panic
    "qmc_make_reject_leaves_state",    # a call that is not Ok changes NOTHING (bonds, offset, flags, non_const_diags, heat-bath table)
    "qmc_make_accept_effects",         # exact effects of an accepted call
    "out_of_range_rejected",           # F31 in general: a variable >= nvars => (Err, same sampler), whatever the matrix
    "out_of_range_variable_rejected",  # the F31 witness input
    "accepted_bonds_in_range",         # invariant over ANY sequence of calls: stored bonds act on distinct variables < nvars
    "accepted_bonds_varsOK",           # ... as `VarsOK (genericHam bonds) nvars`, the precondition of the C04 / C07 sampling theorems
    "flags_sticky",                    # has_cluster_edges / breaks_ising_symmetry, once set, stay set
    "flags_exact",                     # the flags are `any` over the stored bonds
    "nonConstDiags_exact",             # non_const_diags = increasing list of the bond indices with a non-constant diagonal
    "flags_order_independent",         # flags / offset / multiset of bonds do not depend on the order of the calls
    "table_is_current",                # along calls / set_do_heatbath / set_do_loop_updates / steps the cached heat-bath table is absent or current
    "heatbath_step_finds_table",       # with heat-bath on, the unwrap in diagonal_update finds the table of the current interactions
    "events_keep_bonds_in_range",      # the bond invariant along such interleavings
]]


def run(ck):
    save = ck.prop
    try:
        if ck.lake_build([MODULE]):
            ck.prop = "%sxsampler" % save
            ck.audit(MODULE, THEOREMS)
    finally:
        ck.prop = save
