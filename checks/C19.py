"""C19 — classical Ising sampler: Boltzmann law of the reported energy is stationary ({spin+edge} move
set), moves keep the number of spins, reported energy = direct sum over edges and biases."""
from checks import big_scale
from checks import api_cov
from checks import extra_c19unique
from checks import pure_fns
LEAN_TARGETS = ["QmcProps.C19", "drv_c19"]
BINS = ["c19"]

THEOREMS = [
    "energy_eq",
    "energyEdges_def",
    "spin_delta",
    "edge_delta",
    "self_loop_counterexample",
    "shouldFlip_spec",
    "doSpinFlip_spec",
    "doEdgeFlip_spec",
    "metropolis_accept_ratio",
    "spin_move_length",
    "edge_move_length",
    "worm_move_length",
    "time_step_length",
    "spin_move_reversible",
    "edge_move_reversible",
    "spin_move_stochastic",
    "edge_move_stochastic",
    "step_invariant",
    "step_stochastic",
    "step3_invariant_partial",
    "importance_total",
    "importance_enabled_iff",
    "importance_table_spec",
    "importance_index_interval",
    "edge_pick_never_panics",
    "edge_move_no_edges",
    "worm_accept_energy_sign",
    "worm_bias_sign_witness",
    "worm_not_stationary_witness",
    "worm_selection_asymmetry_witness",
    "worm_absolute_tolerance_witness",
]

RULE = ("graphs on 2..6 spins without self-loops: frustrated triangles, multi-edges (both orientations), rings, random edges, "
        "J = k/8 of both signs (sometimes 0), biases k/8, beta = k/8 in [0,4]; exact trajectories of do_time_step (1..4 steps, "
        "each move kind forced in turn for the first step, update counts None/0..4, only_basic_moves on/off, importance sampling "
        "on a third of the graphs incl. mixed signs and J = 0) replayed by the model from the "
        "recorded RNG words; acceptance probabilities of single spin/edge updates measured by bisection of the gen::<f64>() word; "
        "importance-table boundaries measured by bisection of the gen_range(0.0..total) word; exact one-step kernels of the real "
        "code on 2..4 spins (spin, edge uniform/importance, worm) obtained by exploring the tree of RNG draws; a small-unit stream "
        "(same graphs/trajectories with J, h times 2^-k and beta times 2^k, k in {20,36,45,50}, same RNG words: states must be "
        "bit-identical; worm kernels, thresholds and kernels in those units); random interleavings of all public calls. A case is "
        "non-trivial when it executes at least one update; distinct = distinct (graph, beta, state, options, words).")


def main(ck):
    pure_fns.run(ck)   # source->Lean translation of graph.rs's pure arithmetic (group Classical), re-proved equal to QmcModel/Classical.lean
    if ck.lake_build(LEAN_TARGETS):
        ck.audit("QmcProps.C19", ["Qmc.C19." + t for t in THEOREMS])
    if ck.cargo_build(BINS):
        for mode, name in [
            ("helpers", "remove-doubles-helper"),
            ("api", "public-api-interleavings"),
            ("traj", "trajectories"),
            ("thr", "acceptance-thresholds"),
            ("imp", "importance-table"),
            ("kern", "kernel-spin-edge"),
            ("kernworm", "kernel-worm"),
            ("witness-worm", "worm-bias-sign-witness"),
            ("witness-asym", "worm-asymmetry-witness"),
            ("witness-tiny", "worm-tolerance-witness"),
            ("witness-parity", "parity-witness"),
            ("regress-imp", "importance-regression"),
            ("regress-noedges", "no-edges-regression"),
        ]:
            cases = ck.harness("c19", [mode])
            ck.correspond(name, "drv_c19", cases)
        ck.assumptions += [
            "graphs without self-loops, endpoints in range (WF, NoSelfLoops); beta >= 0",
            "worm move excluded from the stationarity claim (known findings F11, F17); claimed in full for {spin+edge}",
            "importance sampling: an exact hit of the draw on a table entry is a tie (binary_search among equal entries is std-version dependent); the invariance theorem holds for any state-independent selection weights",
            "exp: f64::exp vs a 200-bit rational enclosure, decisions closer than 1e-9 are ties",
        ]
        ck.extra_trusted += [
            "kernel extraction in harness/src/bin/c19.rs: the kind of each RNG draw (gen_range(0..n) vs threshold draw) is recognised from the behaviour of the real code on a grid of 129 probe words using the rand 0.8.8 acceptance zone; ambiguous nodes abstain (counted in input_distribution.kern_abstained)",
            "uniqueness of the stationary law and geometric convergence are proved for the {spin+edge} kernels under condition (M) (QmcProps/C19Unique.lean); the executable decision of (M) in Drivers/C19.lean (mixingB) is a 3-line transliteration, not linked by a theorem; outside (M) see known finding F29",
        ]
    extra_c19unique.run(ck)   # uniqueness of the stationary law / irreducibility condition (M) / parity obstruction (F29)
    api_cov.run(ck, "c19")   # otherwise unexercised public API, model-free oracles of this property
    big_scale.run(ck, "classicalring")   # large-scale regime (>65536 bonds/ops/slots, release semantics): model-free oracles of the property statements
    return ck.finish(RULE)
