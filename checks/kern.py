"""Exact one-step kernels of the real code on tiny systems (harness bin `kern`): the real update is run on every
branch of its draw tree (thresholds located by bisection on scripted RNG words), giving the transition matrix K of
the REAL code on a closed set of configurations; the oracle checks rows sum to 1, legality of every successor,
pi K = pi for the SSE weight pi (matrix elements from the real code), detailed balance where it should hold, and that
`timestep` is the composition of its parts. Model-independent (the output column is the constant `ok`): it supports
the search for a failing input and validates the composition hypotheses of the kernel-invariance theorems; it is
not a proof. Called from C01 (ising), C02 (heatbath), C03 (rvb), C04 (generic)."""
import hashlib

BIN = "kern"


def run(ck, kern_mode):
    mode = "kernel-stationarity"
    cases = ck.harness(BIN, [kern_mode])
    if not cases:
        ck.oblige("correspondence %s produced cases" % mode, False, "harness produced no cases")
        return
    fails = 0
    for c in cases:
        ck.evaluations += 1
        if c["nt"]:
            ck.distinct.add(hashlib.sha1((mode + c["input"]).encode()).hexdigest())
        if c["output"].strip() != "ok" or c["oracle"] is None or c["oracle"].startswith("FAIL"):
            fails += 1
            ck.add_failure("oracle", mode, c, "ok", (c["oracle"] or "FAIL:no verdict")[5:], True)
    ck.modes[mode] = {"cases": len(cases), "kinds": {"kern-" + kern_mode: len(cases)}, "disagreements": 0,
                      "ties_skipped": 0, "oracle_failures": fails}
    ck.notes.append("kernel-stationarity (%s): the one-step transition matrices of the real code were measured exactly on tiny "
                    "systems by exploring the draw tree of each update (scripted RNG, bisected thresholds) and checked for "
                    "pi K = pi with the SSE weight, legality of successors, row sums and timestep = composition of its parts; "
                    "a model-independent oracle that supports the search for failing inputs, not a theorem" % kern_mode)
    ck.oblige("%s: pi K = pi, legality, row sums and composition on %d exactly measured kernels of the real code (%s)"
              % (mode, len(cases), kern_mode), fails == 0, "%d oracle failures" % fails)
