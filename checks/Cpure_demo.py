"""temporary demo plugin: only the pure-function translation obligations"""
from checks import pure_fns


def main(ck):
    pure_fns.run(ck)
    return ck.finish("pure-function translation demo: no generated cases")
