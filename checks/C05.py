"""C05 — parallel tempering keeps every replica at its own thermal distribution (partial by nature:
invariance is proved, ergodicity is not a theorem)."""
from checks import big_scale
from checks import pure_fns
from checks import scale_inv
LEAN_TARGETS = ["QmcProps.C05", "drv_c05", "QmcProps.C02", "drv_c02", "drv_c04"]
BINS = ["c05", "c02"]

# C05's per-replica statement rests on the single-replica kernels. The ladders here contain heat-bath replicas (Ising and
# generic), so the heat-bath kernel's theorems (C02) are re-audited and C02's bisection / sweep modes are re-run by this check.
HEATBATH_KERNEL_THEOREMS = [
    "Qmc.C02.heatbath_ratio_real_table", "Qmc.C02.heatbath_detailed_balance", "Qmc.C02.real_table_valid",
    "Qmc.C02.table_valid_generic", "Qmc.C02.table_used_generic",
]

THEOREMS = [
    "swap_reversible",
    "swap_invariant",
    "swap_is_involution",
    "phase_invariant",
    "temperingStep_invariant",
    "neighbourPairs_distinct",
    "code_step_invariant",
    "replica_step_invariant",
    "interleave_invariant",
    "driver_invariant",
    "marginal_is_own_law",
    "model_acceptance_eq_kernel_acceptance",
]

RULE = ("histories: ladders of 2..8 real replicas (Ising: beta / J / Gamma / h / mixed ladders and ladders with repeated "
        "neighbours, heat-bath, RVB on uniform-|J| ladders, opposite-sign twin edges + RVB + per-edge J ladders, h = 0 / h > 0 mixes, managers grown by hand, h != 0; generic: beta ladders with loop updates / heat-bath) "
        "advanced to equilibrium, then total time 4..28, swap frequency 1..5, sampling frequency 1..5 (non-divisors included): "
        "the real timesteps_sample and parallel_timesteps_sample on clones versus a manual interleaving of timesteps(t) and "
        "tempering_step() at the C17 cadence with the same container words (final ladder, returned samples and energies, "
        "total_swaps, container-RNG consumption must agree); every tempering step of the manual history is a C10 case "
        "(after-state, decision log, counters; every second one with all swap probabilities and the order draw bisected) "
        "and a rayon-step case; at the end of every history the ladder is snapshotted through (SerializeTemperingContainer, rng, rngs) -> JSON -> into_tempering_container_from_vec and the restored ladder must stay in lock-step with an in-memory twin (states, operator strings, cutoffs, non-moving fields, total_swaps after every round of time steps and tempering step; samples, energies and RNG consumption of timesteps_sample). heatbath-*: C02 harness modes pairs / sweeps / prob (bisected slot probabilities of the heat-bath update). gmixed: admission of generic replicas (all equal / scaled magnitudes with the same zero pattern / one term changed / sub-EPSILON control; also through into_qmc of Ising samplers with different couplings): a replica whose Hamiltonian differs from its predecessor must be refused by add_qmc_stepper and can_swap_graphs; admitted ladders are stepped and judged by the swap-probability oracle. parladder: mixed Ising ladders of 2..11 replicas (every replica its own |J| / Gamma / h and beta; two thirds with runs of repeated Hamiltonians so that beta-only pairs and different-Hamiltonian pairs alternate), equilibrated, identical clones driven by the serial driver and by the rayon driver inside explicit rayon::ThreadPoolBuilder pools of k = 1, 2, 3, 4 workers (thorough 1..8): 12 / 24 rounds of timesteps(1..2) / parallel_timesteps + tempering_step / parallel_tempering_step in lock-step with the same container words, then timesteps_sample / parallel_timesteps_sample on fresh clones. Oracle (real code only): per step the same number of accepted exchanges, the same container words, identical replicas at every position (state, n, cutoffs, operator string, non-moving fields), every position keeps its Hamiltonian (edges, transverse, longitudinal) and beta and holds a legal string, and EVERY exchange decision of both drivers equals (exact Metropolis ratio > the pair's own uniform), the ratio recomputed by the harness (c10.rs oracle_ratio) from the two operator strings under the two Hamiltonians and betas, the uniform decoded from the pair's own container word (knife-edge decisions skipped and counted); drivers: samples, energies, total_swaps, words, final ladder. The model side answers only the cadence counts for this kind (protocol kind hist: steps and samples per history) - the comparison is real code vs real code and vs the exact ratio. grow: ladders grown between tempering steps (add_qmc_stepper / tempering_step / parallel_tempering_step interleaved, 0..8 replicas), every step a full C10 case. Non-trivial = history with at least one tempering step / step with a rejected or evaluated "
        "decision; distinct = distinct full case text.")


def main(ck):
    pure_fns.run(ck)   # source->Lean translation of pure functions, re-proved equal to the hand model
    if ck.lake_build(LEAN_TARGETS):
        ck.audit("QmcProps.C05", ["Qmc.C05." + t for t in THEOREMS])
        ck.audit("QmcProps.C02", HEATBATH_KERNEL_THEOREMS)
    if ck.cargo_build(BINS):
        cases = ck.harness("c05", ["histories"])
        ck.correspond("histories", "drv_c05", cases)
        cases = ck.harness("c05", ["grow"])
        ck.correspond("grow", "drv_c05", cases)
        cases = ck.harness("c05", ["gmixed"])
        ck.correspond("gmixed", "drv_c05", cases)
        # mixed ladders (|J| / Gamma / h AND beta differ; runs of repeated Hamiltonians), 2..11 replicas: serial driver vs the
        # rayon driver inside explicit pools of 1..4 (thorough 1..8) workers; every exchange decision of both drivers is judged
        # against the exact Metropolis ratio recomputed from the two operator strings with the pair's OWN uniform
        ck.correspond("parladder", "drv_c05", ck.harness("c05", ["parladder"]))
        # generic replicas with loop updates (XXZ ring with Ising anisotropy, cold betas): every loop update of long chains is
        # checked for closed world lines; loops with very many vertex visits are replayed exactly by the Lean loop model
        # (protocol and driver of C04); a beta ladder is checked for closed world lines / legal strings after every round
        ck.correspond("long-directed-loops", "drv_c04", ck.harness("c05", ["loops"]))
        ck.correspond("xxz-ladder-consistent-every-round", "drv_c05", ck.harness("c05", ["xxz"]))
        # the heat-bath diagonal update of the replicas (same harness modes as C02): stored tables stay valid under swaps,
        # sweeps replayed exactly, every slot's insert / accept / remove probability bisected (Ising and generic samplers,
        # generic diagonal bonds with several different non-zero weights)
        ck.correspond("heatbath-table-invariant-under-swaps", "drv_c02", ck.harness("c02", ["pairs"]))
        ck.correspond("heatbath-sampler-sweeps", "drv_c02", ck.harness("c02", ["sweeps"]))
        ck.correspond("heatbath-sampler-probabilities", "drv_c02", ck.harness("c02", ["prob"]))
        ck.extra_trusted.append("Spy delegation wrapper in harness/src/bin/c10.rs (each tempering-step case is re-run on an unwrapped container and must end in the same state)")
        ck.extra_trusted.append("rayon scheduling / Rust aliasing rules for par_iter_mut (serial = parallel is observed on the same words, not proved)")
        ck.assumptions.append("each replica's own time-step kernel leaves its own SSE weight W_i invariant (C01-C04, C08, C09); strings legal (C07); beta > 0")
        ck.assumptions.append("a common fixed cutoff L during the swap phase (established by the step: C10 cutoffs_equal_after_step); cutoff growth changes the configuration space and is outside the invariance statement")
        ck.assumptions.append("NOT proved: ergodicity / convergence to the stationary law; that the SSE weight marginalises to the quantum thermal state (C01)")
        ck.notes.append("partial: the theorem is invariance of the product law under the kernels the code implements (acceptance tied to the code by C10 bisection); 'samples exactly' additionally needs ergodicity")
    scale_inv.run(ck, "c05")   # power-of-two unit change: identical trajectory, energies exactly scaled (model-free twin oracle)
    scale_inv.run(ck, "c08", tags=['C08'])   # a broken diagonal update (C08) breaks each replica's equilibrium, i.e. this property too
    big_scale.run(ck, "manybonds.full_ladder", tags=["C10"])   # large-scale regime (>65536 bonds/ops/slots, release semantics): model-free oracles of the property statements
    return ck.finish(RULE)
