"""C10 — replica swaps use the exact Metropolis probability and swap only configurations."""
LEAN_TARGETS = ["QmcProps.C10", "drv_c10"]
BINS = ["c10"]

THEOREMS = [
]

RULE = ("tbd")


def main(ck):
    if ck.lake_build(LEAN_TARGETS):
        ck.audit("QmcProps.C10", ["Qmc.C10." + t for t in THEOREMS])
    if ck.cargo_build(BINS):
        for mode in ["ising", "generic", "pairs", "mismatch"]:
            cases = ck.harness("c10", [mode])
            ck.correspond(mode, "drv_c10", cases)
    return ck.finish(RULE)
