"""C10 — replica swaps use the exact Metropolis probability and swap only configurations."""
from checks import big_scale
from checks import pure_fns
from checks import api_cov
from checks import scale_inv
LEAN_TARGETS = ["QmcProps.C10", "drv_c10"]
BINS = ["c10"]

THEOREMS = [
    "relWeight_eq_product",
    "canSwap_symm",
    "relWeightGeneric_eq_product",
    "generic_canSwap_imp_hamEq",
    "pSwap_evaluated",
    "hamEq_shortcut_sound",
    "hamEq_imp_canSwap",
    "swapProb_exact",
    "accept_grid",
    "unequal_cutoffs_break_ratio",
    "swap_pair_spec",
    "swapGraphs_cutoffs",
    "swap_exchanges_only_config",
    "equalisation_keeps_ops",
    "cutoffs_equal_after_step",
    "one_cutoff_after_step_any_managers",
    "swap_counter_exact",
    "decisions_are_threshold_tests",
    "step_pairs",
    "pairs_disjoint",
    "phase_decisions_independent",
    "swap_uniforms_pre_drawn",
    "parallel_step_eq_serial",
    "one_replica_steps",
    "one_replica_old_guard_draws",
    "cache_valid_after_step",
    "cache_valid_after_add",
    "reachable_cacheValid",
    "step_pairs_reachable",
    "step_decision_count",
    "parallel_step_eq_serial_reachable",
    "old_canSwap_accepts_different_graphs",
    "canSwap_same_shape",
    "swap_overflow_witness",
]

RULE = ("ising/generic: ladders of 0..8 real replicas (QmcIsingGraph / Qmc, 2-4 spins, random graphs with multi-edges, dyadic "
        "J of both signs, Gamma, h, beta; ladder kinds also: opposite-sign twin edges + RVB + per-edge J ladders, h = 0 / h > 0 mixes at small beta*h (4 steps with updates in between), small energy units (everything x 2^-56 / 2^-58, beta x inverse, advanced without timestep), managers grown by hand through get_manager_mut().set_cutoff before a third of the steps; overflow regime: a freshly added replica at beta = k*2^50 without field next to a hot replica holding field operators (temperature factor +inf in binary64, Hamiltonian factor exactly 0, exact ratio 0); a third of the ladders with managers built WITHOUT the per-bond counter table (new_with_rng_with_manager_hook + FastOps::new_from_nvars: get_count walks the string), a third mixed, a third with generous initial cutoffs (sparse strings, operators at p > n); beta / J / Gamma / h / mixed ladders and ladders with repeated neighbours so that "
        "ham_eq pairs and evaluated pairs mix; generic: also the admission cases of mode_generic_mixed (see C05 gmixed); heat-bath on some) advanced to equilibrium with unequal cutoffs, then 2-3 "
        "tempering steps each driven by a recorded script; per step: exact after-state (cutoffs, states, operator strings, "
        "frame digest of every non-moving field), total_swaps, decision log from the delegation spy (which pairs, "
        "evaluated or ham_eq shortcut, both relative weights), every pair's swap probability and the order draw measured "
        "by bisection of the script word, unwrapped-container and rayon re-runs on the same words. pairs: can_swap_graphs / "
        "ham_eq / relative_weight called directly on equal, sign-flipped, other-graph, other-magnitude pairs (Ising) and "
        "equal / perturbed interaction lists (generic, incl. the 0 and infinity branches). mismatch: ladders whose graphs "
        "differ in edge count must be refused (regression for F14). grow: ladders grown BETWEEN tempering steps (start from 0/1/2 replicas, then add 1-2, step 1-2 times serial or rayon, ... up to 8; Ising with one Hamiltonian and one beta (every ratio exactly 1), one Hamiltonian and a beta ladder, Hamiltonian ladders; generic with equal / different beta); the model replays the recorded call history (a/s/p) to know the ham_eq caches; oracle: every neighbour pair of the current ladder gets exactly one decision per step, ratio-1 pairs are always exchanged. pairs also: every matrix element of QmcIsingGraph::hamiltonian (all bonds x all in/out patterns) and the public swap_graphs on samplers with unequal cutoffs. Non-trivial = at least one rejected or evaluated decision "
        "(steps) / both strings non-empty (pairs); distinct = distinct full case text.")


def main(ck):
    pure_fns.run(ck)   # source->Lean translation of pure functions, re-proved equal to the hand model
    if ck.lake_build(LEAN_TARGETS):
        ck.audit("QmcProps.C10", ["Qmc.C10." + t for t in THEOREMS])
    if ck.cargo_build(BINS):
        for mode in ["ising", "generic", "pairs", "mismatch", "grow"]:
            cases = ck.harness("c10", [mode])
            ck.correspond(mode, "drv_c10", cases)
        # known finding F28 (fixed witness, independent of VERIF_SEED): a freshly added replica in another energy unit next to a
        # hot replica -- exact ratio >= 1 (model, log oracle, Lean: swap_overflow_witness), the code's bisected probability is 0;
        # plus the control pair at a common unit, where code and model agree
        ck.correspond("swap-overflow-witness", "drv_c10", ck.harness("c10", ["overflow-witness"]))
        ck.extra_trusted.append("Spy delegation wrapper in harness/src/bin/c10.rs (each case is re-run on an unwrapped container and must end in the same state)")
        ck.assumptions.append("swapProb_exact: both strings legal for their own Hamiltonian (C07), beta > 0, Hamiltonians well formed (nvars derived from the edges) and accepted by can_swap_managers; equal cutoffs are established by the step itself (cutoffs_equal_after_step)")
        ck.assumptions.append("probability = threshold/2^52 of a uniform 52-bit grid draw (accept_grid); f64 rounding of division/powi absorbed by the 1e-9 tolerance")
    api_cov.run(ck, "c10")   # otherwise unexercised public API, model-free oracles of this property
    scale_inv.run(ck, "c10")   # power-of-two unit change: identical trajectory, energies exactly scaled (model-free twin oracle)
    big_scale.run(ck, "manyops")   # large-scale regime (>65536 bonds/ops/slots, release semantics): model-free oracles of the property statements
    return ck.finish(RULE)
