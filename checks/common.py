"""Shared machinery of ./check: Lean build + axiom audit, harness build against /repo's working
tree (hooks on), harness|driver correspondence, oracle collection, known findings, evidence,
violation protocol.  See DESIGN.md section 1.7."""
import fcntl
import hashlib
import json
import os
import re
import subprocess
import sys
import time

VERIF = os.path.dirname(os.path.dirname(os.path.abspath(__file__)))
LEAN = os.path.join(VERIF, "lean")
CACHE = os.path.join(VERIF, ".cache")
# Overridable for mutation experiments on a scratch copy of /repo (tools/mutcheck.sh); the
# registered checks never set these, so they always build against /repo itself.
REPO = os.environ.get("VERIF_REPO", "/repo")
HARNESS = os.environ.get("VERIF_HARNESS_DIR", os.path.join(VERIF, "harness"))
TARGET = os.environ.get("VERIF_TARGET_DIR", os.path.join(CACHE, "target"))
OUT = os.environ.get("VERIF_OUT_DIR", VERIF)
ALLOWED_AXIOMS = {"propext", "Classical.choice", "Quot.sound"}
FORBIDDEN = re.compile(r"\bsorry\b|\badmit\b|^\s*axiom\s|native_decide|bv_decide|implemented_by|\bunsafe\s|maxHeartbeats\s+0\b", re.M)

TRUSTED_BASE = [
    "Lean 4.33 kernel (thorough tier re-checks the property module with leanchecker)",
    "axioms limited to propext, Classical.choice, Quot.sound (audited with #print axioms on every run)",
    "hand-written Lean model: its fidelity to /repo is established only by the correspondence run of this check (finite, measured)",
    "Rust harness (/verif/harness), RecRng/ScriptRng, checks/common.py comparison, Lean compiler/runtime of the driver executable",
    "QmcModel/Rand.lean as a description of rand 0.8.8; threshold/2^64 read as the probability (error <= 2^-52)",
    "f64 vs exact rationals: inputs are small dyadic rationals; decisions closer than 1e-9 to a threshold are counted as ties, not compared",
]


def sh(cmd, cwd=None, env=None, timeout=None, input=None):
    e = dict(os.environ)
    if env:
        e.update(env)
    p = subprocess.run(cmd, cwd=cwd, env=e, timeout=timeout, input=input, capture_output=True, text=True, shell=isinstance(cmd, str))
    return p.returncode, p.stdout, p.stderr


class Lock:
    def __init__(self, name):
        os.makedirs(CACHE, exist_ok=True)
        self.path = os.path.join(CACHE, name + ".lock")

    def __enter__(self):
        self.f = open(self.path, "w")
        fcntl.flock(self.f, fcntl.LOCK_EX)

    def __exit__(self, *a):
        fcntl.flock(self.f, fcntl.LOCK_UN)
        self.f.close()


def strip_lean_comments(src):
    out = []
    i = 0
    depth = 0
    n = len(src)
    while i < n:
        if src.startswith("/-", i):
            depth += 1
            i += 2
        elif depth > 0 and src.startswith("-/", i):
            depth -= 1
            i += 2
        elif depth > 0:
            i += 1
        elif src.startswith("--", i):
            while i < n and src[i] != "\n":
                i += 1
        else:
            out.append(src[i])
            i += 1
    return "".join(out)


class Check:
    def __init__(self, prop, tier, seed, replay=None):
        self.prop = prop
        self.tier = tier
        self.seed = seed
        self.replay = replay
        self.t0 = time.time()
        self.obligations = []  # (name, ok, detail)
        self.failures = []  # dicts: kind, where, input, detail, oracle_confirmed
        self.known_hits = []
        self.evaluations = 0
        self.distinct = set()
        self.ties = 0
        self.samples = []
        self.stats = {}
        self.modes = {}
        self.assumptions = []
        self.notes = []
        self.checker_cmds = []
        self.extra_trusted = []
        self.known = load_known(prop)
        # A run against a scratch copy of the repository (tools/mutcheck.sh: VERIF_REPO != /repo) regenerates the files under
        # lean/QmcModel/Generated from THAT copy; they are put back at the end (finish) so that the tree under /verif always
        # holds the files generated from /repo itself (a stale generated file from a mutated copy once broke `./check --setup`).
        self._saved_generated = None
        if os.path.realpath(REPO) != "/repo":
            gdir = os.path.join(LEAN, "QmcModel", "Generated")
            self._saved_generated = {}
            if os.path.isdir(gdir):
                for fn in os.listdir(gdir):
                    p = os.path.join(gdir, fn)
                    if os.path.isfile(p):
                        self._saved_generated[p] = open(p, "rb").read()

    # ---------------- obligations ----------------
    def oblige(self, name, ok, detail=""):
        self.obligations.append((name, bool(ok), detail))
        if not ok:
            self.failures.append({"kind": "proof", "where": name, "input": None, "detail": detail[-2000:], "oracle_confirmed": False})

    # ---------------- Lean side ----------------
    def lake_build(self, targets):
        cmd = ["lake", "build"] + targets
        self.checker_cmds.append("cd /verif/lean && " + " ".join(cmd))
        with Lock("lake"):
            rc, out, err = sh(cmd, cwd=LEAN, timeout=3000)
        ok = rc == 0
        self.oblige("lake build " + " ".join(targets), ok, out + err)
        return ok

    def scan_sources(self, files):
        bad = []
        for f in files:
            p = os.path.join(LEAN, f)
            if not os.path.exists(p):
                bad.append(f + ": missing")
                continue
            src = strip_lean_comments(open(p).read())
            m = FORBIDDEN.search(src)
            if m:
                bad.append("%s: forbidden token %r" % (f, m.group(0)))
        self.oblige("source scan (no sorry/admit/axiom/native_decide/bv_decide/implemented_by/unsafe/maxHeartbeats 0) over %d files" % len(files), not bad, "; ".join(bad))

    def lean_closure(self, module):
        """transitive project-local imports of a module (for the forbidden-token scan)"""
        seen = []
        todo = [module]
        while todo:
            m = todo.pop()
            f = m.replace(".", "/") + ".lean"
            if f in seen or not os.path.exists(os.path.join(LEAN, f)):
                continue
            seen.append(f)
            for line in open(os.path.join(LEAN, f)):
                mm = re.match(r"\s*(?:public\s+)?import\s+(Qmc\w*(?:\.\w+)*)", line)
                if mm:
                    todo.append(mm.group(1))
        return seen

    def audit(self, module, theorems):
        """#print axioms for every listed theorem; each is one obligation."""
        os.makedirs(os.path.join(LEAN, ".audit"), exist_ok=True)
        path = os.path.join(LEAN, ".audit", self.prop + ".lean")
        with open(path, "w") as f:
            f.write("import %s\n" % module)
            for t in theorems:
                f.write("#print axioms %s\n" % t)
        self.checker_cmds.append("cd /verif/lean && lake env lean .audit/%s.lean   # #print axioms for %d theorems" % (self.prop, len(theorems)))
        rc, out, err = sh(["lake", "env", "lean", path], cwd=LEAN, timeout=1800)
        text = out + err
        found = {}
        for m in re.finditer(r"'([^']+)' depends on axioms: \[([^\]]*)\]", text, re.S):
            found[m.group(1)] = set(a.strip() for a in m.group(2).replace("\n", " ").split(",") if a.strip())
        for m in re.finditer(r"'([^']+)' does not depend on any axioms", text):
            found[m.group(1)] = set()
        for t in theorems:
            if t not in found:
                self.oblige("theorem " + t, False, "not found / did not elaborate: " + text[-1500:])
            else:
                extra = found[t] - ALLOWED_AXIOMS
                self.oblige("theorem " + t, not extra, "axioms: " + ", ".join(sorted(found[t])))
        self.scan_sources(self.lean_closure(module))
        if self.tier == "thorough":
            self.checker_cmds.append("cd /verif/lean && lake env leanchecker " + module)
            rc, out, err = sh(["lake", "env", "leanchecker", module], cwd=LEAN, timeout=3000)
            self.oblige("leanchecker " + module, rc == 0, out + err)

    # ---------------- Rust side ----------------
    def cargo_build(self, bins, profile=None):
        """profile=None: the dev profile (debug assertions on); profile="nodebug": release semantics (harness/Cargo.toml)"""
        env = {"CARGO_NET_OFFLINE": "true", "RUSTFLAGS": "--cfg qmc_verif --cap-lints warn", "CARGO_TARGET_DIR": TARGET}
        cmd = ["cargo", "build", "--offline", "--quiet"] + (["--profile", profile] if profile else [])
        for b in bins:
            cmd += ["--bin", b]
        with Lock("cargo-" + hashlib.sha1(TARGET.encode()).hexdigest()[:8]):
            rc, out, err = sh(cmd, cwd=HARNESS, env=env, timeout=3000)
        if rc != 0:
            # the harness could not be built against the current /repo tree: correspondence cannot run
            self.oblige("cargo build harness (%s%s) against /repo working tree" % (",".join(bins), (" profile " + profile) if profile else ""), False, err[-3000:])
            return False
        return True

    def harness(self, binname, args, timeout=None, profile=None):
        if timeout is None:
            timeout = 600 if self.tier == "quick" else 3600
        cmd = [os.path.join(TARGET, profile or "debug", binname)] + args + ["--seed", str(self.seed), "--tier", self.tier]
        try:
            rc, out, err = sh(cmd, cwd=HARNESS, timeout=timeout, env={"RUST_BACKTRACE": "0"})
        except subprocess.TimeoutExpired:
            self.failures.append({"kind": "harness", "where": binname + " " + " ".join(args), "input": None, "detail": "harness timed out after %ss (hang in the real code?)" % timeout, "oracle_confirmed": False})
            return []
        if rc != 0:
            self.failures.append({"kind": "harness", "where": binname + " " + " ".join(args), "input": None, "detail": "harness exited %d: %s" % (rc, err[-2000:]), "oracle_confirmed": False})
        cases = []
        for line in out.splitlines():
            if line.startswith("CASE "):
                parts = [p.strip() for p in line[5:].split(" | ")]
                nt = parts[0] == "1"
                cases.append({"nt": nt, "input": parts[1], "output": parts[2] if len(parts) > 2 else "", "oracle": parts[3] if len(parts) > 3 else None})
            elif line.startswith("STAT "):
                _, k, v = line.split(" ", 2)
                try:
                    self.stats[k] = self.stats.get(k, 0) + int(v)
                except ValueError:
                    self.stats[k] = v
        return cases

    def driver(self, exe, inputs, timeout=1800):
        path = os.path.join(LEAN, ".lake", "build", "bin", exe)
        data = "\n".join(inputs) + "\n"
        rc, out, err = sh([path], input=data, timeout=timeout)
        lines = out.splitlines()
        if rc != 0 or len(lines) != len(inputs):
            self.oblige("driver %s answered every case" % exe, False, "rc=%d got %d lines for %d inputs; stderr=%s" % (rc, len(lines), len(inputs), err[-500:]))
            lines += ["<no-answer>"] * (len(inputs) - len(lines))
        return lines

    # ---------------- comparison ----------------
    @staticmethod
    def tok_equal(a, b):
        if a == b:
            return True
        if a.startswith("~") and b.startswith("~"):
            try:
                x, y = float(a[1:]), float(b[1:])
            except ValueError:
                return False
            return abs(x - y) <= 1e-9 * max(1.0, abs(x), abs(y))
        return False

    def correspond(self, mode, exe, cases, max_samples=3):
        """Compare the model's answers with what the real code did, collect oracle verdicts."""
        if not cases:
            self.oblige("correspondence %s produced cases" % mode, False, "harness produced no cases")
            return
        outs = self.driver(exe, [c["input"] for c in cases])
        diffs = 0
        ties = 0
        orfails = 0
        kinds = {}
        for c, mo in zip(cases, outs):
            self.evaluations += 1
            kind = c["input"].split(" ", 1)[0]
            kinds[kind] = kinds.get(kind, 0) + 1
            if c["nt"]:
                self.distinct.add(hashlib.sha1((mode + c["input"]).encode()).hexdigest())
            mt, it = mo.split(), c["output"].split()
            oracle_bad = c["oracle"] is not None and c["oracle"].startswith("FAIL")
            if "?" in mt:
                ties += 1
                agree = True
            else:
                agree = len(mt) == len(it) and all(self.tok_equal(a, b) for a, b in zip(mt, it))
            if oracle_bad:
                orfails += 1
                self.add_failure("oracle", mode, c, mo, c["oracle"][5:], True)
            if not agree:
                diffs += 1
                self.add_failure("correspondence", mode, c, mo, "model and implementation disagree", oracle_bad)
            if len(self.samples) < 40 and (len([s for s in self.samples if s["mode"] == mode]) < max_samples) and c["nt"]:
                self.samples.append({"mode": mode, "input": c["input"][:600], "impl": c["output"][:300], "model": mo[:300], "oracle": c["oracle"]})
        self.ties += ties
        self.modes[mode] = {"cases": len(cases), "kinds": kinds, "disagreements": diffs, "ties_skipped": ties, "oracle_failures": orfails}
        self.oblige("correspondence %s: model == implementation on %d cases" % (mode, len(cases)), diffs == 0, "%d disagreements" % diffs)

    def add_failure(self, kind, mode, case, model_out, detail, oracle_confirmed):
        f = {"kind": kind, "where": mode, "input": case["input"], "impl": case["output"], "model": model_out, "detail": detail, "oracle_confirmed": oracle_confirmed}
        self.failures.append(f)

    # ---------------- known findings ----------------
    def split_known(self):
        """Failures that match a listed known finding are reported as KNOWN-FINDING, not VIOLATION."""
        fresh = []
        for f in self.failures:
            hit = None
            for k in self.known:
                if k.get("status") != "known":
                    continue
                m = k.get("match", {})
                if m.get("where") and m["where"] != f.get("where"):
                    continue
                text = (f.get("input") or "") + " || " + (f.get("detail") or "")
                if m.get("regex") and re.search(m["regex"], text):
                    hit = k
                    break
            if hit:
                self.known_hits.append((hit, f))
            else:
                fresh.append(f)
        return fresh

    # ---------------- finish ----------------
    def restore_generated(self):
        if self._saved_generated:
            for p, content in self._saved_generated.items():
                try:
                    if open(p, "rb").read() != content:
                        open(p, "wb").write(content)
                except OSError:
                    open(p, "wb").write(content)
            self._saved_generated = None

    def finish(self, rule, level="proof", extra_cov=None):
        self.restore_generated()
        fresh = self.split_known()
        wall = time.time() - self.t0
        n_obl = len(self.obligations)
        n_ok = sum(1 for o in self.obligations if o[1])
        cov = {
            "obligations": n_obl,
            "discharged": n_ok,
            "checker_cmd": " ; ".join(dict.fromkeys(self.checker_cmds)) or "none",
            "trusted_base": TRUSTED_BASE + self.extra_trusted,
            "evaluations": self.evaluations,
            "distinct_nontrivial": len(self.distinct),
            "rule": rule,
            "samples": self.samples[:12] if self.samples else [{"obligation": o[0], "ok": o[1]} for o in self.obligations[:6]],
            "obligation_list": [{"name": o[0], "ok": o[1], "detail": o[2][:300]} for o in self.obligations],
            "correspondence_modes": self.modes,
            "tie_skipped": self.ties,
            "input_distribution": self.stats,
            "known_findings_reproduced": sorted(set(k["id"] for k, _ in self.known_hits)),
            "notes": self.notes,
        }
        if extra_cov:
            cov.update(extra_cov)
        ev = {
            "property_id": self.prop,
            "tier": self.tier,
            "seed": self.seed,
            "level": level,
            "coverage": cov,
            "assumptions": self.assumptions,
            "wall_s": round(wall, 2),
            "violations": len(fresh),
        }
        os.makedirs(os.path.join(OUT, "evidence"), exist_ok=True)
        with open(os.path.join(OUT, "evidence", self.prop + ".json"), "w") as f:
            json.dump(ev, f, indent=1)
        for kid in sorted(set(k["id"] for k, _ in self.known_hits)):
            k = [k for k, _ in self.known_hits if k["id"] == kid][0]
            print("KNOWN-FINDING: property=%s %s: %s" % (self.prop, kid, k["what"]))
        # listed known findings that did not reproduce are reported (informational; not an alarm)
        for k in self.known:
            if k.get("status") == "known" and k["id"] not in [h["id"] for h, _ in self.known_hits]:
                print("note: known finding %s did not reproduce in this run (%s)" % (k["id"], self.tier))
        if fresh:
            confirmed = [f for f in fresh if f.get("oracle_confirmed")]
            os.makedirs(os.path.join(OUT, "replays"), exist_ok=True)
            rp = os.path.join(OUT, "replays", "%s-%s-seed%d.json" % (self.prop, self.tier, self.seed))
            broken = sorted(set("%s:%s" % (f["kind"], f["where"]) for f in fresh))
            with open(rp, "w") as f:
                json.dump(
                    {
                        "property": self.prop,
                        "tier": self.tier,
                        "seed": self.seed,
                        "how_to_replay": "./check %s --replay %s   (re-runs the same seed/tier and re-evaluates the recorded cases on the real code)" % (self.prop, rp),
                        "broken_obligations": broken,
                        "failing_input_found": bool(confirmed),
                        "failing_inputs": confirmed[:10],
                        "other_failures": [f for f in fresh if not f.get("oracle_confirmed")][:10],
                        "total_failures": len(fresh),
                    },
                    f,
                    indent=1,
                )
            for b in broken[:8]:
                print("broken: " + b)
            first = (confirmed or fresh)[0]
            print("first failure: [%s/%s] %s :: %s" % (first["kind"], first["where"], (first.get("input") or "")[:300], first["detail"][:300]))
            tail = "" if confirmed else " no-failing-input-found"
            print("VIOLATION property=%s replay=%s%s" % (self.prop, rp, tail))
            return 1
        print("OK property=%s tier=%s obligations=%d/%d cases=%d distinct_nontrivial=%d ties=%d wall=%.1fs" % (self.prop, self.tier, n_ok, n_obl, self.evaluations, len(self.distinct), self.ties, wall))
        return 0


def load_known(prop):
    p = os.path.join(VERIF, "known_findings.json")
    if not os.path.exists(p):
        return []
    data = json.load(open(p))
    return [k for k in data.get("findings", []) if k.get("property") == prop]
