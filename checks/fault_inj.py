"""Fault-injection oracle (harness bin `fault`): a public update call is made to fail PART-WAY — an illegal temperature (beta =
NaN / negative / +inf: `gen_bool` panics at the first acceptance test that sees it), a user random number generator that panics
on its k-th draw inside the call, a user `Hamiltonian` that panics on its k-th evaluation, a `mutate_p` / `mutate_ps` /
`mutate_ops` / `mutate_subsection*` callback that panics on its k-th invocation, a tempering container in which one replica's
step (or the exchange) fails — the panic is caught (`catch_unwind`) and the caller KEEPS USING the object. An object whose
basic accessors panic afterwards is unusable (the samplers move state / manager / rng out of themselves for the duration of an
update): nothing inconsistent can be observed on it, it is counted (STAT fault.unusable) and accepted. Every object that
survives must satisfy the MODEL-FREE oracles of the property statements — world-line consistency by own propagation and
`verify` (C06), legality by the harness's own matrix-element formulas (C07), getters = scan of `get_pth` (C11), cutoff >= n,
no operator beyond it, never shrinking (C12) — right after the caught panic and after each of 20 further valid steps. Mutation
callbacks additionally inspect the container from inside (C11 "at every moment"). Model-independent like `kern` / `apicov`
(the output column is the constant `ok`): it supports the search for failing inputs that need a fault at a particular point and
is not a proof. `run(ck, mode)` is called from the check of the property whose statement supplies the oracle; `mode` is the
harness mode (`ising`, `generic`, `container`, `tempering` — see harness/src/bin/fault.rs)."""
import hashlib
import re

BIN = "fault"


def _own(ck, msg, tags):
    """A failure message names the property whose statement supplied the violated oracle ("C11 get_n 12 but 11 occupied
    slots [...]", "C06 op at p=0 ..."); a check counts a failure only if one of its messages names its own property (or one of
    `tags`) or names no property at all (a library panic in a VALID step after the fault, a refused valid argument). Failures
    that belong to another property are that property's business — they are tallied in the evidence (stat
    fault_foreign_failures) and raise no alarm here."""
    own = False
    for part in msg.split(";"):
        found = set(re.findall(r"\bC\d\d\b", part))
        if not found or (found & tags):
            own = True
    return own


def run(ck, fault_mode, tags=None):
    mode = "fault-injection"
    tags = set(tags or []) | {ck.prop}
    # the bin is (re)built here as well, so the oracle never runs a stale binary if "fault" is missing from the caller's BINS
    # (a no-op when the caller already built it)
    if not ck.cargo_build([BIN]):
        return
    cases = ck.harness(BIN, [fault_mode])
    if not cases:
        ck.oblige("correspondence %s produced cases" % mode, False, "harness produced no cases (fault %s)" % fault_mode)
        return
    fails = 0
    caught = 0
    kinds = {}
    for c in cases:
        ck.evaluations += 1
        parts = c["input"].split(" ", 3)
        kind = "fault-" + "-".join(parts[:3])
        kinds[kind] = kinds.get(kind, 0) + 1
        if c["nt"]:
            caught += 1
            ck.distinct.add(hashlib.sha1((mode + c["input"]).encode()).hexdigest())
        if c["output"].strip() != "ok" or c["oracle"] is None or c["oracle"].startswith("FAIL"):
            if c["oracle"] and c["oracle"].startswith("FAIL") and not _own(ck, c["oracle"][5:], tags):
                ck.stats["fault_foreign_failures"] = ck.stats.get("fault_foreign_failures", 0) + 1
                continue
            fails += 1
            ck.add_failure("oracle", mode, c, "ok", (c["oracle"] or "FAIL:no verdict")[5:], True)
    prev = ck.modes.get(mode)
    if prev:  # several fault modes wired into one check: accumulate
        for k, v in kinds.items():
            prev["kinds"][k] = prev["kinds"].get(k, 0) + v
        prev["cases"] += len(cases)
        prev["oracle_failures"] += fails
    else:
        ck.modes[mode] = {"cases": len(cases), "kinds": kinds, "disagreements": 0, "ties_skipped": 0, "oracle_failures": fails}
    ck.notes.append("fault-injection (%s): %d scenarios in which a public update call fails part-way (illegal beta, failing user "
                    "rng / Hamiltonian / mutation callback), the panic is caught (%d scenarios) and the object is used further; "
                    "objects whose accessors panic afterwards are unusable and accepted (STAT fault.unusable), every surviving "
                    "object must pass the model-free oracles of the property statements (consistency, legality, getters = scan, "
                    "cutoff) right after the fault and after each of 20 further valid steps; a model-independent oracle that "
                    "supports the search for failing inputs, not a theorem" % (fault_mode, len(cases), caught))
    ck.oblige("%s: model-free oracles hold on every object that survives a caught part-way failure, %d scenarios (fault %s)"
              % (mode, len(cases), fault_mode), fails == 0, "%d oracle failures" % fails)
