"""Law = kernel: the idealised law of the executable, script-driven model functions IS the Markov kernel of
QmcProofs/KernelInvariance*.lean (design_notes/Law.md). Headline theorems of lean/QmcProps/Law.lean, built and
audited (#print axioms + forbidden-token scan over the import closure) as extra obligations of the calling
property's check (C01 / C02 / C08 / C09).

    from checks import law_audits
    law_audits.run(ck)                       # all theorems
    law_audits.run(ck, groups=["sweep"])     # a subset (keys of GROUPS)
    law_audits.run(ck, groups=["generic"])   # the generic sampler / C04 capstone (module QmcProps.C04Capstone)
"""
MODULE = "QmcProps.Law"
NS = "Qmc.LawThm."

GROUPS = {
    # refinement: model function = run of its tree twin on every script
    "refine": ["metropolisSlot_run", "metropolisSweep_run", "heatBathSlot_run", "heatBathSweep_run",
               "freeRefresh_run", "clusterUpdate_run", "isingTimestep_run", "isingTimestep_cfg",
               "flip_run", "pick_run"],
    # idealisation step: weight of a flip / pick node vs. the count of accepted 64-bit words
    "ideal": ["flip_law", "flip_weight_counting", "flip_weight_frequency", "fair_coin_exact",
              "pick_weight_counting", "law_of_bind",
              # heat-bath node hbPick: the 2^-52 grid of gen_range(0.0..t) (QmcProofs/LawRandF.lean)
              "hbPick_accept_counting", "hbPick_accept_frequency", "hbPick_pick_counting",
              "hbPick_pick_frequency_interior"],
    # law = kernel, Metropolis slot and sweep, invariance of the law of the executable sweep
    "sweep": ["metropolisSlot_law_eq_kernel", "metropolisSweep_law_eq_kernel",
              "metropolisSweep_law_eq_kernel_legalSpace", "metropolisSweep_law_invariant",
              "metropolisSweep_law_invariant_sum", "metropolisSweep_law_invariant_on",
              "metropolisSweep_law_rowSum"],
    # heat-bath slot and sweep (valid table; hbPick weights = idealised continuous-uniform values)
    "heatbath": ["heatBathSlot_law_eq_kernel", "heatBathSweep_law_eq_kernel", "heatBathSweep_law_invariant",
                 "heatBathSweep_law_rowSum"],
    # on the support of the SSE measure (Good = Consistent /\ Legal): true SSE measure configWeight * 1_Good
    "good": ["good_is_diagLegal", "metropolisSweep_law_eq_kernel_good", "metropolisSweep_law_invariant_cut",
             "heatBathSweep_law_invariant_cut"],
    # free-spin refresh
    "refresh": ["freeRefresh_law_eq_kernel"],
    # cluster update and the whole step; PARTIAL in the named hypothesis TravOK on the traversal `traverse`
    "step": ["cluster_coins_law", "clusterUpdate_law_eq_kernel_partial", "clusterKernel_eq_components_partial",
             "step_law_eq_kernels_partial",
             "isingStep_law_invariant_partial", "isingStep_law_invariant_partial_hb", "htrav_of_enum",
             # hypothesis-free: TravOK proved for every well-formed skeleton (Qmc.Law.travOK, QmcProofs/LawTravOK.lean)
             "clusterUpdate_law_eq_kernel", "step_law_eq_kernels", "isingStep_law_invariant",
             "isingStep_law_invariant_hb",
             # hperm discharged: the traversal is complete and sound, the update's family = Kernel.componentFlips
             "clusterKernel_eq_components", "step_law_eq_kernels_components", "isingStep_law_eq_timestepK",
             # heat-bath twins
             "step_law_eq_kernels_components_hb", "isingStep_law_eq_timestepK_hb"],
    # non-vacuity facts used by the examples
    "example": ["Example.exB_legal", "Example.exB_mem_legal", "Example.H_wf", "Example.exB_travOK",
                "Example.spec3_trav2"],
}

THEOREMS = [NS + t for g in GROUPS.values() for t in g]

# group "generic" (property C04): the generic sampler Qmc::timestep with do_loop_updates = false - refinement, law =
# kernels, invariance, capstone. Lives in its own module (QmcProps/C04Capstone.lean, namespace Qmc.C04; helpers
# QmcProofs/LawGeneric.lean, namespace Qmc.Law); audited only when asked for: law_audits.run(ck, groups=["generic"]).
GENERIC_MODULE = "QmcProps.C04Capstone"
GENERIC = ["Qmc.C04." + t for t in [
    "generic_capstone", "generic_capstone_hb", "genericSampler_capstone", "genericTimestep_run",
    "genericTimestep_cfg", "Example.exG_flags", "Example.exG_varsOK", "Example.exG_nonneg", "Example.exG_varsPos",
    "Example.exOff_flags"]] + ["Qmc.Law." + t for t in [
    "genericTimestepWith_refines", "genericTimestep_refines", "genericTimestepT_cfg",
    "lawK_genericStepCfgT", "lawK_genericStepCfgT_hb", "genericStep_law_invariant", "genericStep_law_invariant_hb",
    "genericSampler_law_invariant", "genericSampler_law_invariant_hb"]]


def run(ck, groups=None):
    """build QmcProps.Law and audit the listed theorems under the obligation prefix '<prop>law'"""
    generic = groups is not None and "generic" in groups
    law_groups = None if groups is None else [g for g in groups if g != "generic"]
    names = THEOREMS if law_groups is None else [NS + t for g in law_groups for t in GROUPS[g]]
    save = ck.prop
    try:
        if names and ck.lake_build([MODULE]):
            ck.prop = save + "law"
            ck.audit(MODULE, names)
        if generic and ck.lake_build([GENERIC_MODULE]):
            ck.prop = save + "lawgen"
            ck.audit(GENERIC_MODULE, GENERIC)
    finally:
        ck.prop = save
