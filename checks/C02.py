"""C02 — Heat-bath diagonal update yields the same equilibrium as the default update (partial: see design_notes/C02.md)."""
from checks import big_scale
from checks import extra_c02limit
from checks import kern, law_audits
from checks import pure_fns
from checks import api_cov
from checks import scale_inv
LEAN_TARGETS = ["QmcProps.C02", "drv_c02", "drv_c17"]
BINS = ["c02", "kern", "c17"]

THEOREMS = [
    "heatbath_ratio_real_table",
    "heatbath_ratio_any_table",
    "heatbath_ratio_eq_metropolis",
    "heatbath_detailed_balance",
    "real_table_valid",
    "real_table_total_pos",
    "table_valid_generic",
    "table_valid_generic_step",
    "table_used_generic",
    "table_valid_ising",
    "table_valid_after_swap",
    "table_valid_ising_pair",
    "table_valid_generic_pair",
]

RULE = ("tables: random sequences of make_*interaction (1-4 variables; 3-/4-variable diagonal terms via make_diagonal_interaction with the maximum at every sub-state index) / set_do_heatbath / diagonal_update on Qmc and of set_enable_heatbath / "
        "single_diagonal_step / timestep on QmcIsingGraph (2-4 spins, J of both signs and unequal magnitude, h in {0, 1/4, -1/2, 1}, RVB on for half), "
        "the stored table read from the serde snapshot after every operation; isingham: the sampler's own matrix elements on all patterns; "
        "pairs: two Ising samplers in a TemperingContainer (same edges and signs, different |J|, Gamma, |h|, heat-bath toggled on either) and two generic samplers with equal interaction lists: "
        "set_enable_heatbath / steps / swap_manager_and_state in both call directions / tempering_step with a scripted container RNG (accepted swaps) interleaved, each sampler's table compared after every call with the table of its OWN Hamiltonian; "
        "generic samplers: the reference Hamiltonian is what was REGISTERED (matrices handed to make_interaction / make_diagonal_interaction; index = outputs++inputs, first variable most significant), and Interaction::at must return the registered entry on every pattern; 3- and 4-variable terms with variables in random order: maximum at a controlled sub-state, or pairwise distinct diagonal entries (i+1)/8 in random order with zeros (not reversal symmetric), via the diagonal constructor or as full 64-/256-entry matrices; sampler bisection prefers many-body bonds (non-palindromic sub-states counted); "
        "sweeps: (1/8 of the Ising samplers carry the operator string of such a partner after an odd number of swaps) exact trajectory of single_diagonal_step / diagonal_update on warmed-up samplers, heat-bath on (3/4) and off, replayed by the model; "
        "(a third of the Ising strings are re-installed through FastOps::new_from_ops from their sparse (p, op) list before the step; get_n() must equal the scanned count after install and after every sweep); "
        "Ising samplers include frustrated antiferromagnets (triangle / square with diagonals) with RVB updates; explicit single_rvb_sweep / single_cluster_step calls precede the examined step; after every call every stored op must satisfy is_diagonal() == (inputs == outputs); a third of the examined Ising steps are drains (beta = 1e-12) after which no operator with inputs == outputs may remain; "
        "energy: heat-bath (5/6) runs through timesteps / timesteps_sample / timesteps_measure / timesteps_sample_iter / timesteps_measure_with_self with sampling_freq None/1/2/3/5, returned energy vs -(sum n over SAMPLED steps/#sampled)/beta + offset of a manual timestep/get_n loop on a clone with the same RNG words (1e-12), plus the C17 measuring-loop modes; "
        "prob: threshold bisection of attempt / bond / rejection words of a random empty slot inside a public diagonal step (prefix scripted so that "
        "earlier removals change n) and of the removal word in the next sweep; oracle on measured numbers: p_insert/p_remove = beta*w/(L-n). "
        "Non-trivial = every case (each has at least one operation / visited slot); distinct = distinct input line.")


def main(ck):
    pure_fns.run(ck)   # source->Lean translation of pure functions, re-proved equal to the hand model
    if ck.lake_build(LEAN_TARGETS):
        ck.audit("QmcProps.C02", ["Qmc.C02." + t for t in THEOREMS])
    if ck.cargo_build(BINS):
        ck.correspond("table-invariant", "drv_c02", ck.harness("c02", ["tables"]))
        ck.correspond("table-invariant-under-swaps", "drv_c02", ck.harness("c02", ["pairs"]))
        ck.correspond("sampler-sweeps", "drv_c02", ck.harness("c02", ["sweeps"]))
        ck.correspond("sampler-probabilities", "drv_c02", ck.harness("c02", ["prob"]))
        # the reported energy (part of the statement): heat-bath runs through every measuring API vs a manual step/get_n loop,
        # plus the measuring-loop modes of C17 (cadence and true average over the SAMPLED steps)
        ck.correspond("reported-energy-heatbath", "drv_c02", ck.harness("c02", ["energy"]))
        ck.correspond("energy-measuring-loop", "drv_c17", ck.harness("c17", ["measure"]))
        ck.correspond("energy-measuring-loop-ising", "drv_c17", ck.harness("c17", ["ising"]))
        ck.correspond("energy-measuring-loop-generic", "drv_c17", ck.harness("c17", ["generic"]))
        kern.run(ck, "heatbath")   # exact one-step kernels of the real code on tiny systems: pi K = pi
    ck.assumptions.append("partial: ergodicity/convergence of the chain and the SSE representation theorem (weight -> thermal state) are mathematics outside the model; "
                          "Lean carries the per-slot ratio / detailed balance for every weight table and the table-validity invariant")
    law_audits.run(ck, groups=['refine', 'ideal', 'heatbath', 'good'])   # idealised law of the executable model = the Markov kernel of the invariance theorems
    api_cov.run(ck, "c08")   # otherwise unexercised public API, model-free oracles of this property
    scale_inv.run(ck, "c02", tags=["C09", "C01", "C04"])   # heat-bath-on scenarios: ANY call whose scaled twin diverges (sweep, cluster step, time step) breaks "heat-bath on still converges" (model-free twin oracle)
    extra_c02limit.run(ck)   # capstone + limit L -> infinity for the time step WITH the heat-bath sweep
    big_scale.run(ck, "longstring.schedule", tags=["C12", "C06"])   # large-scale regime (>65536 bonds/ops/slots, release semantics): model-free oracles of the property statements
    return ck.finish(RULE)
