"""C09 — the cluster update is weight-preserving and reversible."""
from checks import big_scale
from checks import pure_fns, law_audits, full_step
from checks import extra_audits
from checks import api_cov
from checks import scale_inv
LEAN_TARGETS = ["QmcProofs.RefinementClusterExact", "QmcProps.C09", "drv_c09", "drv_step"]
BINS = ["c09", "fullstep"]

THEOREMS = [
    "isClusterMove_sound",
    "isClusterMove_complete",
    "clusterMove_skeleton",
    "clusterMove_positions",
    "clusterMove_count",
    "clusterMove_bond_count",
    "clusterMove_numClusters",
    "clusterMove_nonedge_all_or_none",
    "clusterMove_weight0_never_flipped",
    "clusterMove_weight",
    "clusterMove_weight_ising",
    "clusterMove_symm",
    "clusterMove_consistent",
    "clusterMove_link",
    "clusterMove_boundary_state",
    "clusterMove_idle",
    "clusterMove_refl",
    "clusterMove_tags",
    "clusterFlips_spec",
    "clusterFlips_half",
    "clusterFlips_weight0",
    # step A: the decomposition (components of the leg graph are exactly the atoms of the update)
    "compLab_is_component_min",
    "compLab_eq_iff_connected",
    "clusterMove_edge_closed",
    "clusterMove_union_of_components",
    "flipConfig_clusterMove",
    "flipComponent_clusterMove",
    "components_are_atoms",
    "numClusters_eq_components",
    "legGraph_nlegs_hasEdge",
    "flipComponent_involutive",
    "flipComponent_comm",
    "flipComponent_skeleton",
    "flipComponent_weight",
    "flipComponentT_clusterMove",
    "flipComponentT_involutive",
    "flipComponentT_comm",
    "clusterMove_shapeOk",
    # step B: the exact executable model lands in the relation
    "clusterUpdate_is_clusterMove",
]

GATE_THEOREMS = ["generic_cluster_gate"]
SYM_THEOREMS = ["sym_full_iff", "sym_diag_iff", "isConstant_iff"]

TRAV_THEOREMS = ["Qmc.expandLoop_ok", "Qmc.travLoop_ok", "Qmc.mkNav_navSpec", "Qmc.navClose_final",
                 "Qmc.legGraph_edges_nav", "Qmc.Law.navGraphOK", "Qmc.Law.travOK_of_navGraphOK", "Qmc.Law.travOK",
                 "Qmc.Law.cfgSpace_travOK", "Qmc.Law.isingSpec_varsPos",
                 "Qmc.link_mem_legGraph", "Qmc.star_mem_legGraph", "Qmc.Law.nconn_conn", "Qmc.Law.traverse_complete",
                 "Qmc.Law.freeReps_perm_roots", "Qmc.Law.modelFlips_perm_componentFlips", "Qmc.Law.cfgSpace_hperm",
                 "Qmc.Law.ising_edgeNotFrozen"]

RULE = ("synthetic valid strings (1..6 spins quick / 1..9 thorough; per world line 0 / exactly 1 / many constant ops, idle "
        "spins, multi-edges, constant two-spin ops, three-spin ops, single-site symmetric and field ops, random rotation in "
        "imaginary time so ops wrap the boundary) installed with FastOps::new_from_ops, for a third of them also after 1..3 "
        "multi-variable ops (preferably first/last on a world line) were replaced in place through mutate_ops by the same op on "
        "the reversed variable list, plus equilibrium strings from real Ising runs (h = 0 and h != 0; 2/5 of the graphs with "
        "reversed duplicate edges of opposite sign, warmed up with RVB sweeps) and generic runs; each is flipped by the real flip_each_cluster(_ising_symmetry)_rng / "
        "single_cluster_step / Qmc::cluster_update under random, all-accept, mixed, all-reject scripts (kind move) and under "
        "single-accept scripts, one per cluster, threshold probed at 2^63-1 / 2^63 / 0 (kind single). Every move run is also "
        "compared with the exact model clusterUpdate (kind exact: output state, output string incl. tags, returned count and "
        "draw verdict must be identical; the traversal's own boundary labels must name the proved components). Non-trivial = "
        "at least one operator (move) / at least two clusters (single) / at least two clusters and a changed configuration "
        "(exact); distinct = distinct (before, after, draws). Kind gate: generic Qmc samplers with asymmetric single-site field terms "
        "(with / without a zero matrix element, all four constructors), symmetric two-site diagonal terms and constant single-site "
        "terms, asymmetric two-site full matrices and two-/three-site diagonal tables whose single asymmetric pair lies in each "
        "quarter of the index range in turn (all entries positive where ops live), registered with the asymmetric ones first / "
        "in the middle / last / at random; the harness judges symmetry over ALL entries: should_do_cluster_update() and "
        "cluster_update() must follow the gate (refuse iff any term is asymmetric), then diagonal/loop/cluster/free steps and "
        "timesteps: no op on a zero matrix element, every cluster step that runs goes through the full move oracle and models. "
        "Kind large: valid strings of 70000+ slots (2000 ops, last slot occupied), five cluster updates in a row on the same "
        "container (reject / accept / random / reject / accept), Rust oracle after each, equal cluster counts (oracle only).")


def main(ck):
    extra_audits.run(ck)
    pure_fns.run(ck)   # source->Lean translation of pure functions, re-proved equal to the hand model
    if ck.lake_build(LEAN_TARGETS):
        ck.audit("QmcProps.C09", ["Qmc.C09." + t for t in THEOREMS])
    # the gate of the generic sampler (Qmc::cluster_update refuses / timestep skips the cluster update as soon as ANY
    # registered term is not classified symmetric, for every order of the adds): C09's last clause ("clusters holding a
    # symmetry-breaking op are never flipped") rests on it for `Qmc`. Same statement as Qmc.C04.cluster_gate, re-derived in
    # QmcProofs/ClusterGate.lean from the flag lemmas so that this check does not depend on the rest of C04's file; what
    # "classified symmetric" / "constant" mean for the matrices is C16. Tied to qmc_runner.rs by the `gate` cases.
    save = ck.prop
    try:
        if ck.lake_build(["QmcProofs.ClusterGate"]):
            ck.prop = save + "gate"
            ck.audit("QmcProofs.ClusterGate", ["Qmc." + t for t in GATE_THEOREMS])
        if ck.lake_build(["QmcProps.C16"]):
            ck.prop = save + "sym"
            ck.audit("QmcProps.C16", ["Qmc.C16." + t for t in SYM_THEOREMS])
    finally:
        ck.prop = save
    # the transliterated traversal `traverse` of the exact model is proved correct for every well-formed skeleton
    # (never `bad` within its fuel, representatives in pairwise different components): the algorithm for any tables
    # satisfying NavSpec (ClusterTraverse), the tables of mkNav (ClusterNav), and TravOK itself (LawTravOK)
    save = ck.prop
    try:
        if ck.lake_build(["QmcProofs.LawTravPerm"]):
            ck.prop = save + "trav"
            ck.audit("QmcProofs.LawTravPerm", TRAV_THEOREMS)
    finally:
        ck.prop = save
    if ck.cargo_build(BINS):
        cases = ck.harness("c09", ["synthetic"])
        ck.correspond("synthetic-strings", "drv_c09", cases)
        cases = ck.harness("c09", ["equilibrium"])
        ck.correspond("equilibrium-strings", "drv_c09", cases)
    law_audits.run(ck, groups=['refine', 'ideal', 'step', 'example'])   # idealised law of the executable model = the Markov kernel of the invariance theorems
    full_step.run(ck, modes=["ising"])   # whole real time steps (cluster updates with and without field), dev and release semantics
    api_cov.run(ck, "c09")   # otherwise unexercised public API, model-free oracles of this property
    scale_inv.run(ck, "c09")   # power-of-two unit change: identical trajectory, energies exactly scaled (model-free twin oracle)
    big_scale.run(ck, "bigcluster")   # large-scale regime (>65536 bonds/ops/slots, release semantics): model-free oracles of the property statements
    big_scale.run(ck, "manybonds.lattice")   # large-scale regime (>65536 bonds/ops/slots, release semantics): model-free oracles of the property statements
    return ck.finish(RULE)
