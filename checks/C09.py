"""C09 — the cluster update is weight-preserving and reversible."""
from checks import pure_fns
from checks import extra_audits
LEAN_TARGETS = ["QmcProofs.RefinementClusterExact", "QmcProps.C09", "drv_c09"]
BINS = ["c09"]

THEOREMS = [
    "isClusterMove_sound",
    "isClusterMove_complete",
    "clusterMove_skeleton",
    "clusterMove_positions",
    "clusterMove_count",
    "clusterMove_bond_count",
    "clusterMove_numClusters",
    "clusterMove_nonedge_all_or_none",
    "clusterMove_weight0_never_flipped",
    "clusterMove_weight",
    "clusterMove_weight_ising",
    "clusterMove_symm",
    "clusterMove_consistent",
    "clusterMove_link",
    "clusterMove_boundary_state",
    "clusterMove_idle",
    "clusterMove_refl",
    "clusterMove_tags",
    "clusterFlips_spec",
    "clusterFlips_half",
    "clusterFlips_weight0",
    # step A: the decomposition (components of the leg graph are exactly the atoms of the update)
    "compLab_is_component_min",
    "compLab_eq_iff_connected",
    "clusterMove_edge_closed",
    "clusterMove_union_of_components",
    "flipConfig_clusterMove",
    "flipComponent_clusterMove",
    "components_are_atoms",
    "numClusters_eq_components",
    "legGraph_nlegs_hasEdge",
    "flipComponent_involutive",
    "flipComponent_comm",
    "flipComponent_skeleton",
    "flipComponent_weight",
    "flipComponentT_clusterMove",
    "flipComponentT_involutive",
    "flipComponentT_comm",
    "clusterMove_shapeOk",
    # step B: the exact executable model lands in the relation
    "clusterUpdate_is_clusterMove",
]

RULE = ("synthetic valid strings (1..6 spins quick / 1..9 thorough; per world line 0 / exactly 1 / many constant ops, idle "
        "spins, multi-edges, constant two-spin ops, three-spin ops, single-site symmetric and field ops, random rotation in "
        "imaginary time so ops wrap the boundary) installed with FastOps::new_from_ops, plus equilibrium strings from real "
        "Ising runs (h = 0 and h != 0) and generic runs; each is flipped by the real flip_each_cluster(_ising_symmetry)_rng / "
        "single_cluster_step / Qmc::cluster_update under random, all-accept, mixed, all-reject scripts (kind move) and under "
        "single-accept scripts, one per cluster, threshold probed at 2^63-1 / 2^63 / 0 (kind single). Every move run is also "
        "compared with the exact model clusterUpdate (kind exact: output state, output string incl. tags, returned count and "
        "draw verdict must be identical; the traversal's own boundary labels must name the proved components). Non-trivial = "
        "at least one operator (move) / at least two clusters (single) / at least two clusters and a changed configuration "
        "(exact); distinct = distinct (before, after, draws).")


def main(ck):
    extra_audits.run(ck)
    pure_fns.run(ck)   # source->Lean translation of pure functions, re-proved equal to the hand model
    if ck.lake_build(LEAN_TARGETS):
        ck.audit("QmcProps.C09", ["Qmc.C09." + t for t in THEOREMS])
    if ck.cargo_build(BINS):
        cases = ck.harness("c09", ["synthetic"])
        ck.correspond("synthetic-strings", "drv_c09", cases)
        cases = ck.harness("c09", ["equilibrium"])
        ck.correspond("equilibrium-strings", "drv_c09", cases)
    return ck.finish(RULE)
