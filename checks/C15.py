"""C15 — Ising-to-generic sampler conversion preserves model and trajectory."""
from checks import pure_fns
from checks import api_cov
from checks import scale_inv
LEAN_TARGETS = ["QmcProps.C15", "drv_c15"]
BINS = ["c15"]

THEOREMS = [
    "convert_never_fails",
    "convert_closed_form",
    "convert_panics_negative_gamma",
    "convert_matrix_eq",
    "convert_bond_layout",
    "convert_ham_eq",
    "convert_offset",
    "convert_offset_NGamma",
    "convert_energy_diff",
    "convert_carries",
    "convert_cluster_gate",
    "hasField_zero",
    "convert_trajectory_partial",
    "convert_trajectory_h_zero",
    "convert_step_partial",
    "convert_diag_sweeps_agree",
    "convert_trajectory_heatbath_partial",
    "convert_cluster_gate_gamma_zero",
    "convert_trajectory_option_history",
    "option_history_last_flag",
    "swap_moves_only_string_and_state",
    "convert_after_swap_trajectory",
    "flipMoves_lawful",
    "sticky_table_diverges",
    "witnessMoves_heatPad",
    "witnessMoves_lawful",
    "witness_gate_off",
    "witness_diverges",
    "trajectory_statement_false",
]

RULE = ("random TFIM graphs (2..6 spins; chain with optional ring/chord/repeated zero edge; edge orientation both ways; J of both "
        "signs and unequal magnitude k/8; Gamma in {1/8..2} and 0; h zero, positive, negative), initial cutoff 1, below nvars, "
        "nvars, above; conversion after k = 0..20 real time steps. `convert`: every interaction of the converted sampler is looked "
        "up on all in/out patterns and compared with the Lean intoQmc and (oracle) with QmcIsingGraph::hamiltonian; flags, offsets, "
        "cutoff, state, operator string compared. `lockstep`: timestep on the Ising sampler and on its conversion from the same "
        "SplitMix64 state for 20 steps; the model decides whether the observation is allowed, the oracle demands identical "
        "states/ops/n/cutoff and energy difference N*Gamma (h = 0 cases and one recorded h != 0 witness = finding F4). "
        "Further lock-step families with the same oracle: `lockstep-hb` heat-bath sweeps on BOTH samplers (set_enable_heatbath on the "
        "Ising sampler, set_do_heatbath by hand on its conversion; initial cutoff 1..3 so the cutoff has to grow after the conversion; "
        "conversion before any step and after k steps) and `lockstep-g0` transverse field exactly 0 with |J| >= 1, beta 2 or 4 "
        "(operators present). `lockstep-long`: 8 spins at beta 180 (quick) / 300, 500 (thorough), cutoff 1..3, conversion before the first step and "
        "after 30 steps, Metropolis and heat-bath on both, 40 lock-step steps with n of several thousand. Small energy units: J, Gamma, h scaled exactly by 2^-56 / 2^-60 in `convert` (matrix-level: every bond x every "
        "in/out pattern of QmcIsingGraph::hamiltonian vs Interaction::at, offsets, flags; the edge tables are flagged constant-along-diagonal "
        "by the library's absolute tolerance there) and `lockstep-small` (beta scaled by the inverse factor; stepping through "
        "single_diagonal_step + single_cluster_step vs diagonal_update + cluster_update + flip_free_bits). Non-trivial = every convert case, every lockstep case with steps; distinct = distinct case line.")


def main(ck):
    pure_fns.run(ck)   # source->Lean translation of pure functions, re-proved equal to the hand model
    if ck.lake_build(LEAN_TARGETS):
        ck.audit("QmcProps.C15", ["Qmc.C15." + t for t in THEOREMS])
    if ck.cargo_build(BINS):
        cases = ck.harness("c15", ["convert"])
        ck.correspond("convert", "drv_c15", cases, max_samples=4)
        cases = ck.harness("c15", ["lockstep"])
        ck.correspond("lockstep", "drv_c15", cases, max_samples=4)
        hz, hzs = ck.stats.get("lockstep_h_zero_runs", 0), ck.stats.get("lockstep_h_zero_same", 0)
        ck.oblige("input distribution: h = 0 lock-step runs exist (%s, %s identical)" % (hz, hzs), isinstance(hz, int) and hz > 0, "no h = 0 lock-step run")
        ck.notes.append("h != 0 lock-step runs: %s of %s identical (finding F4; judged only on the recorded witness input)" % (ck.stats.get("lockstep_h_nonzero_same"), ck.stats.get("lockstep_h_nonzero_runs")))
        ck.notes.append("heat-bath option set before conversion: %s of %s lock-step runs identical (into_qmc does not carry the option; outside the property's quantifier, recorded as a note)" % (ck.stats.get("lockstep_heatbath_option_same"), ck.stats.get("lockstep_heatbath_option_runs")))
        ck.notes.append("heat-bath on both samplers: %s of %s lock-step runs identical; Gamma = 0: %s of %s identical (both judged by the oracle)" % (ck.stats.get("lockstep_heatbath_both_same"), ck.stats.get("lockstep_heatbath_both_runs"), ck.stats.get("lockstep_gamma_zero_same"), ck.stats.get("lockstep_gamma_zero_runs")))
        ck.notes.append("option histories after the conversion: %s of %s lock-step runs identical (%s runs switch heat-bath off after heat-bath steps); swap-then-convert: %s of %s identical (both judged by the oracle)" % (ck.stats.get("lockstep_option_history_same"), ck.stats.get("lockstep_option_history_runs"), ck.stats.get("lockstep_hist_runs_switching_heatbath_off_after_heatbath_steps"), ck.stats.get("lockstep_swap_then_convert_same"), ck.stats.get("lockstep_swap_then_convert_runs")))
        ck.notes.append("small energy units (2^-56, 2^-60): %s convert cases, %s edge interactions flagged constant-along-diagonal although J != 0 (absolute tolerance, F23 class; harmless because Interaction::at indexes the table all the same - checked by the oracle); %s of %s split lock-step runs identical" % (ck.stats.get("convert_small_units"), ck.stats.get("convert_edges_flagged_constant_diag_though_J_nonzero"), ck.stats.get("lockstep_small_units_same"), ck.stats.get("lockstep_small_units_runs")))
        ck.notes.append("Gamma < 0: " + str(ck.stats.get("note_gamma_negative")))
    ck.assumptions.append("Gamma >= 0 (constructor domain of make_interaction; with Gamma < 0 the Ising sampler's own timestep panics in gen_bool)")
    ck.assumptions.append("trajectory theorem: h = 0 (|h| <= eps), RVB off, the heat-bath option set identically on both samplers (any on/off history: convert_trajectory_option_history); it is a statement about the composition of the two timesteps out of shared update routines (Moves/Lawful), tied to the real code by the lock-step runs")
    api_cov.run(ck, "c04")   # otherwise unexercised public API, model-free oracles of this property
    scale_inv.run(ck, "c15")   # power-of-two unit change: identical trajectory, energies exactly scaled (model-free twin oracle)
    return ck.finish(RULE)
