"""C12 — Expansion cutoff never shrinks and keeps headroom."""
from checks import big_scale
from checks import fault_inj
from checks import full_step
from checks import pure_fns
from checks import extra_audits
from checks import api_cov
LEAN_TARGETS = ["drv_step", "QmcProps.C12", "drv_c12"]
BINS = ["fullstep", "c12"]

THEOREMS = [
    "cutoff_mono",
    "cutoff_ge_n",
    "headroom",
    "headroom_strict",
    "cutoff_grows_iff",
    "rule_closed_form",
    "old_rule_no_headroom",
    "old_rule_stalls",
    "step_invariant",
    "sweep_shape_iff",
    "container_never_shrinks",
    "run_invariant",
    "run_cutoffs_monotone",
    "library_samplers_start_valid",
    "run_invariant_ising",
    "run_invariant_generic",
    "equalise_spec",
    "equalise_max_attained",
    "equalise_swap_safe",
    "swap_spec",
    "convert_carries_cutoff",
    "increaseCutoffTo_monotone",
    "copy_identity",
    "pair_action_invariant",
    "pair_history_invariant",
    "step_headroom_any_state",
    "step_from_fitting_state",
    "inv_fits",
    "user_cutoff_spec",
    "user_history_headroom",
    "user_history_fits",
]

RULE = ("random TFIM graphs (2..6 spins, chain/ring/chord, J of both signs, dyadic Gamma, h zero and non-zero, beta 1/2..16) "
        "started with cutoff 1, 2, 3, nvars or another tiny value, under five update mixes (plain, RVB, heat-bath, RVB+heat-bath, "
        "split single_* steps); generic samplers on ONE spin (initial cutoff 1) and on 2..5 spins with/without loop updates and "
        "heat-bath, via timestep and via its parts; tempering containers (serial and rayon) with replicas of different cutoffs. "
        "Histories on pairs of samplers (Ising<->Ising, generic<->generic) mixing time steps with the raw public "
        "swap_manager_and_state in both call directions (unequal cutoffs; the partner holding the larger cutoff freshly built / after a "
        "growing step / after a non-growing step), set_cutoff upwards, a rebuilt partner, and into_qmc() after k steps followed by more "
        "steps of the converted sampler; the oracle runs after EVERY public call per sampler object (cutoff never decreases, cutoff >= n, "
        "container length <= cutoff, swap exchanges n, conversion keeps n and the cutoff). "
        "Tempering containers of Ising replicas, of generic replicas obtained by into_qmc and of directly built generic replicas "
        "(initial cutoffs 1..3, beta ladder x2 so cold replicas grow at once) with sequences interleaving container timesteps(1), "
        "single-replica timestep and serial/rayon tempering steps (accepted and rejected swaps, steps right after a growing step counted); "
        "oracle on every replica after every call (cutoff never decreases, >= max of previous cutoffs after a tempering step, margin, "
        "container length <= cutoff and = the cutoff the sweep used). "
        "Manual cutoff API calls between the steps of the step scenarios, both samplers: Qmc::increase_cutoff_to(c) with c below / equal / "
        "above the current cutoff (kind `inccut`), set_cutoff / trait set_op_cutoff upwards only (kind `setcut`; lowering through the raw "
        "setters is the caller's own doing, outside the property); oracle right after the call: cutoff == max(previous, c), container padded "
        "and never shrunk, n unchanged and <= cutoff. "
        "Copies of a running sampler inside the step scenarios and in cold-then-hot runs (large beta, then small beta, so that n is below its "
        "all-time maximum while the cutoff must stay): clone() of both samplers, serde round trip of the sampler with its rng (both), the RNG-less "
        "SerializeQmcGraph + into_qmc(rng) form (Ising); kind `copy`, oracle: the copy reports the same cutoff, container, occupied slots and n as "
        "the original; both the copy and the original keep stepping under the step oracles. "
        "USER-SUPPLIED CUTOFFS IN THE MIDDLE OF A RUN (both samplers; Metropolis / heat-bath / RVB): between steps the cutoff is set by hand to the "
        "container's slot count, to the smallest value the string fits into (= n for a dense string) or to a value in [that, n + n/2 + 1) - through "
        "set_cutoff, the trait's set_op_cutoff, or by rebuilding the sampler around a clone of the container and the state through the manager hook "
        "of the constructor with that cutoff (kinds `usercut`, `restore`; the cutoff may be below the current one and below the slot count, every "
        "operator stays below it); then one step through timestep or through single_diagonal_step / diagonal_update under the ordinary step oracle "
        "(free slot, margin, exact rule) - it must hold after that very step whether or not the step added operators (counted: "
        "usercut_*_steps_without_margin_adding_no_operator). "
        "LONG-STRING stream: 8 spins at beta 180 (quick) / 300, 500, 700 (thorough) started from cutoff 1..3 (n up to ~4.7k / ~18k operators), Ising and "
        "generic sampler, Metropolis and heat-bath, timestep and single_diagonal_step / diagonal_update: `step` cases only, oracle incl. the exact "
        "rule new = max(old, n + n/2 + 1) (also added to the per-step oracle of the small systems). "
        "After every real step one `step` case (prev cutoff, prev container length, n -> cutoff, container length) and one `sweep` "
        "case (slot occupancy before/after) are compared with the model rule. Non-trivial = the cutoff grew or n > 0 "
        "(tempering: replicas had different cutoffs); distinct = distinct case line.")


def main(ck):
    extra_audits.run(ck)
    pure_fns.run(ck)   # source->Lean translation of pure functions, re-proved equal to the hand model
    if ck.lake_build(LEAN_TARGETS):
        ck.audit("QmcProps.C12", ["Qmc.C12." + t for t in THEOREMS])
    if ck.cargo_build(BINS):
        cases = ck.harness("c12", ["all"])
        ck.correspond("cutoff-rule", "drv_c12", cases, max_samples=6)
        grew = ck.stats.get("steps_where_cutoff_grew", 0)
        ck.oblige("input distribution: the cutoff actually grew in some steps (%s of %s)" % (grew, ck.stats.get("steps_total", 0)),
                  isinstance(grew, int) and grew > 0, "no step exercised the growth branch")
        ck.notes.append("sanity_* entries of input_distribution are a statistical illustration (energy from cutoff 1 vs a generous cutoff), not a checked claim")
    ck.assumptions.append("the clause 'hence reaches the same averages' is physics (truncation error of the SSE series for cutoff > n with margin); proved is the headroom invariant only")
    ck.assumptions.append("a user who lowers the cutoff by hand with set_cutoff below the container length leaves the domain (Inv) of the run theorems")
    full_step.run(ck)   # whole-timestep exact trajectories, Ising and generic sampler
    api_cov.run(ck, "c12")   # otherwise unexercised public API, model-free oracles of this property
    big_scale.run(ck, "longstring.schedule")   # large-scale regime (>65536 bonds/ops/slots, release semantics): model-free oracles of the property statements
    big_scale.run(ck, "longstring.ladder_cutoff")   # large-scale regime (>65536 bonds/ops/slots, release semantics): model-free oracles of the property statements
    fault_inj.run(ck, "ising")   # fault injection: a public call that panics part-way (bad beta, failing rng/Hamiltonian/callback) under catch_unwind; a surviving object must satisfy the property oracles
    fault_inj.run(ck, "generic")   # fault injection: a public call that panics part-way (bad beta, failing rng/Hamiltonian/callback) under catch_unwind; a surviving object must satisfy the property oracles
    return ck.finish(RULE)
