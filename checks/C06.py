"""C06 — Operator string stays a consistent periodic world-line configuration."""
from checks import big_scale
from checks import fault_inj
from checks import full_step
from checks import extra_audits
from checks import api_cov
from checks import scale_inv
LEAN_TARGETS = ["drv_step", "QmcProofs.Refinement", "QmcProps.C06", "drv_c06"]
BINS = ["fullstep", "c06"]

THEOREMS = [
    "diagSweepB_sound",
    "spinFlipB_sound",
    "freeB_sound",
    "rvbB_sound",
    "moveB_sound",
    "diagSweep_pres",
    "diagSweep_offdiag_untouched",
    "diagSweep_positions",
    "diagSweep_short_cutoff_breaks",
    "linkClosed_flip_consistent",
    "propagate_commutes_xor",
    "freeRefresh_pres",
    "rvbMove_consistent",
    "move_pres",
    "step_pres",
    "reachable_inv",
    "init_consistent_legal",
    "fold_length",
    "fold_visits_propagated",
    "fold_inputs_met",
    "fold_returns",
    "statesVisited_vs_fold",
]

RULE = ("random interleavings of ALL public mutating calls with a fresh dyadic beta per call: Ising samplers (2-3 replicas in a "
        "TemperingContainer; h = 0 and h != 0, RVB on/off, heat bath on/off, cutoffs 1..8, all-0/all-1/random/None initial states): timestep "
        "(decomposed, equality with the decomposition asserted on clones), single_diagonal_step, single_cluster_step, "
        "single_rvb_sweep(Some(1..3)|None), tempering_step, raw swap_manager_and_state (unequal cutoffs allowed), serde restore (with rng and via "
        "SerializeQmcGraph), into_qmc followed by a generic walk, set_cutoff growth; generic samplers (exchange-type with loop updates, "
        "Ising-symmetric + constant terms with cluster updates, mixed 3-variable/offset terms): timestep (decomposed), diagonal_update, "
        "loop_update, cluster_update, flip_free_bits, heat-bath toggle, serde restore, raw swap. One case per single call: the Lean driver decides "
        "the matching relation between before and after, Consistent after, Legal after, and recomputes the fold output; the Rust oracle "
        "propagates independently. Regression modes: raw swap with unequal cutoffs then a sweep (F16), zero-word probing of every RVB draw (F12). "
        "Also: generic samplers with symmetry-breaking single-variable field terms registered first/middle/last among symmetric and constant terms; "
        "interactions with constant diagonal but non-constant matrix ([c,c] shifts, [a,b,b,a], two-site constant-diagonal full matrices) next to "
        "symmetric and constant terms, constant flag recomputed from the matrix; constant two- and three-variable interactions next to symmetric bonds and single-site constant terms on a subset of variables; "
        "three-variable full matrices with one-/two-bit off-diagonal entries and two-variable single-bit flips under loop updates; full two-/three-variable matrices symmetric except for one (idx, ~idx) pair placed in every quarter of the index range, with the gate oracle that no plain "
        "cluster update runs while a term is asymmetric (all 4^n entries compared); direct swaps through swap_manager_and_state AND the SwapManagers trait (can_swap_graphs + swap_graphs, get/set_op_cutoff) between hot and fresh "
        "samplers with different cutoffs, followed by steps of each; serial tempering ladders mixing a zero-field replica with field replicas of one sign (>= 30 rounds of [steps; tempering_step], every "
        "replica judged with its own Hamiltonian after every call). Non-trivial = at least one operator before or after; distinct = distinct (call, Hamiltonian, before, after).")


def main(ck):
    extra_audits.run(ck)
    if ck.lake_build(LEAN_TARGETS):
        ck.audit("QmcProps.C06", ["Qmc.C06." + t for t in THEOREMS])
    if ck.cargo_build(BINS):
        cases = ck.harness("c06", ["walk"])
        ck.correspond("walk", "drv_c06", cases)
        cases = ck.harness("c06", ["swapcut"])
        ck.correspond("raw-swap-unequal-cutoffs", "drv_c06", cases)
        cases = ck.harness("c06", ["f12"])
        ck.correspond("rvb-zero-word", "drv_c06", cases)
    full_step.run(ck)   # whole-timestep exact trajectories, Ising and generic sampler
    api_cov.run(ck, "c06")   # otherwise unexercised public API, model-free oracles of this property
    scale_inv.run(ck, "c03")   # power-of-two unit change: identical trajectory, energies exactly scaled (model-free twin oracle)
    big_scale.run(ck, "longstring")   # large-scale regime (>65536 bonds/ops/slots, release semantics): model-free oracles of the property statements
    fault_inj.run(ck, "ising")   # fault injection: a public call that panics part-way (bad beta, failing rng/Hamiltonian/callback) under catch_unwind; a surviving object must satisfy the property oracles
    fault_inj.run(ck, "generic")   # fault injection: a public call that panics part-way (bad beta, failing rng/Hamiltonian/callback) under catch_unwind; a surviving object must satisfy the property oracles
    fault_inj.run(ck, "tempering")   # fault injection: a public call that panics part-way (bad beta, failing rng/Hamiltonian/callback) under catch_unwind; a surviving object must satisfy the property oracles
    return ck.finish(RULE)
