"""C04 — generic-interaction sampler: loop update, exit-leg heat bath, gate, offsets, pipeline."""
from checks import big_scale
from checks import extra_c04mass
from checks import extra_c04lawloop
from checks import kern, law_audits
from checks import pure_fns
from checks import full_step
from checks import api_cov
from checks import scale_inv
LEAN_TARGETS = ["drv_step", "QmcProofs.SamplerStep", "QmcProofs.SamplerCluster", "QmcProps.C04", "drv_c04", "QmcProps.C08", "drv_c08", "QmcProps.C02", "drv_c02"]
BINS = ["fullstep", "c04", "c04m", "c08", "c02", "kern"]

# Theorems of other properties that C04's claim rests on: the generic sampler's timestep starts with the diagonal
# update (C08: per-slot ratio, weight step, off-diagonal operators untouched, max-weight table) and, with
# set_do_heatbath(true), the heat-bath variant with its stored bond-weight table (C02). They are audited here too and
# their correspondence modes are re-run, so that a change to src/sse/qmc_traits/diagonal.rs / heatbath.rs is reported
# against C04 as well.
KERNEL_THEOREMS = [
    "Qmc.C08.metropolis_ratio", "Qmc.C08.heatbath_ratio", "Qmc.C08.weight_step", "Qmc.C08.detailed_balance_M",
    "Qmc.C08.sweep_uses_current_n", "Qmc.C08.offdiag_never_altered", "Qmc.C08.no_offdiag_created",
    "Qmc.C08.zero_weight_never_inserted_M", "Qmc.C08.zero_weight_never_inserted_HB",
    "Qmc.C08.maxw_is_max", "Qmc.C08.maxw_bounds_current", "Qmc.C08.maxw_attained",
    "Qmc.C02.heatbath_ratio_real_table", "Qmc.C02.heatbath_detailed_balance", "Qmc.C02.real_table_valid",
    "Qmc.C02.table_valid_generic", "Qmc.C02.table_used_generic",
]

THEOREMS = [
    "exit_equal_normalisers",
    "exit_local_balance",
    "exit_pick_interval",
    "exit_pick_total",
    "chosen_exit_positive",
    "exit_draw_nonneg",
    "exit_total_pos",
    "start_state_independent",
    "start_draw_map",
    "start_slot_bijection",
    "start_uniform",
    "old_start_draw_map",
    "old_start_op_uniform",
    "old_start_rule_not_leg_uniform",
    "loop_empty",
    "loopUpdate_pres_partial",
    "vertex_visit",
    "verdict_ok_closed",
    "loop_invariant_start",
    "loop_step_invariant",
    "link_flip_consistent",
    "loopUpdate_consistent",
    "loopUpdate_pres",
    "loopUpdate_no_panic",
    "loop_closed_iff_script_sufficed",
    "loop_out_of_fuel",
    "loop_head_exists",
    "loop_reverse_start_prob_eq",
    "loop_trace_is_path",
    "link_symmetric",
    "loop_path_balance",
    "loop_reverse_is_loop",
    "loop_path_balance_retraced",
    "loop_step_follows_exit",
    "loop_model_run_is_enumerated",
    "loop_reverse_run",
    "loop_kernel_reversible_truncated",
    "loop_kernel_reversible_cut_truncated",
    "loop_kernel_flow_truncated",
    "reach_flags",
    "cluster_gate",
    "offset_bookkeeping",
    "offset_variants",
    "energy_offset",
    "measured_energy_offset",
    "increase_cutoff_spec",
    "cutoff_never_decreases",
    "cutoff_after_step",
    "timestep_order",
    "timestep_invariant",
    "free_refresh_spec",
    "classification_meaning",
    "free_refresh_consistent",
    "loop_keeps_single_site_diagonal",
    "diagonal_sweep_keeps_single_site_diagonal",
    "gate_off_single_site_stays_diagonal",
]

RULE = ("generic samplers over four interaction families (two-site exchange-type rings/chains, Ising-symmetric diagonal + "
        "constant single-site, mixed 1/2/3-variable general non-negative matrices and tables, Ising-symmetric off-diagonal + "
        "constant) with dyadic entries, offset and non-offset constructors, heat bath on/off, six betas; every loop update of the "
        "real sampler is replayed by the Lean model from the recorded draws (state + operator string + draw count); exit-leg "
        "thresholds are measured by bisection of the gen_range(0.0..total) draw for every entrance leg of every positive matrix "
        "element; start mode: hand-built strings mixing arities 1/2/3 (also single-arity and single-op strings), random word pairs plus, for "
        "every slot a of the single U(sum k) draw, the first word mapped to a, the word before it and the last accepted word mapped to a, "
        "side words incl. 2^63 and 2^63-1; one startmap summary per string (real code probed for every a; oracle: chain-order bijection onto "
        "the (position, relative variable) pairs; model prints the same list); the fixed F22 witness systems (2-site exchange bond + 1-site "
        "diagonal term, and the same with a 3-variable table) always run in traj (6 runs x 40 steps) and gate; "
        "flags/offset/energy on perturbed call lists "
        "(rejected calls, broken symmetry, missing constant term); timestep vs the four public sub-calls on deep clones. "
        "Non-trivial = the loop changed the configuration or visited >= 2 vertices / a free variable exists / exactly one "
        "composition matches / at least one call accepted; distinct = distinct input line. "
        "Each replayed loop also carries the consistency of the result (c=) and the hypotheses of Qmc.C04.loopUpdate_pres on the input "
        "(hyp=: Op.WF, positive matrix elements, periodic world lines), evaluated independently on both sides. "
        "constant diagonal tables: family of Ising-symmetric diagonal bonds + one-/two-variable constant DIAGONAL tables [c,c], [c,c,c,c] "
        "(make_diagonal_interaction, and the _and_offset variant as control) with and without genuine constant full single-site terms, random "
        "and four fixed systems, in gate (extra token: is_constant() bits per bond; oracle: constant iff full matrix with all entries equal, "
        "gate iff all symmetric and a constant full single-variable matrix) and in traj (40 full steps each; clustercheck case per step: after "
        "the diagonal and the cluster update no op of weight 0, op constant flag == bond's). "
        "measure (bin c04m): timesteps / timesteps_sample / timesteps_measure with t in 0..25, frequencies None/1/2/3/4/7/0, on samplers with "
        "non-zero offsets and small <n>, against a manual timestep/get_n loop on a clone with the same RNG (oracle: energy == -(sum n/#measured)/beta + offset "
        "to 1e-12, samples/cadence, same final configuration); the driver recomputes count and energy with C17's measureLoop/measureEnergy. "
        "cutoff: scenarios of 25-40 operations on generic samplers (families 0-5, beta in {1/2,1,2,4}) mixing timesteps with "
        "increase_cutoff_to(c) for c below (0, 1, cutoff-1, below n) / equal / above the current cutoff and set_cutoff upwards, plus fixed "
        "scenarios (20 steps at beta 4, increase_cutoff_to(1), increase_cutoff_to(nvars), 10 steps; a floor driver calling before every step); "
        "oracle after every operation: get_cutoff() == max(previous, c), container length >= cutoff after a call, configuration unchanged by a "
        "call, cutoff never decreases, no panic, consistency after steps; the driver recomputes cutoff and container length per operation. "
        "nonergodic: the two fixed F20 witness samplers ([g,g,g,g] + field on one spin; the same on two spins with an exchange term), "
        "5 fixed seeds x 500 timesteps, count of off-diagonal single-site operators (seed-independent input; known finding). "
        "hbtable: generic samplers with heat bath on, 3-5 variables, a 3-variable term (diag / diag_off / full) whose unique maximum sits at "
        "each of the 8 table indices in turn plus random 1-/2-/3-/4-variable terms; oracle: stored per-bond maxima == max over all 2^k substates. "
        "The diagonal-update kernel the generic sampler composes is re-checked with the harness modes of C08 (traj, prob: random "
        "table Hamiltonians, Metropolis / heat-bath sweeps replayed, slot thresholds bisected) and C02 (tables, sweeps, prob: stored "
        "heat-bath table after random make_*interaction / set_do_heatbath / diagonal_update sequences on Qmc, exact sweeps, thresholds).")


def main(ck):
    pure_fns.run(ck)   # source->Lean translation of pure functions, re-proved equal to the hand model (scoped to this property's groups)
    if ck.lake_build(LEAN_TARGETS):
        ck.audit("QmcProps.C04", ["Qmc.C04." + t for t in THEOREMS])
        ck.prop_audit_extra = True
        save = ck.prop
        ck.prop = save + "k"          # separate .audit files
        ck.audit("QmcProps.C08", [t for t in KERNEL_THEOREMS if t.startswith("Qmc.C08")])
        ck.prop = save + "h"
        ck.audit("QmcProps.C02", [t for t in KERNEL_THEOREMS if t.startswith("Qmc.C02")])
        ck.prop = save
    if ck.cargo_build(BINS):
        for mode, name in [("traj", "loop-trajectory+free-refresh+pipeline"), ("exit", "exit-leg-distribution"),
                           ("start", "loop-start-draw-map"), ("gate", "flags-offset-energy")]:
            cases = ck.harness("c04", [mode])
            ck.correspond(name, "drv_c04", cases)
        # known finding F20 (non-ergodic interaction sets; fixed, seed-independent witness inputs)
        ck.correspond("nonergodic-witness", "drv_c04", ck.harness("c04", ["nonergodic"]))
        # the default measuring methods (timesteps / timesteps_sample / timesteps_measure) on generic samplers with offsets
        ck.correspond("measured-energy", "drv_c04", ck.harness("c04m", ["measure"]))
        # manual cutoff calls between steps (increase_cutoff_to below / at / above the current cutoff, set_cutoff upwards)
        ck.correspond("cutoff-calls", "drv_c04", ck.harness("c04", ["cutoff"]))
        # heat-bath bond-weight table of generic samplers with 3-/4-variable terms (oracle on the real code only)
        ck.correspond("heatbath-table-maxima", "drv_c04", ck.harness("c04", ["hbtable"]))
        # the diagonal-update kernels C04 composes (same harness modes as C08 / C02)
        ck.correspond("diagonal-sweep-trajectory", "drv_c08", ck.harness("c08", ["traj"]))
        ck.correspond("diagonal-slot-probabilities", "drv_c08", ck.harness("c08", ["prob"]))
        ck.correspond("heatbath-table-invariant", "drv_c02", ck.harness("c02", ["tables"]))
        ck.correspond("heatbath-sampler-sweeps", "drv_c02", ck.harness("c02", ["sweeps"]))
        ck.correspond("heatbath-sampler-probabilities", "drv_c02", ck.harness("c02", ["prob"]))
        kern.run(ck, "generic")   # exact one-step kernels of the real code on tiny systems: pi K = pi
    ck.notes.append("The kernel theorems and correspondence modes of C08 (diagonal update: slot ratio, weight step, off-diagonal "
                    "operators untouched, max-weight table) and C02 (heat-bath table validity and ratio) are re-audited / re-run here, "
                    "so that a change to the diagonal update (diagonal.rs / heatbath.rs) is reported against C04 as well.")
    full_step.run(ck, modes=["generic"], audit=True)
    law_audits.run(ck, groups=["generic"])   # law of the executable generic step (loops off) = kernels; C04 capstone
    api_cov.run(ck, "c04")   # otherwise unexercised public API, model-free oracles of this property
    scale_inv.run(ck, "c04")   # power-of-two unit change: identical trajectory, energies exactly scaled (model-free twin oracle)
    extra_c04lawloop.run(ck)   # law of the executable loop update = loopKn; generic time step WITH loops: exact SSE defect, invariant when the open mass vanishes
    extra_c04mass.run(ck)   # row mass of the fuel-truncated loop kernel: sub-stochastic, exact closed+open accounting, limit kernel reversible
    big_scale.run(ck, "longloops")   # large-scale regime (>65536 bonds/ops/slots, release semantics): model-free oracles of the property statements
    return ck.finish(RULE)
