"""C04 — generic-interaction sampler: loop update, exit-leg heat bath, gate, offsets, pipeline."""
LEAN_TARGETS = ["QmcProps.C04", "drv_c04"]
BINS = ["c04"]

THEOREMS = [
    "exit_equal_normalisers",
    "exit_local_balance",
    "exit_pick_interval",
    "exit_pick_total",
    "chosen_exit_positive",
    "exit_draw_nonneg",
    "exit_total_pos",
    "start_state_independent",
    "start_draw_map",
    "start_uniform",
    "loop_empty",
    "loopUpdate_pres_partial",
    "vertex_visit",
    "reach_flags",
    "cluster_gate",
    "offset_bookkeeping",
    "offset_variants",
    "energy_offset",
    "timestep_order",
    "timestep_invariant",
    "free_refresh_spec",
    "classification_meaning",
    "free_refresh_consistent",
]

RULE = ("generic samplers over four interaction families (two-site exchange-type rings/chains, Ising-symmetric diagonal + "
        "constant single-site, mixed 1/2/3-variable general non-negative matrices and tables, Ising-symmetric off-diagonal + "
        "constant) with dyadic entries, offset and non-offset constructors, heat bath on/off, six betas; every loop update of the "
        "real sampler is replayed by the Lean model from the recorded draws (state + operator string + draw count); exit-leg "
        "thresholds are measured by bisection of the gen_range(0.0..total) draw for every entrance leg of every positive matrix "
        "element; start draws include the boundary words of both uniform maps; flags/offset/energy on perturbed call lists "
        "(rejected calls, broken symmetry, missing constant term); timestep vs the four public sub-calls on deep clones. "
        "Non-trivial = the loop changed the configuration or visited >= 2 vertices / a free variable exists / exactly one "
        "composition matches / at least one call accepted; distinct = distinct input line.")


def main(ck):
    if ck.lake_build(LEAN_TARGETS):
        ck.audit("QmcProps.C04", ["Qmc.C04." + t for t in THEOREMS])
    if ck.cargo_build(BINS):
        for mode, name in [("traj", "loop-trajectory+free-refresh+pipeline"), ("exit", "exit-leg-distribution"),
                           ("start", "loop-start-draw-map"), ("gate", "flags-offset-energy")]:
            cases = ck.harness("c04", [mode])
            ck.correspond(name, "drv_c04", cases)
    return ck.finish(RULE)
