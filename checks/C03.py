"""C03 — the RVB cluster update preserves the thermal distribution (partial by nature)."""
from checks import big_scale
from checks import extra_c03kernel
from checks import extra_c03limit
from checks import kern
from checks import pure_fns
from checks import api_cov
from checks import scale_inv
LEAN_TARGETS = ["QmcProps.C03", "drv_c03"]
BINS = ["c03", "kern"]

THEOREMS = [
    # (iv) pure helpers
    "removeDoubles_spec",
    "findOverlappingStarts_panics_iff",
    "findOverlappingStarts_sound",
    "calculateMult_spec",
    "calculateMult_grid",
    "calculateMult_shortcut_inexact",
    "contiguousBits_spec",
    "bc_inv_empty",
    "bc_inv_insert",
    "bc_inv_remove",
    "bc_remove_panics_iff",
    "bc_inv_clear",
    "bc_total_eq_sum",
    "bc_insert_getWeight",
    "bc_getRandom_interval",
    "bc_getRandom_in_bounds",
    "bc_getRandom_zero_draw",
    "bc_getRandom_positive",
    "bc_getRandom_zero_weight_witness",
    # (i)/(ii) algebraic core on the segment abstraction
    "rawMult_eq",
    "codeMult_eq_abstraction",
    "codeMult_zero_of_abandoned",
    "rvb_detailed_balance",
    "occupied_of_legal",
    "acceptProb_zero_of_inner_zero",
    "exP_admissible",
    "inverted_ratio_breaks_balance",
    # (iii) the move relation
    "isRvbMove_sound",
    "rvbMove_consistent",
    "rvbMove_legal",
    "rvbMove_count",
    "rvbMove_state",
    "rvbMove_outside_untouched",
    "rvbMove_inside_flipped",
    "rvbMove_rebond_target",
    "ex_isRvbMove",
    # (v) the proposal: exact model of build_cluster / WeightedBoundaryManager, proposal symmetry
    "findConstants_spec",
    "pickStart_owner",
    "proposal_depends_on_skeleton_only",
    "rvbMove_preserves_skeleton",
    "proposal_symmetric",
    "proposalProb_symmetric",
    "rvb_detailed_balance_full",
    "rvb_detailed_balance_full_cfg",
    "ex_proposal",
    "ex_skeleton_only",
    "edgeOpsNotConst_needed",
]

RULE = ("rvb-updates: Ising samplers (frustrated triangle, triangle with unequal dyadic |J|, ring with one flipped bond, multi-edges, bow-tie with h != 0, random graphs, "
        "underflow-prone low-temperature triangle, weak transverse field, diluted triangle / ring / weak-field graphs with some J = 0, pairs / triangles with duplicate edges of opposite sign in the same and the opposite orientation), thermalised, one proposed RVB update per case with the recorded draws and the traced region; "
        "non-trivial = accepted and configuration changed, or rejected with p > 0; every proposal with p < EPSILON is re-run with the accept word forced to 0, every proposal with 0 < p < 1 with accept words just below / above p*2^64; "
        "every 5th step k = 2..4 updates per sweep are compared with k single updates. region: one case per proposed update of the same run (edges, operator string, full draw log) + 2 scripted J = 0 regressions; "
        "non-trivial = the proposed region has >= 2 cells. timestep-embedded-rvb: per model two samplers with identical RNG streams, 24 (quick) / 40 (thorough) steps of timestep vs diagonal; rvb sweep; cluster (kind pipe, non-trivial = an RVB proposal was accepted inside timestep) "
        "and the traced p_to_flip of the proposals up to the first accepted one per step (kind ptf, non-trivial = p != 1). helpers: remove_doubles on all sorted lists over {0,1,2} up to length 6 + random sorted/unsorted lists; "
        "find_overlapping_starts exhaustively for cutoff <= 5 (all position sets x p_start x p_end) + random cutoffs up to 40; "
        "calculate_mult on dyadic weight lists (k/8) with n in 0..5 incl. equal totals; contiguous_bits on every run length 0..64 + random words; "
        "BondContainer on random insert/remove/clear/contains/get_weight/get_random scripts over 7 keys with zero weights and draws 0, tiny, near-total, random. "
        "Non-trivial = adjacent duplicate present / >= 2 positions / n > 0 with unequal totals / run length > 0 / >= 3 container operations; distinct = distinct input line.")


def kernel_hypotheses(ck, cases):
    """The decidable hypotheses of the kernel theorems (QmcProps/C03Kernel.lean: `MoveOK` of `rvbK`,
    `ising_timestep_invariant_rvb_cut`) evaluated by the model (driver kind `khyp`) on every traced proposal of the
    real code: `RegionOK` of the traced region must hold before (and after, when applied); an applied update must satisfy
    `moveOKb` (move relation, Good, RegionOK, neither sweep abandoned) unless the reverse sweep is abandoned -- those and
    the proposals abandoned on `before` are the ones the kernel idealises (counted, STATs in the evidence)."""
    if not cases:
        return
    outs = ck.driver("drv_c03", ["khyp " + c["input"][4:] for c in cases])
    n = acc = rok_bad = ab_before = ab_after = inside = move_bad = 0
    first_bad = None
    for c, o in zip(cases, outs):
        t = o.split()
        if len(t) != 5:
            rok_bad += 1
            first_bad = first_bad or (c["input"][:400], o)
            continue
        n += 1
        rb, ra, nb, na, mv = t
        if rb != "1" or ra == "0":
            rok_bad += 1
            first_bad = first_bad or (c["input"][:400], o)
        if nb == "0":
            ab_before += 1
        if ra != "-":
            acc += 1
            if na == "0":
                ab_after += 1
            if mv == "1":
                inside += 1
            elif na == "1" and nb == "1":
                move_bad += 1
                first_bad = first_bad or (c["input"][:400], o)
    ck.stats["kernel_hyp_proposals"] = n
    ck.stats["kernel_hyp_applied_updates"] = acc
    ck.stats["kernel_hyp_applied_with_MoveOK"] = inside
    ck.stats["kernel_hyp_sweep_abandoned_before"] = ab_before      # p_to_flip = 0 by the EPSILON exit: rejected by the code and by rvbK
    ck.stats["kernel_hyp_applied_reverse_sweep_abandoned"] = ab_after  # applied by the code, transition idealised to 0 in rvbK
    ck.oblige("every traced proposal satisfies the decidable hypothesis RegionOK of ising_timestep_invariant_rvb_cut "
              "(before, and after when applied): %d proposals" % n, rok_bad == 0,
              "%d violations; first: %r" % (rok_bad, first_bad))
    ck.oblige("every applied update whose sweeps are not abandoned satisfies MoveOK (moveOKb: move relation, Good, RegionOK): "
              "%d of %d applied inside, %d with the reverse sweep abandoned" % (inside, acc, ab_after), move_bad == 0,
              "%d violations; first: %r" % (move_bad, first_bad))


def main(ck):
    pure_fns.run(ck)   # source->Lean translation of pure functions, re-proved equal to the hand model (scoped to this property's groups)
    if ck.lake_build(LEAN_TARGETS):
        ck.audit("QmcProps.C03", ["Qmc.C03." + t for t in THEOREMS])
    if ck.cargo_build(BINS):
        cases = ck.harness("c03", ["helpers"])
        ck.correspond("helpers", "drv_c03", cases)
        cases = ck.harness("c03", ["rvb"])
        ck.correspond("rvb-updates", "drv_c03", [c for c in cases if not c["input"].startswith("region ")])
        kernel_hypotheses(ck, [c for c in cases if c["input"].startswith("rvb ")])
        # the exact proposal model (QmcModel/RvbRegion.lean) replayed on the recorded draws of every proposed update
        ck.correspond("region", "drv_c03", [c for c in cases if c["input"].startswith("region ")])
        # the RVB step embedded in `timestep` (its own copies of the weight closures) vs the explicit decomposition
        ck.correspond("timestep-embedded-rvb", "drv_c03", ck.harness("c03", ["pipeline"]))
        kern.run(ck, "rvb")   # exact one-step kernels of the real code on tiny systems: pi K = pi
    api_cov.run(ck, "c03")   # otherwise unexercised public API, model-free oracles of this property
    scale_inv.run(ck, "c03")   # power-of-two unit change: identical trajectory, energies exactly scaled (model-free twin oracle)
    extra_c03limit.run(ck)   # capstone + limit L -> infinity for the time step WITH the RVB update
    extra_c03kernel.run(ck)   # extract-flip lemma; RVB kernel reversible for the SSE measure; whole Ising timestep WITH the RVB update invariant
    big_scale.run(ck, "densegraph", tags=["C18"])   # large-scale regime (>65536 bonds/ops/slots, release semantics): model-free oracles of the property statements
    return ck.finish(RULE)
