"""C16 — Interaction constructors validate and classify exactly."""
from checks import big_scale
from checks import pure_fns
from checks import extra_c16sampler
LEAN_TARGETS = ["QmcProps.C16", "drv_c16", "QmcProofs.PureFnsAgree"]
BINS = ["c16"]

THEOREMS = [
    "pow2_iff",
    "matVarSize_iff",
    "new_accepts_iff",
    "new_never_panics",
    "new_rejects_with_error",
    "newDiagonal_accepts_iff",
    "newDiagonal_never_panics",
    "newDiagonal_rejects_with_error",
    "at_full_spec",
    "at_diag_spec",
    "at_wrong_length",
    "accepted_weights_nonneg",
    "isConstant_iff",
    "isConstantDiag_iff",
    "isConstantDiag_iff_diag",
    "close_iff_eq_of_separated",
    "sym_full_iff",
    "sym_diag_iff",
    "flipSymmetric_iff_lookup",
    "newDiagonalOffset_spec",
    "newOffset_spec",
    "tolerance_witness",
    "repeated_variable_rejected",
]

RULE = ("every matrix length 0..70 x variable-list length 0..4 x 4 constructor variants with 0/1 and dyadic entries; "
        "all 0/1 matrices for 1 variable (full) and 1..3 variables (diagonal); random right-sized matrices biased to "
        "symmetric/constant/near-symmetric/negative; every accepted interaction is looked up on all in/out patterns and a "
        "subset is sampled (with and without loop updates). Non-trivial = matrix size matches a non-empty variable list; "
        "distinct = distinct (variant, matrix, vars). Tiny / subnormal / tolerance-boundary stream: entries from "
        "{+-5e-324, +-MIN_POSITIVE, +-1e-300, +-1e-17, 0.3-0.1-0.2, +-EPS/2, +-prev(EPS), +-EPS, +-next(EPS), +-2EPS, 1-EPS/2, 1-EPS, 1+EPS} "
        "placed into New / Diag / NewOff (off the diagonal) matrices whose pairwise differences are exact in binary64 "
        "(a weight in (-EPS,0) must be rejected; |a-b| = EPS is different, the float below is equal); there the "
        "classification oracle only judges well-separated matrices, the model (which carries the tolerance) judges all. "
        "Mode tolwit replays the Lean witness Qmc.C16.tolerance_witness (finding F23) with the literal oracle. "
        "Mode qmcctor (sampler-level constructors, F31; model QmcModel/QmcCtor.lean): the F31 witness input; every order of "
        "random triples of valid in-range calls (symmetric / symmetry-breaking / third of a random class); random sequences of "
        "3..10 calls of the four make_*interaction* entry points on ONE DefaultQmc with 1..5 variables, variables drawn from "
        "0..nvars+2 (about a third of the calls name a variable the sampler does not have), 1/8 repeated variables, matrices "
        "with entries k/4 of class any/symmetric/breaking/constant/constant-diagonal, offset variants shifted by k/4 (also below "
        "zero), 1/10 a negative entry, 1/14 a wrong size; option setters set_do_heatbath / set_do_loop_updates are interleaved "
        "anywhere (also before the first interaction: options first, model afterwards; a term added between two heat-bath "
        "runs; on/off/on), and once a bond is stored, time steps (12, three betas, options as they are) and clones (continue "
        "on the clone or not); every sequence ends with time steps on what was accepted; after EVERY event the private fields "
        "(#bonds, offset, has_cluster_edges, breaks_ising_symmetry, non_const_diags, bond_weights = none or the per-bond "
        "maxima, do_heatbath, do_loop_updates) are read through the serde snapshot and compared with the model; oracle (real "
        "code only, harness's own rule on the matrices it passed): Err <=> size mismatch or negative weight after the shift or "
        "repeated variable or variable >= nvars; a rejected call leaves all fields unchanged; accepted calls give exactly the "
        "expected fields; the heat-bath table is absent or the table of the CURRENT interactions (per-bond maxima and running "
        "sums recomputed by the harness) and present after heat-bath steps; a clone has identical fields; no panic in any "
        "call or when sampling. Non-trivial = a sequence with at least one accepted and one rejected call (or a planned one). "
        "Mode afterconv (F32; model-free oracle, the model side answers the constant ok): QmcIsingGraph (chain / ring of 2..5 "
        "spins, J = +-k/4, Gamma, h = 0 in 3/7 of the cases) stepped 0..40 times (heat-bath 1/3), into_qmc, 1..nvars+3 further "
        "VALID interactions of all four kinds, 40 time steps with loops on/off and heat-bath on/off; oracle: no panic, every "
        "call accepted, the operator string closes on the state (vh::propagate_check and OpContainer::verify), every operator "
        "belongs to a registered bond and acts on its variables, get_bond_count(b) = direct count for every bond, get_n() = total; "
        "plus the two F32 witness scenarios.")


def main(ck):
    pure_fns.run(ck)   # source->Lean translation of pure functions, re-proved equal to the hand model
    if ck.lake_build(LEAN_TARGETS):
        ck.audit("QmcProps.C16", ["Qmc.C16." + t for t in THEOREMS])
    if ck.cargo_build(BINS):
        cases = ck.harness("c16", ["all"])
        ck.correspond("interaction-constructors", "drv_c16", cases)
        ck.correspond("tolerance-witness", "drv_c16", ck.harness("c16", ["tolwit"]))   # known finding F23
        # sampler-level constructors on one sampler (F31): model QmcModel/QmcCtor.lean, theorems QmcProps/C16Sampler.lean
        ck.correspond("qmc-constructors", "drv_c16", ck.harness("c16", ["qmcctor"]))
        # interactions added after into_qmc, then sampled (F32): model-free oracle
        ck.correspond("after-conversion", "drv_c16", ck.harness("c16", ["afterconv"]))
    extra_c16sampler.run(ck)   # sampler-level theorems (QmcProps/C16Sampler.lean), audited
    big_scale.run(ck, "manyvars")   # large-scale regime (>65536 bonds/ops/slots, release semantics): model-free oracles of the property statements
    return ck.finish(RULE)
