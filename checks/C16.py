"""C16 — Interaction constructors validate and classify exactly."""
from checks import big_scale
from checks import pure_fns
LEAN_TARGETS = ["QmcProps.C16", "drv_c16", "QmcProofs.PureFnsAgree"]
BINS = ["c16"]

THEOREMS = [
    "pow2_iff",
    "matVarSize_iff",
    "new_accepts_iff",
    "new_never_panics",
    "new_rejects_with_error",
    "newDiagonal_accepts_iff",
    "newDiagonal_never_panics",
    "newDiagonal_rejects_with_error",
    "at_full_spec",
    "at_diag_spec",
    "at_wrong_length",
    "accepted_weights_nonneg",
    "isConstant_iff",
    "isConstantDiag_iff",
    "isConstantDiag_iff_diag",
    "close_iff_eq_of_separated",
    "sym_full_iff",
    "sym_diag_iff",
    "flipSymmetric_iff_lookup",
    "newDiagonalOffset_spec",
    "newOffset_spec",
    "tolerance_witness",
    "repeated_variable_rejected",
]

RULE = ("every matrix length 0..70 x variable-list length 0..4 x 4 constructor variants with 0/1 and dyadic entries; "
        "all 0/1 matrices for 1 variable (full) and 1..3 variables (diagonal); random right-sized matrices biased to "
        "symmetric/constant/near-symmetric/negative; every accepted interaction is looked up on all in/out patterns and a "
        "subset is sampled (with and without loop updates). Non-trivial = matrix size matches a non-empty variable list; "
        "distinct = distinct (variant, matrix, vars). Tiny / subnormal / tolerance-boundary stream: entries from "
        "{+-5e-324, +-MIN_POSITIVE, +-1e-300, +-1e-17, 0.3-0.1-0.2, +-EPS/2, +-prev(EPS), +-EPS, +-next(EPS), +-2EPS, 1-EPS/2, 1-EPS, 1+EPS} "
        "placed into New / Diag / NewOff (off the diagonal) matrices whose pairwise differences are exact in binary64 "
        "(a weight in (-EPS,0) must be rejected; |a-b| = EPS is different, the float below is equal); there the "
        "classification oracle only judges well-separated matrices, the model (which carries the tolerance) judges all. "
        "Mode tolwit replays the Lean witness Qmc.C16.tolerance_witness (finding F23) with the literal oracle.")


def main(ck):
    pure_fns.run(ck)   # source->Lean translation of pure functions, re-proved equal to the hand model
    if ck.lake_build(LEAN_TARGETS):
        ck.audit("QmcProps.C16", ["Qmc.C16." + t for t in THEOREMS])
    if ck.cargo_build(BINS):
        cases = ck.harness("c16", ["all"])
        ck.correspond("interaction-constructors", "drv_c16", cases)
        ck.correspond("tolerance-witness", "drv_c16", ck.harness("c16", ["tolwit"]))   # known finding F23
    big_scale.run(ck, "manyvars")   # large-scale regime (>65536 bonds/ops/slots, release semantics): model-free oracles of the property statements
    return ck.finish(RULE)
