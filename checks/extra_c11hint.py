"""C11, hint-based fills and read-only iterators of the FastOps container (`fill_args_at_p_with_hint`,
`get_propagated_substate_with_hint`, `try_iterate_ps/ops`, `iterate_ps/ops`): theorems of QmcProps/C11Hint.lean
(audited as extra obligations of C11) and the correspondence of their model (QmcModel/FastOpsHint.lean, answered by
`drv_c11` through `Qmc.C11H.step`) with the real code (harness bin `c11h`).

Wiring (checks/C11.py):   from checks import extra_c11hint
    in main(ck), after the C11 audit:            extra_c11hint.run(ck)
    inside `if ck.cargo_build(BINS):` (BINS += ["c11h"]):   extra_c11hint.correspond(ck)
    RULE += extra_c11hint.RULE
"""
MODULE = "QmcProps.C11Hint"
LEAN_TARGETS = [MODULE, "QmcModel.FastOpsHintDriver"]
BIN = "c11h"
NS = "Qmc.C11."

THEOREMS = [
    # fill_args_at_p_with_hint
    "hint_fill_general",
    "hint_fill_eq_scan",
    "hint_fill_hint_irrelevant",
    "hint_fill_is_subcursor",
    "hint_fill_eq_nohint_fill",
    "hint_fill_eq_model_spec",
    "hint_walk_terminates",
    # get_propagated_substate_with_hint
    "propagated_substate_code",
    "propagated_substate_eq_scan",
    "subAt_is_propagation",
    "propagated_substate_of_verify",
    "propagated_substate_hint_irrelevant",
    # read-only iterators
    "try_iterate_ps_eq_scan",
    "iterate_ps_eq_scan",
    "try_iterate_ops_eq_scan",
    "iterate_ops_eq_scan",
    "scan_ops_spec",
    # heap branch of mutate_subsection_ops under a Varlist cursor
    "sub_ops_heap_refines",
    "hint_fill_then_sub_ops",
    # args handed back through get_empty_args(SubvarAccess::Args) + fill_args_at_p
    "args_recycle_id",
    "args_recycle_id_all",
    "args_recycle_keeps_subcursor",
    "args_recycle_completes",
    "hint_fill_recycle_then_sub_ops",
    # per-bond counters that grow on demand (finding F32)
    "bump_grows_on_demand",
    "count_eq_scan_all_bonds",
    "counters_agree_with_model",
    # non-vacuity anchors
    "hC_inv",
    "hC_io",
]

RULE = (" HINT HELPERS (bin c11h, mode hint-helpers): a second PRNG stream generates histories of public mutations (single-slot mutate_p "
        "through a filled cursor, mutate_ps, mutate_ops without removal, set_cutoff growth, mutate_subsection and mutate_subsection_ops (heap "
        "branch) under a Varlist cursor built by fill_args_at_p_with_hint; nvars 1..6, cutoff <= 26 (thorough: a quarter of the histories up to 60), ops on 1..3 distinct variables) on a "
        "real FastOps; every third step the in/out bits of all ops are rewritten (same-variables fast path) into worldlines that pass "
        "verify(state). After every mutation six stateless lines are printed with the contents as get_pth sees them: 2x hintfill "
        "(get_empty_args(Varlist) + one or, 1 in 5, two fill_args_at_p_with_hint on the same args, p anywhere in 0..=cutoff, half of them on an "
        "occupied slot; hints `_` or ANY slot holding an op on the variable: before, at, after p), 2x hintsub "
        "(get_propagated_substate_with_hint with a random incoming substate), iterps and iterops (try_iterate_* with an early Err after k "
        "visits or none, then iterate_*; ranges incl. empty, beyond the cutoff and reversed). ~8% of the fill lines and ~7% of the substate "
        "lines leave the callers' contract on purpose (hint to an empty slot / to an op without the variable / beyond the array, fewer hints "
        "than variables, p beyond the array, more hints than variables): the real code's panic or silently unfilled entries must be "
        "reproduced by the model. The model rebuilds the container as canon(slots) and runs the transliterated walks; last token eq/ne/NA = "
        "result equals the naive scan. Oracle (real code only, scans of get_pth): inside the contract a single hint fill must equal the scan "
        "cursor (last op strictly before p per listed variable with its relative index; last_p = last occupied slot before p; unfilled = "
        "listed variables with ops) and must not panic; two fills must follow the overwrite rule (entry rewritten iff the variable has an op "
        "at or before the second p); the substate must equal the state pushed through all ops before p whenever the worldline conditions E/W "
        "hold at p (always on the verify-consistent containers), else the scan-level description of the code; iterate_ps = slots "
        "min(ps,L)..min(pe,L), iterate_ops = occupied slots ps..=pe in order, try_ variants = the prefix up to the early exit; reversed "
        "clamped ps-range and pstart beyond the array with an op before it must panic. Non-trivial = the container holds an op. "
        "RECYCLED ARGS: 3 of 13 history mutations prepare args at a start slot ps (0, an occupied slot, or any slot < cutoff) by one of three routes - "
        "get_empty_args(All)+fill_args_at_p, Varlist+fill_args_at_p_with_hint with all hints, the same with fewer hints than variables "
        "(unresolved entries left) - hand them back through get_empty_args(SubvarAccess::Args(args)) + fill_args_at_p(ps, args) and then "
        "mutate with them (mutate_p / mutate_subsection / mutate_subsection_ops; insert, remove, same-vars and different-vars replacement "
        "inside the listed variables); oracle: the recycled cursor = scan cursor at ps BEFORE the mutation (fully resolved args must come "
        "back unchanged), the slots afterwards = the expected ones, and after EVERY mutation of every history get_n, first/last p, successor / "
        "predecessor walks, per-variable first/last/walks (both directions) and get_count(0..8) = scan (`histbad` line on a mismatch, "
        "`histpanic` on a panic). One stateless `recycle` line per step (routes A = All+fill, H = Varlist+hint fill incl. partial hints, "
        "E = empty args; p incl. 0 and occupied slots) compares the recycled cursor with the model (get_empty_args(Args) recomputes only "
        "`unfilled`) and with the scan. "
        "BOND COUNTERS (F32): a third of the histories on containers built with counters (new_from_nvars_and_nbonds, 1..6 bonds) also store "
        "operators whose bond index is up to 4 beyond the table; after every step of a history with counters one `counts` line carries all "
        "counter events so far (+b stored / -b removed, from the slot differences); the model replays them with bumpCount (resize on demand) / "
        "dropCount and must reproduce the serde snapshot of bond_counters (length included) and get_count(0..len+2); oracle: get_count(b) = "
        "number of stored operators with bond b for every b up to two beyond the table / the largest stored bond; check_against_scan covers "
        "get_count(0..16) after every mutation.")


def run(ck):
    """build + audit the theorems as extra obligations of the calling property"""
    save = ck.prop
    try:
        if ck.lake_build(LEAN_TARGETS):
            ck.prop = save + "hint"
            ck.audit(MODULE, [NS + t for t in THEOREMS])
    finally:
        ck.prop = save


def correspond(ck, driver="drv_c11"):
    """model vs real code + oracle verdicts; needs `drv_c11` to dispatch the kinds hintfill/hintsub/iterps/iterops to
    Qmc.C11H.step (see the three lines for Drivers/C11.lean in design_notes/C11.md)"""
    if ck.cargo_build([BIN]):
        cases = ck.harness(BIN, ["all"])
        ck.correspond("hint-helpers", driver, cases)
