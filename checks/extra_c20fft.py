"""C20, FFT route (Wiener-Khinchin): `fft_autocorrelation` computes the circular autocorrelation through
forward FFT -> norm_sqr -> unnormalised inverse FFT; lean/QmcProofs/AutocorrFFT.lean models that pipeline step by
step over the reals / complex numbers and proves it equal to the hand model `Qmc.autocorr` (the direct circular sum
the other C20 theorems and the correspondence are about). The headline theorems live in lean/QmcProps/C20FFT.lean
and are built and audited (#print axioms + forbidden-token scan over the import closure; leanchecker in the
thorough tier) as extra obligations of C20.

Wiring (coordinator): in checks/C20.py `import extra_c20fft` and call `extra_c20fft.run(ck)` before `ck.finish`."""
MODULE = "QmcProps.C20FFT"
NS = "Qmc.C20."
THEOREMS = [NS + t for t in [
    "char_orthogonality",            # sum_k e^{2 pi i k m/N} = N if N | m else 0
    "wiener_khinchin",               # idft(|dft x|^2) t = N * sum_j conj(x_j) x_{(j+t) mod N}, all N >= 1, complex x
    "wiener_khinchin_real",          # real input: N * sum_j r_j r_{(j+t) mod N}
    "fft_route_length",              # one output entry per sample
    "fft_route_divisors_ne_zero",    # under the model's guard neither division of the pipeline is by zero
    "fft_route_norm_eq_zero_iff",    # the pipeline's norm vanishes exactly when the model's guard fails for the column
    "fft_route_column",              # per observable: inverse-FFT output at lag t = tmax * colAutocorr
    "fft_route_eq_direct",           # pipeline = cast of Qmc.autocorr on every input where the model is defined
    "fft_route_eq_direct_of_nonconst",
    "fft_route_lag0_eq_one",         # lag 0 of the FFT route is exactly 1
]]


def run(ck):
    save = ck.prop
    try:
        if ck.lake_build([MODULE]):
            ck.prop = "%sxfft" % save
            ck.audit(MODULE, THEOREMS)
    finally:
        ck.prop = save
