"""C02, capstone + limit L -> infinity for the heat-bath diagonal update (lean/QmcProps/C02Limit.lean):

* `ising_capstone_limit_hb`: valid Ising spec, Gamma >= 0, FieldOK, beta > 0, table total > 0: for EVERY L the `timestep`
  kernel WITH the heat-bath sweep and the table `makeBondWeights` (`timestepKHB`, Kernel.ising_timestep_invariant_cut_hb)
  leaves `pi_L = sseCutOn s.spec.ham beta (cfgSpace ... L)` invariant -- the SAME measure as without heat bath -- and along
  L -> infinity its normalised state marginal -> diag e^{-beta H}/Tr e^{-beta H}, its total mass -> e^{beta C} Tr e^{-beta H},
  the energy estimator C - <n>_L/beta -> Tr(H e^{-beta H})/Tr e^{-beta H} (C01Limit theorems; H = isingMatrix, real-cast).
* `Example.spec2_table_pos`: the table-total hypothesis holds on the 2-spin example.

Still NOT claimed: ergodicity, convergence of the chain, uniqueness of the invariant measure.
Usage from the C02 plugin: `from checks import extra_c02limit; extra_c02limit.run(ck)`."""
MODULE = "QmcProps.C02Limit"
THEOREMS = ["Qmc.C02.ising_capstone_limit_hb", "Qmc.C02.Example.spec2_table_pos"]


def run(ck):
    save = ck.prop
    try:
        if ck.lake_build([MODULE]):
            ck.prop = save + "limit"          # separate .audit file
            ck.audit(MODULE, THEOREMS)
    finally:
        ck.prop = save
