"""C14 — A sampler restored from a snapshot continues exactly as if never interrupted."""
import json
import os
import sys

from checks import common

sys.path.insert(0, os.path.join(common.VERIF, "tools"))
import extract_fields  # noqa: E402
from checks import api_cov

LEAN_TARGETS = ["QmcProps.C14", "drv_c14"]
BINS = ["c14"]

THEOREMS = [
    "restore_snapshot",
    "snapshot_defined",
    "restore_wellformed",
    "snapshot_restore",
    "serde_roundtrip_ising",
    "serde_roundtrip_serialize_graph",
    "full_cycle_ising",
    "continue_eq",
    "serde_roundtrip_qmc",
    "serde_roundtrip_opcontainer",
    "serde_roundtrip_leaves",
    "alloc_snapshot_counts",
    "alloc_serde_clean",
    "pool_run_counts_only",
    "pool_restored_behaves",
    "default_alloc_serde_clean",
    "tempering_restore_snapshot",
    "serde_roundtrip_tempering",
    "reset_caches_irrelevant",
    "reset_caches_irrelevant_strong",
    "reset_caches_irrelevant_par",
    "restored_cache_valid",
    "cache_valid_preserved",
    "cache_fill_spec",
    "cache_valid_new",
    "cache_valid_after_add",
    "cache_valid_reachable",
    "restore_continues_reachable",
    "pooled_bondcontainer_reset_clean",
]

RULE = ("field maps: regenerated from /repo/src on every run (all structs deriving Serialize, all serde attributes, the "
        "snapshot/restore conversions, the manual Clone impls); theorems re-proved against them.  Lock-step (Rust vs Rust, real "
        "code): random small Ising models (2..6/8 spins; chain, ring, star+edge, complete; J, Gamma, h, beta dyadic; initial "
        "cutoff 1..4n; the first 8 configurations enumerate RVB x heat-bath x h!=0), generic Qmc with/without loop updates, "
        "tempering containers of 2..6 replicas with equal or different Hamiltonians, both filled before the first step and GROWING "
        "(add_qmc_stepper interleaved with tempering steps: 1 or 2 replicas before the first step, every later replica added after "
        "1..3 steps, final sizes 3,4,5,6, snapshot after every op of the history incl. right after an add and right after the step "
        "following an add, then the rest of the history and >= 12 further tempering steps); one Ising configuration in three with NON-dyadic couplings (0.3, 0.7, 1.1) and RVB on, plus SmallRng runs on four small "
        "frustrated graphs with non-dyadic couplings x 3 (Gamma, beta) x 6/24 seeds with an RNG-less snapshot at every k = 0..50/60 and the "
        "two fixed regression inputs of the pooled-residue seed; after EVERY step of EVERY copy the allocator hook log is read and every "
        "instance handed back to a scratch pool must be in its reset state (hidden state outside the snapshot); Ising and generic samplers started from a PREPARED operator string (FastOps::new_from_ops through the manager hooks) holding legal "
        "but non-canonical ops — constant single-site ops written as Offdiagonal(s, s), as tests/check_rvb_crash.rs writes them — with "
        "snapshots at k = 0..3 (right after restore every op's vars, bond, inputs, outputs, is_diagonal(), is_constant() must equal the "
        "original's: they are part of the compared operator string); scale / regime cases: rings of 33, 65, 130 (thorough also 64, 100) spins with initial states having up spins at indices "
        "31, 32, 63, 64 / all up / word-boundary / random, a hub with 300 leaves and a complete graph on 40 spins with rvb on, every "
        "snapshot form (with RNG, RNG-less, and inside a tempering container), k = 0..2, a few lock-step steps incl. rvb sweeps; "
        "a snapshot in both forms at EVERY step "
        "index k = 0..K, then m further steps on original / with-RNG copy / RNG-less copy / a copy that is snapshot-restored "
        "after every step, comparing state, operator string, n, cutoff, energy bits, rvb rate bits, verify() and the full JSON "
        "snapshot after each step.  Non-trivial = at least one operator present at the snapshot point; distinct = distinct "
        "(configuration, k).")


def regenerate(ck, which):
    ok, msg, rep = extract_fields.run(repo=common.REPO, which=which)
    ck.checker_cmds.append("python3 tools/extract_fields.py   # regenerates lean/QmcModel/Generated/{Fields,Ambient}.lean from %s/src" % common.REPO)
    ck.oblige("regenerate Generated/%s from the current sources (fail closed on unknown shapes)" % "+".join(which), ok, msg)
    return ok, rep


def field_report(rep):
    """the fields that are not carried verbatim (named in the failure message when a proof breaks)"""
    rows = [r for r in rep.get("fields", []) if r["kind"] != "copied"]
    return "; ".join("%s.%s: %s" % (r["conversion"], r["field"], r["kind"]) for r in rows)


EXPECTED_NONVERBATIM = {
    # what the unchanged tree does; anything else is named first in the failure message
    ("serde(Allocator)", "instances"),
    ("numeric_serialize", "instances"),
    ("QmcIsingGraph.snapshot", "nvars"),
    ("SerializeQmcGraph.restore", "rng"),
    ("SerializeQmcGraph.restore", "vars"),
    ("TemperingContainer.snapshot", "graphs"),
    ("TemperingContainer.snapshot", "graph_ham_eq_a"),
    ("TemperingContainer.snapshot", "graph_ham_eq_b"),
    ("SerializeTemperingContainer.restore", "graphs"),
    ("SerializeTemperingContainer.restore", "rng"),
    ("SerializeTemperingContainer.restore", "graph_ham_eq_a"),
    ("SerializeTemperingContainer.restore", "graph_ham_eq_b"),
    ("TemperingContainer.new", "rng"),
    ("TemperingContainer.new", "graph_ham_eq_a"),
    ("TemperingContainer.new", "graph_ham_eq_b"),
    ("TemperingContainer.new", "graphs"),
    ("TemperingContainer.new", "total_swaps"),
    ("pool reset", "BondContainer::clear"),
}

# cache maintenance of the tempering container as the unchanged tree has it (regenerated statements); a different
# text is named first in the failure message
EXPECTED_STATEMENTS = {
    "TemperingContainer.add_qmc_stepper": "statements(let tc := { tc with graph_ham_eq_a := none } | let tc := { tc with graph_ham_eq_b := none } | let tc := { tc with graphs := tc.graphs ++ [(q, beta)] })",
    "TemperingContainer.make_ham_equalities": "statements(let tc := { tc with graph_ham_eq_a := some (eqsFirst tc.graphs) } | let tc := { tc with graph_ham_eq_b := some (eqsSecond tc.graphs) })",
    "TemperingContainer.tempering_step": "guard((tc.graph_ham_eq_a.isNone || tc.graph_ham_eq_b.isNone))",
}


def unexpected(r):
    if r["conversion"] in EXPECTED_STATEMENTS:
        return r["kind"] != EXPECTED_STATEMENTS[r["conversion"]]
    return r["kind"] != "copied" and (r["conversion"], r["field"]) not in EXPECTED_NONVERBATIM


def main(ck):
    ck.extra_trusted += [
        "tools/extract_fields.py (regex-level translation of struct field lists, serde attributes and conversion bodies into Lean; whitelist of shapes, fails closed)",
        "serde derive semantics (a derived Serialize/Deserialize pair reproduces every non-skipped field, skip => Default) and serde_json with float_roundtrip: trusted, observed by the lock-step run",
        "std / derive Clone of components is a structural copy",
    ]
    ok, rep = regenerate(ck, ("fields",))
    if ok:
        built = ck.lake_build(LEAN_TARGETS)
        if built:
            ck.audit("QmcProps.C14", ["Qmc.C14." + t for t in THEOREMS])
        else:
            # name the offending field(s): everything that is not a verbatim copy and not expected
            rows = [r for r in rep.get("fields", []) if unexpected(r)]
            detail = "; ".join("%s.%s: %s [%s]" % (r["conversion"], r["field"], r["kind"], r["source"]) for r in rows) or "no unexpected field mapping; see the lake output"
            short = ", ".join("%s.%s %s" % (r["conversion"], r["field"], r["kind"].split("(")[0]) for r in rows[:4]) or "see lake output"
            print("field maps: proofs against the regenerated Generated/Fields.lean fail; offending field(s): " + detail)
            ck.oblige("field maps carry every field (restore_snapshot / serde_roundtrip re-proved against the regenerated file) -- offending: " + short, False,
                      "UNEXPECTED FIELD MAPPINGS: " + detail + " || all non-verbatim: " + field_report(rep))
            for t in THEOREMS:
                ck.oblige("theorem Qmc.C14." + t, False, "QmcProps.C14 does not build against the regenerated Generated/Fields.lean")
        ck.notes.append("non-verbatim field mappings in the current sources: " + field_report(rep))
    else:
        print("field maps: " + rep.get("messages", ["?"])[0])
        for t in THEOREMS:
            ck.oblige("theorem Qmc.C14." + t, False, "Generated/Fields.lean could not be regenerated (unknown source shape)")
    if ck.cargo_build(BINS):
        cases = ck.harness("c14", ["all"])
        ck.correspond("snapshot-restore-lockstep", "drv_c14", cases, max_samples=6)
    api_cov.run(ck, "c13")   # otherwise unexercised public API, model-free oracles of this property
    api_cov.run(ck, "c07")   # otherwise unexercised public API, model-free oracles of this property
    return ck.finish(RULE)
