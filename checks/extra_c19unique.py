"""C19, uniqueness of the stationary law (lean/QmcProps/C19Unique.lean, lean/QmcProofs/MarkovUnique.lean,
lean/QmcProofs/ClassicalErgodic.lean): the {spin+edge} time-step kernel of the classical sampler is irreducible
exactly when `ns` is odd or (`ns >= 1`, `beta > 0`, energy not constant); then every invariant vector of mass one is
exp(-beta E)/Z; otherwise (even `ns`, no rejection) the step conserves the parity of the number of up spins and a
second invariant probability vector exists; with `ns >= 1`, `beta > 0`, energy not constant the kernel is primitive and the
law converges geometrically in l1 (boltzmann_convergence). Built and audited (#print axioms + forbidden-token scan over the import
closure) as extra obligations of C19. Usage from a plugin: `import extra_c19unique; extra_c19unique.run(ck)`."""
MODULE = "QmcProps.C19Unique"
MARKOV = "Qmc.Markov."
ERG = "Qmc.ClassicalErgodic."
C19 = "Qmc.C19."
THEOREMS = (
    [MARKOV + t for t in [
        "reach_iff", "irreducible_iff_reach", "invariant_pos", "invariant_proportional", "invariant_unique",
        "invariant_unique_prob", "invariant_unique_normalised", "irreducible_of_dominates", "irreducible_mix_left",
        "irreducible_iter_of_loop", "irreducible_iter_of_odd", "not_irreducible_of_conserved", "invariant_restrict",
        "exists_other_invariant_prob", "primitive_of_loop", "primitive_iter", "primitive_mix_left",
        "l1_push_le", "l1_push_le_of_minor", "geometric_convergence"]]
    + [ERG + t for t in [
        "spinKernel_irreducible", "spinIter_irreducible_of_reject", "spinIter_irreducible_of_odd",
        "stepKernel_irreducible", "stepKernel_conserves_parity", "stepKernel_not_irreducible",
        "stepKernel_irreducible_iff", "mixing_iff", "spinKernel_primitive", "stepKernel_primitive",
        "spinIter_odd_return_zero"]]
    + [C19 + t for t in [
        "step_irreducible_iff", "spin_updates_irreducible", "boltzmann_unique_stationary",
        "stationary_proportional_boltzmann", "boltzmann_unique_stationary_spin_only",
        "step_conserves_parity_beta_zero", "parity_obstruction", "boltzmann_unique_iff",
        "parity_obstruction_witness", "uE_energy_not_const", "boltzmann_convergence",
        "spin_only_periodic_beta_zero"]]
)


def run(ck):
    save = ck.prop
    try:
        if ck.lake_build([MODULE]):
            ck.prop = "%sxuniq" % save
            ck.audit(MODULE, THEOREMS)
    finally:
        ck.prop = save
