"""C04, the executable directed-loop model as a probability tree (lean/QmcProps/C04LawLoop.lean over
lean/QmcProofs/LawLoop.lean and LawLoopStep.lean): the exit / start draws, run-level agreement
`loopUpdate w c rs = (loopUpdateT w fuel c).run rs` on every script, `law (loopUpdateT w n c) = loopKn w n c`, mass
`1 - openMass`, the generic time step with loop updates (`Sampler.genericTimestep = (genericTimestepLT ..).run`), its law
as a composition of kernels and the exact statement about the SSE cut measure (invariance up to the open-walk defect,
full invariance when the open-walk mass vanishes / tends to 0). Built and audited (#print axioms + source scan) as
extra obligations of C04; call `extra_c04lawloop.run(ck)` from the C04 plugin."""
MODULE = "QmcProps.C04LawLoop"
NS = "Qmc.C04."
THEOREMS = [NS + t for t in [
    "loop_exit_draw_weight",
    "loop_exit_draw_run",
    "loopIter_run",
    "loopIter_fuel_irrelevant",
    "loopUpdate_run",
    "stepLoopUpdate_run",
    "loopWalk_law",
    "loopUpdate_law_eq_kernel",
    "loopUpdate_law_mass",
    "genericTimestep_loop_run",
    "genericTimestep_loop_cfg",
    "genericLoopStep_law_eq_kernels",
    "genericLoopStep_law_eq_kernels_hb",
    "genericLoopStep_sse_defect",
    "genericLoopStep_sse_defect_hb",
    "genericLoopStep_invariant_of_closed",
    "genericLoopStep_invariant_limit",
    "genericSampler_loop_sse_defect",
    "Example.exGeneric_loop_flags",
]] + ["Qmc.Law." + t for t in [
    "genericTimestep_loop_refines",
    "genericDiagonalUpdate_script_le",
    "comp_defect",
    "loop_zero_off_good",
]]


def run(ck):
    save = ck.prop
    try:
        if ck.lake_build([MODULE]):
            ck.prop = save + "lawloop"       # separate .audit file
            ck.audit(MODULE, THEOREMS)
    finally:
        ck.prop = save
