//! Correspondence of QmcModel/Rand.lean with rand 0.8.8 (the crate the library links).
use rand::Rng;
use vh::*;

fn main() {
    let a = args();
    let mut g = SplitMix64::new(a.seed ^ 0x7A4D);
    let n = if a.thorough { 20000 } else { 3000 };
    for i in 0..n {
        // words: mix of random, small, large and boundary values
        let mut words: Vec<u64> = (0..6)
            .map(|_| match g.below(6) {
                0 => g.below(16),
                1 => u64::MAX - g.below(16),
                2 => 1u64 << g.below(64),
                _ => g.next(),
            })
            .collect();
        match i % 7 {
            0 => {
                let den = 1u64 << g.below(12);
                let p = g.below(den + 1) as f64 / den as f64;
                // put the word near the threshold sometimes
                if g.coin() && p < 1.0 {
                    let thr = (p * 18446744073709551616.0) as u64;
                    words[0] = thr.wrapping_add(g.below(5)).wrapping_sub(2);
                }
                let mut r = RecRng::scripted(words.clone(), 1);
                let b = r.gen_bool(p);
                emit(p > 0.0 && p < 1.0, &format!("bool {} {}", rat(p), list(&r.log)), &format!("{} {}", b as u8, r.log.len()), None);
            }
            1 | 2 => {
                let nmax = match g.below(4) {
                    0 => g.below(8) + 1,
                    1 => g.below(1000) + 1,
                    2 => (1u64 << g.below(40)) + g.below(3),
                    _ => g.next() >> g.below(60),
                }
                .max(1) as usize;
                let mut r = RecRng::scripted(words.clone(), g.next());
                let v = r.gen_range(0..nmax);
                emit(nmax > 1, &format!("range {} {}", nmax, list(&r.log)), &format!("{} {}", v, r.log.len()), None);
            }
            3 => {
                let nmax = (g.below(255) + 1) as u8;
                let mut r = RecRng::scripted(words.clone(), g.next());
                let v = r.gen_range(0..nmax);
                emit(nmax > 1, &format!("u8 {} {}", nmax, list(&r.log)), &format!("{} {}", v, r.log.len()), None);
            }
            4 => {
                let mut r = RecRng::scripted(words.clone(), 1);
                let v: f64 = r.gen();
                let b: bool = r.gen();
                emit(true, &format!("f64bool {}", list(&r.log)), &format!("{} {} {}", rat(v), b as u8, r.log.len()), None);
            }
            5 => {
                let t = (g.below(64) + 1) as f64 / 8.0;
                let mut r = RecRng::scripted(words.clone(), 1);
                let v: f64 = r.gen_range(0.0..t);
                // exact when t is a small dyadic: (v>>12)*2^-52*t rounds only if more than 53 bits; compare approximately
                emit(true, &format!("rangef {} {}", rat(t), list(&r.log)), &format!("~{:e} {}", v, r.log.len()), None);
            }
            _ => {
                if g.coin() {
                    words[0] |= (1u64 << g.below(64)) - 1;
                }
                let mut r = RecRng::scripted(words.clone(), 1);
                let v = qmc::sse::contiguous_bits(&mut r);
                emit(v > 0, &format!("tones {}", list(&r.log)), &format!("{} {}", v, r.log.len()), None);
            }
        }
    }
}
