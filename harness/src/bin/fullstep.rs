//! Whole-`timestep` trajectories of the real samplers (RVB off), replayed by `drv_step`
//! (lean/QmcModel/Sampler.lean: `isingTimestep`, `genericTimestep`).
//!
//!  mode ising   : `DefaultQmcIsingGraph<RecRng>`; graphs on 2..6 spins (multi-edges, isolated spins, J of both
//!                 signs k/8, Γ = k/8 > 0, h = 0 / > 0 / < 0), heat-bath on/off, initial cutoff 1..3·nvars, random
//!                 initial state; k = 1..30 consecutive `timestep(β)` with a fresh dyadic β per step.
//!  mode generic : `DefaultQmc<RecRng>`; 1..5 variables, 1..5 interactions drawn from: constant single-site,
//!                 symmetric diagonal two-site, full two-site exchange / pair-flip, symmetry-breaking diagonal field,
//!                 symmetric diagonal three-site, non-constant symmetric single-site, constant two-site; loop updates
//!                 on/off, heat-bath on/off, initial cutoff via `set_cutoff(1..3·nvars)`; sometimes one more
//!                 interaction is added in the middle of the run (heat-bath table must be rebuilt).
//!
//! One CASE per step:  input  = full sampler state before (model parameters, heat-bath flag, β, cutoff, state,
//! operator string) + the RNG words that step consumed;  output = operator string (incl. tags), state, n, cutoff
//! after (+ `should_do_cluster_update` for generic) + `ok` (the model's draw verdict).
//! Oracle (model-independent): propagate_check, every stored matrix element > 0 (evaluated from the matrices
//! handed to the constructors, not through the library), cutoff' = max(cutoff, n + n/2 + 1), n < cutoff',
//! container length <= cutoff', returned slice = state.
use qmc::sse::*;
use vh::*;

type G = DefaultQmcIsingGraph<RecRng>;
type Q = DefaultQmc<RecRng>;

fn absf(x: f64) -> f64 {
    if x < 0.0 {
        -x
    } else {
        x
    }
}

fn fresh_beta(g: &mut SplitMix64) -> f64 {
    // k/8 in [1/8, 3], biased to small values so that operators also get removed
    match g.below(4) {
        0 => g.range(1, 8) as f64 / 8.0,
        1 => g.range(1, 4) as f64 / 16.0,
        _ => g.range(1, 24) as f64 / 8.0,
    }
}

// ------------------------------------------------------------------------------------------------
// Ising
// ------------------------------------------------------------------------------------------------
struct IModel {
    edges: Vec<((usize, usize), f64)>,
    gamma: f64,
    h: f64,
    nvars: usize,
}

fn gen_ising(g: &mut SplitMix64, hmode: u64) -> IModel {
    let nvars = g.range(2, 6) as usize;
    let ne = g.range(1, 7) as usize;
    let mut edges = vec![];
    let jj = |g: &mut SplitMix64| {
        let j = g.dyadic(-2, 2, 8);
        if j == 0.0 {
            -0.75
        } else {
            j
        }
    };
    // the largest variable must appear in an edge (the constructor derives nvars from the edges)
    let j0 = jj(g);
    edges.push(((nvars - 1, g.below((nvars - 1) as u64) as usize), j0));
    for _ in 1..ne {
        let a = g.below(nvars as u64) as usize;
        let mut b = g.below(nvars as u64) as usize;
        if a == b {
            b = (a + 1) % nvars;
        }
        // repeat an existing edge now and then (multi-edge, possibly with the other sign)
        let (a, b) = if g.chance(1, 4) { edges[g.below(edges.len() as u64) as usize].0 } else { (a, b) };
        let j = jj(g);
        edges.push(((a, b), j));
    }
    let gamma = g.range(1, 16) as f64 / 8.0;
    let h = match hmode {
        0 => 0.0,
        1 => g.range(1, 12) as f64 / 8.0,
        _ => -(g.range(1, 12) as f64) / 8.0,
    };
    IModel { edges, gamma, h, nvars }
}

fn show_ising(m: &IModel) -> String {
    let es: Vec<String> = m.edges.iter().map(|((a, b), j)| format!("{},{},{}", a, b, rat(*j))).collect();
    format!("I!{}!{}!{}!{}", m.nvars, es.join(";"), rat(m.gamma), rat(m.h))
}

/// the documented operator, evaluated directly (not through `QmcIsingGraph::hamiltonian`)
fn ising_elem(m: &IModel, bond: usize, ins: &[bool], outs: &[bool]) -> f64 {
    let ne = m.edges.len();
    if bond < ne {
        let j = m.edges[bond].1;
        if ins != outs || ins.len() != 2 {
            0.0
        } else if ins[0] == ins[1] {
            absf(j) - j
        } else {
            absf(j) + j
        }
    } else if bond < ne + m.nvars {
        m.gamma
    } else if bond < ne + 2 * m.nvars && m.h != 0.0 {
        if ins != outs || ins.len() != 1 {
            0.0
        } else if ins[0] {
            absf(m.h) + m.h
        } else {
            absf(m.h) - m.h
        }
    } else {
        -1.0
    }
}

fn ising_vars_ok(m: &IModel, bond: usize, vars: &[usize]) -> bool {
    let ne = m.edges.len();
    if bond < ne {
        vars == [m.edges[bond].0 .0, m.edges[bond].0 .1]
    } else if bond < ne + m.nvars {
        vars == [bond - ne]
    } else {
        vars == [bond - ne - m.nvars]
    }
}

fn oracle_common<M: OpContainer>(
    man: &M,
    state: &[bool],
    n: usize,
    cutoff_before: usize,
    cutoff_after: usize,
    elem: &dyn Fn(usize, &[usize], &[bool], &[bool]) -> Result<f64, String>,
) -> Result<(), String> {
    match propagate_check(man, state) {
        Ok(s) if s == state => {}
        Ok(_) => return Err("world lines do not close at the time boundary".into()),
        Err(p) => return Err(format!("op at p={} does not meet its inputs", p)),
    }
    let mut count = 0;
    for p in 0..man.get_cutoff() {
        if let Some(op) = man.get_pth(p) {
            count += 1;
            let w = elem(op.get_bond(), op.get_vars(), op.get_inputs(), op.get_outputs())?;
            if !(w > 0.0) {
                return Err(format!("op at p={} has matrix element {}", p, w));
            }
            if op.is_diagonal() && op.get_inputs() != op.get_outputs() {
                return Err(format!("op at p={} tagged diagonal with ins != outs", p));
            }
        }
    }
    if count != n {
        return Err(format!("get_n() = {} but {} operators stored", n, count));
    }
    let want = std::cmp::max(cutoff_before, n + n / 2 + 1);
    if cutoff_after != want {
        return Err(format!("cutoff {} -> {} but max(cutoff, n + n/2 + 1) = {} (n = {})", cutoff_before, cutoff_after, want, n));
    }
    if n >= cutoff_after {
        return Err(format!("n = {} >= cutoff = {}", n, cutoff_after));
    }
    if man.get_cutoff() > cutoff_after {
        return Err(format!("container length {} > cutoff {}", man.get_cutoff(), cutoff_after));
    }
    Ok(())
}

fn mode_ising(g: &mut SplitMix64, runs: usize) {
    for r in 0..runs {
        let hmode = (r % 3) as u64;
        let m = gen_ising(g, hmode);
        let hb = g.coin();
        let cutoff0 = g.range(1, 3 * m.nvars as i64) as usize;
        let state0: Vec<bool> = (0..m.nvars).map(|_| g.coin()).collect();
        let steps = g.range(1, 30) as usize;
        let mut q = G::new_with_rng(m.edges.clone(), m.gamma, m.h, cutoff0, RecRng::new(g.next()), Some(state0));
        q.set_enable_heatbath(hb);
        stat(&format!("ising_h{}_hb{}", ["0", "pos", "neg"][hmode as usize], hb as u8), 1);
        let spec = show_ising(&m);
        for _ in 0..steps {
            let beta = fresh_beta(g);
            let cut_b = q.get_cutoff();
            let input_head = format!(
                "ising {} {} {} {} {} {}",
                spec,
                hb as u8,
                rat(beta),
                cut_b,
                bits(&q.clone_state()),
                show_slots(q.get_manager_ref())
            );
            let _ = reclog_take();
            let res = catch(|| q.timestep(beta).to_vec());
            let log = reclog_take();
            let input = format!("{} {}", input_head, list(&log));
            match res {
                Err(e) => {
                    emit(true, &input, "PANIC", Some(Err(format!("timestep panicked: {}", e))));
                    break;
                }
                Ok(returned) => {
                    let n = QmcStepper::get_n(&q);
                    let cut_a = q.get_cutoff();
                    let st = q.clone_state();
                    let out = format!("{} {} {} {} ok", show_slots(q.get_manager_ref()), bits(&st), n, cut_a);
                    let mut oracle = oracle_common(q.get_manager_ref(), &st, n, cut_b, cut_a, &|b, vars, i, o| {
                        if !ising_vars_ok(&m, b, vars) {
                            return Err(format!("bond {} stored with variables {:?}", b, vars));
                        }
                        Ok(ising_elem(&m, b, i, o))
                    });
                    if oracle.is_ok() && returned != st {
                        oracle = Err("timestep returned a slice different from the state".into());
                    }
                    stat("ising_ops_after", n);
                    emit(!log.is_empty(), &input, &out, Some(oracle));
                }
            }
        }
    }
}

// ------------------------------------------------------------------------------------------------
// generic
// ------------------------------------------------------------------------------------------------
#[derive(Clone)]
struct GB {
    full: bool,
    vars: Vec<usize>,
    mat: Vec<f64>,
}

fn pick_vars(g: &mut SplitMix64, nv: usize, k: usize) -> Vec<usize> {
    let mut pool: Vec<usize> = (0..nv).collect();
    let mut out = vec![];
    for _ in 0..k {
        let i = g.below(pool.len() as u64) as usize;
        out.push(pool.remove(i));
    }
    out
}

fn w8(g: &mut SplitMix64, lo: i64) -> f64 {
    g.range(lo, 12) as f64 / 8.0
}

/// kinds: 0 constant 1-site (cluster edge), 1 symmetric diagonal 2-site, 2 full 2-site exchange (+ pair flip),
/// 3 symmetry-breaking diagonal field, 4 symmetric diagonal 3-site, 5 non-constant symmetric 1-site,
/// 6 constant 2-site (constant but no cluster edge)
fn gen_bond(g: &mut SplitMix64, nv: usize, kind: u64) -> GB {
    let kind = if nv < 3 && kind == 4 { 1 } else { kind };
    let kind = if nv < 2 && (kind == 1 || kind == 2 || kind == 6) { 0 } else { kind };
    match kind {
        0 => {
            let gm = w8(g, 1);
            GB { full: true, vars: pick_vars(g, nv, 1), mat: vec![gm; 4] }
        }
        1 => {
            let (a, b) = (w8(g, 0), w8(g, 0));
            let (a, b) = if a == 0.0 && b == 0.0 { (0.0, 1.0) } else { (a, b) };
            GB { full: false, vars: pick_vars(g, nv, 2), mat: vec![a, b, b, a] }
        }
        2 => {
            let (a, b, e) = (w8(g, 0), w8(g, 1), w8(g, 1));
            let pf = if g.chance(1, 3) { w8(g, 1) } else { 0.0 };
            // index = outs ++ ins (msb first): 0,5,10,15 diagonal; 6,9 exchange 01<->10; 3,12 pair flip 00<->11
            let mut mat = vec![0.0; 16];
            mat[0] = a;
            mat[15] = a;
            mat[5] = b;
            mat[10] = b;
            mat[6] = e;
            mat[9] = e;
            mat[3] = pf;
            mat[12] = pf;
            GB { full: true, vars: pick_vars(g, nv, 2), mat }
        }
        3 => {
            let a = w8(g, 0);
            let mut b = w8(g, 0);
            if a == b {
                b = a + 0.5;
            }
            GB { full: false, vars: pick_vars(g, nv, 1), mat: vec![a, b] }
        }
        4 => {
            let x: Vec<f64> = (0..4).map(|_| w8(g, 0)).collect();
            let mut mat = vec![x[0], x[1], x[2], x[3], x[3], x[2], x[1], x[0]];
            if mat.iter().all(|v| *v == 0.0) {
                mat[0] = 0.5;
                mat[7] = 0.5;
            }
            GB { full: false, vars: pick_vars(g, nv, 3), mat }
        }
        5 => {
            let a = w8(g, 0);
            let mut x = w8(g, 1);
            if x == a {
                x = a + 0.25;
            }
            GB { full: true, vars: pick_vars(g, nv, 1), mat: vec![a, x, x, a] }
        }
        _ => {
            let gm = w8(g, 1);
            GB { full: true, vars: pick_vars(g, nv, 2), mat: vec![gm; 16] }
        }
    }
}

fn add_bond(q: &mut Q, b: &GB) {
    if b.full {
        q.make_interaction(b.mat.clone(), b.vars.clone()).unwrap();
    } else {
        q.make_diagonal_interaction(b.mat.clone(), b.vars.clone()).unwrap();
    }
}

fn show_bonds(bs: &[GB]) -> String {
    if bs.is_empty() {
        return "-".into();
    }
    bs.iter()
        .map(|b| format!("{}:{}:{}", if b.full { "F" } else { "D" }, list(&b.vars), rats(&b.mat)))
        .collect::<Vec<_>>()
        .join("!")
}

fn gb_elem(b: &GB, ins: &[bool], outs: &[bool]) -> f64 {
    if b.full {
        b.mat[bit_index(outs.iter().chain(ins.iter()))]
    } else if ins == outs {
        b.mat[bit_index(ins.iter())]
    } else {
        0.0
    }
}

fn mode_generic(g: &mut SplitMix64, runs: usize) {
    for r in 0..runs {
        let nv = g.range(1, 5) as usize;
        // scenario classes: 0 exchange + loops, 1 symmetric + constant terms (cluster updates), 2 mixed arities,
        // 3 loops and clusters together, 4 anything
        let class = r % 5;
        let nb = g.range(1, 5) as usize;
        let mut bonds: Vec<GB> = vec![];
        for i in 0..nb {
            let kind = match class {
                0 => *g.pick(&[2u64, 2, 1, 5]),
                1 => *g.pick(&[0u64, 0, 1, 1, 4]),
                2 => *g.pick(&[0u64, 1, 3, 4, 5, 6]),
                3 => *g.pick(&[0u64, 2, 2, 1, 5]),
                _ => g.below(7),
            };
            // make the defining term of the class present
            let kind = match (class, i) {
                (0, 0) => 2,
                (1, 0) => 0,
                (3, 0) => 0,
                (3, 1) => 2,
                _ => kind,
            };
            bonds.push(gen_bond(g, nv, kind));
        }
        let loops = match class {
            0 | 3 => true,
            1 => g.chance(1, 4),
            _ => g.coin(),
        };
        let hb = g.coin();
        let state0: Vec<bool> = (0..nv).map(|_| g.coin()).collect();
        let mut q = Q::new_with_state(nv, RecRng::new(g.next()), state0, loops);
        for b in &bonds {
            add_bond(&mut q, b);
        }
        q.set_do_heatbath(hb);
        let cutoff0 = g.range(1, 3 * nv as i64) as usize;
        q.set_cutoff(cutoff0);
        let steps = g.range(1, 30) as usize;
        let add_at = if g.chance(1, 3) { Some(g.below(steps as u64) as usize) } else { None };
        stat(&format!("generic_class{}_loop{}_hb{}_cluster{}", class, loops as u8, hb as u8, q.should_do_cluster_update() as u8), 1);
        for s in 0..steps {
            if add_at == Some(s) && s > 0 {
                // one more term in the middle of the run: `add_interaction` must drop the heat-bath table
                let kind = *g.pick(&[0u64, 1, 5, 6]);
                let extra = gen_bond(g, nv, kind);
                add_bond(&mut q, &extra);
                bonds.push(extra);
                stat("generic_bond_added_midrun", 1);
            }
            let beta = fresh_beta(g);
            let cut_b = q.get_cutoff();
            let input_head = format!(
                "generic {} {} {} {} {} {} {}",
                show_bonds(&bonds),
                loops as u8,
                hb as u8,
                rat(beta),
                cut_b,
                bits(&q.clone_state()),
                show_slots(q.get_manager_ref())
            );
            let _ = reclog_take();
            let res = catch(|| q.timestep(beta).to_vec());
            let log = reclog_take();
            let input = format!("{} {}", input_head, list(&log));
            match res {
                Err(e) => {
                    emit(true, &input, "PANIC", Some(Err(format!("timestep panicked: {}", e))));
                    break;
                }
                Ok(returned) => {
                    let n = QmcStepper::get_n(&q);
                    let cut_a = q.get_cutoff();
                    let st = q.clone_state();
                    let out = format!(
                        "{} {} {} {} {} ok",
                        show_slots(q.get_manager_ref()),
                        bits(&st),
                        n,
                        cut_a,
                        q.should_do_cluster_update() as u8
                    );
                    let mut oracle = oracle_common(q.get_manager_ref(), &st, n, cut_b, cut_a, &|b, vars, i, o| {
                        if b >= bonds.len() || vars != &bonds[b].vars[..] {
                            return Err(format!("bond {} stored with variables {:?}", b, vars));
                        }
                        Ok(gb_elem(&bonds[b], i, o))
                    });
                    if oracle.is_ok() && returned != st {
                        oracle = Err("timestep returned a slice different from the state".into());
                    }
                    stat("generic_ops_after", n);
                    emit(!log.is_empty(), &input, &out, Some(oracle));
                }
            }
        }
    }
}

fn main() {
    quiet_panics();
    let a = args();
    let mut g = SplitMix64::new(a.seed.wrapping_mul(0x9E37_79B9_7F4A_7C15) ^ 0x5157_EB57);
    let runs = if a.thorough { 360 } else { 75 };
    match a.mode.as_str() {
        "ising" => mode_ising(&mut g, runs),
        "generic" => {
            let mut g2 = SplitMix64::new(g.next() ^ 0x6E6E);
            mode_generic(&mut g2, runs)
        }
        _ => {
            eprintln!("modes: ising | generic");
            std::process::exit(2);
        }
    }
}
