//! C04 — generic-interaction sampler: loop update trajectories, exit-leg distribution (bisection),
//! start draw map, flags / offset bookkeeping, free-spin refresh, pipeline order of `timestep`.
//! Everything printed as "output" is observed on the real code; the oracle column evaluates the
//! property directly on the real code (no model involved).

use qmc::sse::fast_ops::{FastOp, FastOps};
use qmc::sse::*;
use rand::{Error, RngCore};
use std::cell::RefCell;
use std::collections::HashMap;
use std::rc::Rc;
use vh::*;

// ------------------------------------------------------------------------------------------
// RNGs
// ------------------------------------------------------------------------------------------

/// Handle RNG: the sampler owns a clone of the `Rc`, the harness keeps another to read the log.
/// `Clone` is a *deep* copy (independent RNG with the same future); the handle of the most recent
/// deep copy is left in `LAST_CLONE`.
#[derive(Debug)]
struct HRng(Rc<RefCell<RecRng>>);
thread_local! {
    static LAST_CLONE: RefCell<Option<Rc<RefCell<RecRng>>>> = RefCell::new(None);
}
impl Clone for HRng {
    fn clone(&self) -> Self {
        let r = Rc::new(RefCell::new(self.0.borrow().clone()));
        LAST_CLONE.with(|l| *l.borrow_mut() = Some(r.clone()));
        HRng(r)
    }
}
impl RngCore for HRng {
    fn next_u32(&mut self) -> u32 {
        self.0.borrow_mut().next_u32()
    }
    fn next_u64(&mut self) -> u64 {
        self.0.borrow_mut().next_u64()
    }
    fn fill_bytes(&mut self, dest: &mut [u8]) {
        self.0.borrow_mut().fill_bytes(dest)
    }
    fn try_fill_bytes(&mut self, dest: &mut [u8]) -> Result<(), Error> {
        self.0.borrow_mut().try_fill_bytes(dest)
    }
}

/// Fixed script; panics ("script exhausted") when it runs out. One word per call,
/// `next_u32` = high half (same convention as `RecRng`).
struct LimitRng {
    words: Vec<u64>,
    pos: usize,
}
impl LimitRng {
    fn word(&mut self) -> u64 {
        if self.pos >= self.words.len() {
            panic!("script exhausted");
        }
        self.pos += 1;
        self.words[self.pos - 1]
    }
}
impl RngCore for LimitRng {
    fn next_u32(&mut self) -> u32 {
        (self.word() >> 32) as u32
    }
    fn next_u64(&mut self) -> u64 {
        self.word()
    }
    fn fill_bytes(&mut self, _dest: &mut [u8]) {
        panic!("fill_bytes unused")
    }
    fn try_fill_bytes(&mut self, _dest: &mut [u8]) -> Result<(), Error> {
        panic!("fill_bytes unused")
    }
}

type Q = DefaultQmc<HRng>;
type QS = DefaultQmc<SplitMix64>;
type Handle = Rc<RefCell<RecRng>>;

// ------------------------------------------------------------------------------------------
// interaction sets
// ------------------------------------------------------------------------------------------

#[derive(Clone, Debug)]
struct Call {
    variant: u8, // 0 new, 1 new_off, 2 diag, 3 diag_off
    mat: Vec<f64>,
    vars: Vec<usize>,
}
fn vname(v: u8) -> &'static str {
    ["new", "new_off", "diag", "diag_off"][v as usize]
}
fn show_calls(calls: &[Call]) -> String {
    if calls.is_empty() {
        return "-".into();
    }
    calls
        .iter()
        .map(|c| format!("{}:{}:{}", vname(c.variant), rats(&c.mat), list(&c.vars)))
        .collect::<Vec<_>>()
        .join("!")
}
fn apply_call<R: rand::Rng>(q: &mut DefaultQmc<R>, c: &Call) -> Result<(), String> {
    match c.variant {
        0 => q.make_interaction(c.mat.clone(), c.vars.clone()),
        1 => q.make_interaction_and_offset(c.mat.clone(), c.vars.clone()),
        2 => q.make_diagonal_interaction(c.mat.clone(), c.vars.clone()),
        _ => q.make_diagonal_interaction_and_offset(c.mat.clone(), c.vars.clone()),
    }
}

/// two-site exchange-type matrix: diagonal (a00, b, b, a11), exchange c (01<->10), pair flip p (00<->11)
fn exchange(a00: f64, a11: f64, b: f64, c: f64, p: f64) -> Vec<f64> {
    let mut m = vec![0.0; 16];
    m[0b0000] = a00;
    m[0b1111] = a11;
    m[0b0101] = b;
    m[0b1010] = b;
    m[0b0110] = c;
    m[0b1001] = c;
    m[0b0011] = p;
    m[0b1100] = p;
    m
}

fn distinct_vars(g: &mut SplitMix64, nvars: usize, k: usize) -> Vec<usize> {
    let mut pool: Vec<usize> = (0..nvars).collect();
    let mut out = vec![];
    for _ in 0..k {
        let i = g.below(pool.len() as u64) as usize;
        out.push(pool.remove(i));
    }
    out
}

/// eighths in [lo/8, hi/8]
fn e8(g: &mut SplitMix64, lo: i64, hi: i64) -> f64 {
    g.range(lo, hi) as f64 / 8.0
}

fn gen_system(g: &mut SplitMix64, fam: u64) -> (usize, Vec<Call>) {
    let mut calls = vec![];
    match fam {
        // two-site exchange-type terms on a chain / ring (loop updates)
        0 => {
            let nvars = g.range(2, 5) as usize;
            let ring = nvars > 2 && g.coin();
            let nb = if ring { nvars } else { nvars - 1 };
            for i in 0..nb {
                let (a, b, c) = (e8(g, 0, 8), e8(g, 0, 8), e8(g, 1, 8));
                let p = if g.chance(1, 4) { e8(g, 1, 4) } else { 0.0 };
                let a11 = if g.chance(1, 4) { e8(g, 0, 8) } else { a };
                if g.coin() {
                    calls.push(Call { variant: 0, mat: exchange(a, a11, b, c, p), vars: vec![i, (i + 1) % nvars] });
                } else {
                    // given with a (possibly negative) diagonal shift that the offset variant removes
                    let sh = e8(g, -16, 8);
                    calls.push(Call { variant: 1, mat: exchange(a + sh, a11 + sh, b + sh, c, p), vars: vec![i, (i + 1) % nvars] });
                }
            }
            (nvars, calls)
        }
        // Ising-symmetric diagonal terms + constant single-site terms (cluster updates)
        1 => {
            let nvars = g.range(2, 5) as usize;
            let ring = nvars > 2 && g.coin();
            let nb = if ring { nvars } else { nvars - 1 };
            for i in 0..nb {
                let (a, b) = (e8(g, 0, 12), e8(g, 0, 12));
                let sh = e8(g, -8, 8);
                if g.coin() {
                    calls.push(Call { variant: 2, mat: vec![a, b, b, a], vars: vec![i, (i + 1) % nvars] });
                } else {
                    calls.push(Call { variant: 3, mat: vec![a + sh, b + sh, b + sh, a + sh], vars: vec![i, (i + 1) % nvars] });
                }
            }
            for v in 0..nvars {
                if v == 0 || g.chance(3, 4) {
                    let gm = e8(g, 1, 8);
                    calls.push(Call { variant: 0, mat: vec![gm; 4], vars: vec![v] });
                }
            }
            if g.chance(1, 4) {
                // a three-site Ising-symmetric diagonal term
                if nvars >= 3 {
                    let t: Vec<f64> = (0..4).map(|_| e8(g, 0, 8)).collect();
                    let mat = vec![t[0], t[1], t[2], t[3], t[3], t[2], t[1], t[0]];
                    calls.push(Call { variant: 2, mat, vars: distinct_vars(g, nvars, 3) });
                }
            }
            (nvars, calls)
        }
        // mixed arities: 1-, 2-, 3-variable terms together, general non-negative entries
        2 => {
            let nvars = g.range(3, 5) as usize;
            let nterms = g.range(2, 5);
            for t in 0..nterms {
                let k = if t == 0 { 3 } else { g.range(1, 3) as usize };
                let vars = distinct_vars(g, nvars, k);
                if g.chance(1, 3) {
                    // diagonal table
                    let len = 1usize << k;
                    let sh = e8(g, -8, 0);
                    let off = g.coin();
                    let mat: Vec<f64> = (0..len).map(|_| e8(g, 0, 8) + if off { sh } else { 0.0 }).collect();
                    calls.push(Call { variant: if off { 3 } else { 2 }, mat, vars });
                } else {
                    let len = 1usize << (2 * k);
                    let tn = 1usize << k;
                    let dens = if k == 3 { 3 } else { 2 };
                    let mut mat: Vec<f64> = (0..len).map(|_| if g.chance(1, dens) { e8(g, 1, 8) } else { 0.0 }).collect();
                    for r in 0..tn {
                        if g.chance(2, 3) {
                            mat[r * tn + r] = e8(g, 1, 8);
                        }
                    }
                    let off = g.coin();
                    if off {
                        let sh = e8(g, -8, 4);
                        for r in 0..tn {
                            mat[r * tn + r] += sh;
                        }
                    }
                    calls.push(Call { variant: if off { 1 } else { 0 }, mat, vars });
                }
            }
            (nvars, calls)
        }
        // F22 witness (fixed, no random choices): full two-site matrix on [0,1] (diagonal 1/4,3/4,3/4,1/4,
        // exchange 1/2) + one-site diagonal table [1/2,1/8] on variable 1 — arities 2 and 1 mixed; with the
        // start op drawn uniformly (instead of the start leg) loop_update was not reversible here at beta = 1.
        // Family 5 = the same on 3 spins with a 3-variable diagonal table (arities 1, 2, 3).
        4 | 5 => {
            calls.push(Call { variant: 0, mat: exchange(0.25, 0.25, 0.75, 0.5, 0.0), vars: vec![0, 1] });
            calls.push(Call { variant: 2, mat: vec![0.5, 0.125], vars: vec![1] });
            if fam == 5 {
                calls.push(Call { variant: 2, mat: vec![0.125, 0.5, 0.25, 0.75, 0.375, 0.25, 0.625, 0.125], vars: vec![2, 0, 1] });
            }
            (if fam == 5 { 3 } else { 2 }, calls)
        }
        // constant DIAGONAL tables (pure energy shifts) in Ising-symmetric diagonal models: [c,c] on one variable and
        // [c,c,c,c] on two, c != 0, through `diag` (stored as given) or, as control, `diag_off` (stored as zeros, never
        // inserted). Such a table is neither a constant operator nor a cluster edge. Half of the systems also have
        // genuine constant FULL single-site terms [g,g,g,g] (cluster gate open), the other half none (gate closed).
        6 => {
            let nvars = g.range(2, 4) as usize;
            let ring = nvars > 2 && g.coin();
            let nb = if ring { nvars } else { nvars - 1 };
            for i in 0..nb {
                let (a, b) = (e8(g, 0, 12), e8(g, 0, 12));
                calls.push(Call { variant: 2, mat: vec![a, b, b, a], vars: vec![i, (i + 1) % nvars] });
            }
            if g.coin() {
                let all = g.coin();
                for v in 0..nvars {
                    if v == 0 || all || g.coin() {
                        let gm = e8(g, 1, 8);
                        calls.push(Call { variant: 0, mat: vec![gm; 4], vars: vec![v] });
                    }
                }
            }
            // the constant tables, anywhere in the call order
            let first = g.below(nvars as u64) as usize;
            for v in 0..nvars {
                if v == first || g.chance(1, 3) {
                    let c = e8(g, 1, 12);
                    let variant = if g.chance(3, 4) { 2 } else { 3 };
                    let at = g.below(calls.len() as u64 + 1) as usize;
                    calls.insert(at, Call { variant, mat: vec![c, c], vars: vec![v] });
                }
            }
            if g.coin() {
                let c = e8(g, 1, 12);
                let variant = if g.chance(3, 4) { 2 } else { 3 };
                let at = g.below(calls.len() as u64 + 1) as usize;
                calls.insert(at, Call { variant, mat: vec![c; 4], vars: distinct_vars(g, nvars, 2) });
            }
            (nvars, calls)
        }
        // fixed systems of family 6 (no random choices), always run:
        //  7: [c,c] on a spin that also has a genuine [g,g,g,g] term (gate open)
        //  8: [c,c] is the only single-site term (gate closed)
        //  9: three spins, [c,c] on a spin without a full term + a two-variable constant table (gate open)
        // 10: control, the constant tables through `diag_off` (stored as zeros)
        7..=10 => {
            let field = |v: usize| Call { variant: 0, mat: vec![0.375; 4], vars: vec![v] };
            calls.push(Call { variant: 2, mat: vec![1.0, 0.25, 0.25, 1.0], vars: vec![0, 1] });
            match fam {
                7 => {
                    calls.extend([field(0), field(1)]);
                    calls.push(Call { variant: 2, mat: vec![1.5, 1.5], vars: vec![1] });
                }
                8 => calls.push(Call { variant: 2, mat: vec![1.5, 1.5], vars: vec![0] }),
                9 => {
                    calls.push(Call { variant: 2, mat: vec![0.5, 1.0, 1.0, 0.5], vars: vec![1, 2] });
                    calls.push(Call { variant: 0, mat: vec![0.5; 4], vars: vec![0] });
                    calls.push(Call { variant: 2, mat: vec![1.0, 1.0], vars: vec![2] });
                    calls.push(Call { variant: 2, mat: vec![0.625; 4], vars: vec![0, 2] });
                }
                _ => {
                    calls.push(field(0));
                    calls.push(Call { variant: 3, mat: vec![1.5, 1.5], vars: vec![0] });
                    calls.push(Call { variant: 3, mat: vec![0.875; 4], vars: vec![0, 1] });
                    calls.push(field(1));
                }
            }
            (if fam == 9 { 3 } else { 2 }, calls)
        }
        // Ising-symmetric off-diagonal terms + constant single-site term: loop AND cluster updates
        _ => {
            let nvars = g.range(2, 4) as usize;
            for i in 0..nvars - 1 {
                let (a, b, c) = (e8(g, 0, 8), e8(g, 0, 8), e8(g, 1, 8));
                let p = if g.coin() { e8(g, 1, 4) } else { 0.0 };
                calls.push(Call { variant: 0, mat: exchange(a, a, b, c, p), vars: vec![i, i + 1] });
            }
            let gm = e8(g, 1, 8);
            calls.push(Call { variant: 0, mat: vec![gm; 4], vars: vec![g.below(nvars as u64) as usize] });
            if g.coin() {
                // symmetric single-site full matrix [a g; g a]
                let (a, x) = (e8(g, 0, 8), e8(g, 1, 8));
                calls.push(Call { variant: 0, mat: vec![a, x, x, a], vars: vec![g.below(nvars as u64) as usize] });
            }
            (nvars, calls)
        }
    }
}

fn build(g: &mut SplitMix64, nvars: usize, calls: &[Call], do_loop: bool, hb: bool) -> (Q, Handle) {
    let h = Rc::new(RefCell::new(RecRng::new(g.next())));
    let state: Vec<bool> = (0..nvars).map(|_| g.coin()).collect();
    let mut q = Q::new_with_state(nvars, HRng(h.clone()), state, do_loop);
    for c in calls {
        let _ = apply_call(&mut q, c);
    }
    q.set_do_heatbath(hb);
    (q, h)
}

fn words(ws: &[u64]) -> String {
    list(ws)
}

#[derive(PartialEq, Eq, Clone, Debug)]
struct Skel(usize, Vec<(usize, usize, Vec<usize>, bool)>, usize);
fn skeleton(q: &Q) -> Skel {
    let m = q.get_manager_ref();
    let l = m.get_cutoff();
    let v = (0..l)
        .filter_map(|p| m.get_pth(p).map(|o| (p, o.get_bond(), o.get_vars().to_vec(), o.is_constant())))
        .collect();
    Skel(l, v, m.get_n())
}

/// the property's invariants after a move, evaluated on the real code
fn legal_and_consistent(q: &Q) -> Result<(), String> {
    let m = q.get_manager_ref();
    let st = q.state_ref().to_vec();
    match propagate_check(m, &st) {
        Ok(fin) => {
            if fin != st {
                return Err(format!("world lines not periodic: start {} end {}", bits(&st), bits(&fin)));
            }
        }
        Err(p) => return Err(format!("op at p={} does not meet its inputs", p)),
    }
    let mut cnt = 0;
    for p in 0..m.get_cutoff() {
        if let Some(op) = m.get_pth(p) {
            cnt += 1;
            let w = q.get_bonds()[op.get_bond()]
                .at(op.get_inputs(), op.get_outputs())
                .map_err(|e| format!("at() failed for op at p={}: {}", p, e))?;
            if !(w > 0.0) {
                return Err(format!("op at p={} has matrix element {}", p, w));
            }
            if op.is_diagonal() != (op.get_inputs() == op.get_outputs()) {
                return Err(format!("op at p={} has a stale diagonal tag", p));
            }
            if op.get_vars() != BOND_VARS.with(|b| b.borrow()[op.get_bond()].clone()) {
                return Err(format!("op at p={} acts on other variables than its bond", p));
            }
        }
    }
    if cnt != m.get_n() {
        return Err(format!("n = {} but {} ops stored", m.get_n(), cnt));
    }
    Ok(())
}

thread_local! {
    /// variable lists of the accepted calls in bond order (`Interaction.vars` is private)
    static BOND_VARS: RefCell<Vec<Vec<usize>>> = RefCell::new(vec![]);
    /// `want_constant` of the accepted calls in bond order
    static BOND_CONST: RefCell<Vec<bool>> = RefCell::new(vec![]);
}

/// what the sampler should hold for an accepted call, recomputed from the user's matrix: the matrix / table itself,
/// for the offset variants with the minimal diagonal entry removed (from the diagonal only for a full matrix);
/// second component = the removed minimum (0 without offset)
fn stored_matrix(c: &Call) -> (Vec<f64>, f64) {
    let mut shifted = c.mat.clone();
    let mut md = 0.0;
    if c.variant >= 2 {
        if c.variant == 3 {
            md = c.mat.iter().cloned().fold(f64::MAX, f64::min);
            shifted.iter_mut().for_each(|x| *x -= md);
        }
    } else if c.variant == 1 {
        let tn = 1usize << c.vars.len();
        md = (0..tn).map(|i| c.mat[i * tn + i]).fold(f64::MAX, f64::min);
        (0..tn).for_each(|i| shifted[i * tn + i] -= md);
    }
    (shifted, md)
}

/// `is_constant()` of the bond of an accepted call as the property defines it: a FULL matrix (new / new_off) all of
/// whose stored entries are equal; never a diagonal table (a constant table has no off-diagonal elements)
fn want_constant(c: &Call) -> bool {
    let m = stored_matrix(c).0;
    c.variant < 2 && m.iter().all(|x| *x == m[0])
}

/// sets BOND_VARS / BOND_CONST from the calls a sampler accepts (bond order). Returns the cluster gate the property
/// demands: every stored term flip-symmetric and a constant full single-site term among them.
fn expect_bonds(nvars: usize, calls: &[Call]) -> bool {
    let mut t = QS::new_with_state(nvars, SplitMix64::new(1), vec![false; nvars], false);
    let acc: Vec<&Call> = calls.iter().filter(|c| apply_call(&mut t, c).is_ok()).collect();
    BOND_VARS.with(|b| *b.borrow_mut() = acc.iter().map(|c| c.vars.clone()).collect());
    BOND_CONST.with(|b| *b.borrow_mut() = acc.iter().map(|c| want_constant(c)).collect());
    acc.iter().all(|c| flip_symmetric(&stored_matrix(c).0)) && acc.iter().any(|c| c.vars.len() == 1 && want_constant(c))
}

/// `legal_and_consistent` + every stored op carries the `constant` flag its bond should have (BOND_CONST): in
/// particular no op of a diagonal table is marked constant (the cluster update cuts world lines at constant
/// single-site ops and flips the two sides independently)
fn legal_with_flags(q: &Q) -> Result<(), String> {
    legal_and_consistent(q)?;
    let m = q.get_manager_ref();
    for p in 0..m.get_cutoff() {
        if let Some(op) = m.get_pth(p) {
            let want = BOND_CONST.with(|b| b.borrow()[op.get_bond()]);
            if op.is_constant() != want {
                return Err(format!(
                    "op at p={} of bond {} carries constant = {} but its bond is {}a full matrix with all entries equal",
                    p, op.get_bond(), op.is_constant(), if want { "" } else { "not " }
                ));
            }
        }
    }
    Ok(())
}

// ------------------------------------------------------------------------------------------
// trajectory / free / pipeline modes
// ------------------------------------------------------------------------------------------

/// statistics only (never part of an output or an oracle): arity of the op a loop started on, recomputed from the
/// recorded words as rand 0.8 maps them (`gen_range(0..total)`: widening multiply, zone rejection) and the ops in
/// chain order. `None` when the string is empty / the log is too short.
fn start_arity(log: &[u64], arities: &[usize]) -> Option<usize> {
    let total: usize = arities.iter().sum();
    if total == 0 {
        return None;
    }
    let zone = ((total as u64) << (total as u64).leading_zeros()).wrapping_sub(1);
    let w = log.iter().find(|w| (((**w as u128) * total as u128) as u64) <= zone)?;
    let mut choice = (((*w as u128) * total as u128) >> 64) as usize;
    arities.iter().copied().find(|k| {
        if choice < *k {
            true
        } else {
            choice -= *k;
            false
        }
    })
}

/// returns (arity of the op the loop started on, the string mixes arities) (statistics; `None` for an empty string)
fn loop_case(q: &mut Q, h: &Handle, calls_tok: &str) -> Option<(usize, bool)> {
    let before_state = q.state_ref().to_vec();
    let before_slots = show_slots(q.get_manager_ref());
    let sk = skeleton(q);
    // hypotheses of the preservation theorem (Qmc.C04.loopUpdate_pres), evaluated on the real code
    // before the move: periodic world lines, positive matrix elements, op shape
    let hyp = legal_and_consistent(q).is_ok();
    h.borrow_mut().take_log();
    let r = catch(|| q.loop_update());
    let log = h.borrow_mut().take_log();
    let input = format!("loop {} {} {} {}", calls_tok, bits(&before_state), before_slots, words(&log));
    match r {
        Err(p) => {
            emit(true, &input, "PANIC", Some(Err(format!("loop_update panicked: {}", p))));
            std::process::exit(0);
        }
        Ok(()) => {
            let after_state = q.state_ref().to_vec();
            let after_slots = show_slots(q.get_manager_ref());
            let mut oracle = legal_with_flags(q);
            if oracle.is_ok() && skeleton(q) != sk {
                oracle = Err("loop update changed positions / bonds / vars / n".into());
            }
            let changed = after_state != before_state || after_slots != before_slots;
            stat(&format!("loop_draws_{}", match log.len() { 0 => "0", 1..=4 => "le4", 5..=8 => "le8", 9..=20 => "le20", _ => "gt20" }), 1);
            stat(if changed { "loop_changed" } else { "loop_unchanged" }, 1);
            stat(&format!("loop_n_{}", match sk.2 { 0 => "0", 1..=3 => "1-3", 4..=10 => "4-10", 11..=30 => "11-30", _ => "gt30" }), 1);
            if after_state != before_state {
                stat("loop_crossed_boundary_state_changed", 1);
            }
            let arities: Vec<usize> = sk.1.iter().map(|o| o.2.len()).collect();
            // mixed = the string mixes arities (the case where leg-uniform and op-uniform starts differ, F22)
            let sa = start_arity(&log, &arities).map(|k| (k, arities.iter().any(|a| *a != k)));
            if let Some((k, mixed)) = sa {
                stat(&format!("loop_start_arity_{}", k), 1);
                if mixed {
                    stat(&format!("loop_start_arity_{}_in_mixed_string", k), 1);
                }
            }
            let cons = propagate_check(q.get_manager_ref(), &after_state).map(|f| f == after_state).unwrap_or(false);
            emit(changed || log.len() > 4, &input, &format!("{} {} ok c={} hyp={}", bits(&after_state), after_slots, cons as u8, hyp as u8), Some(oracle));
            sa
        }
    }
}

fn free_case(q: &mut Q, h: &Handle) {
    let before_state = q.state_ref().to_vec();
    let slots = show_slots(q.get_manager_ref());
    h.borrow_mut().take_log();
    q.flip_free_bits();
    let log = h.borrow_mut().take_log();
    let after = q.state_ref().to_vec();
    let m = q.get_manager_ref();
    let mut covered = vec![false; before_state.len()];
    for p in 0..m.get_cutoff() {
        if let Some(op) = m.get_pth(p) {
            for v in op.get_vars() {
                covered[*v] = true;
            }
        }
    }
    let nfree = covered.iter().filter(|c| !**c).count();
    let mut oracle = legal_with_flags(q);
    if oracle.is_ok() {
        if log.len() != nfree {
            oracle = Err(format!("{} draws for {} free variables", log.len(), nfree));
        } else if (0..covered.len()).any(|v| covered[v] && after[v] != before_state[v]) {
            oracle = Err("a variable with operators was refreshed".into());
        } else {
            // one draw per free variable in increasing index, threshold 1/2 (word < 2^63 <=> true)
            let mut k = 0;
            for v in 0..covered.len() {
                if !covered[v] {
                    if after[v] != (log[k] < (1u64 << 63)) {
                        oracle = Err(format!("free variable {} not set from draw {} with threshold 1/2", v, k));
                    }
                    k += 1;
                }
            }
        }
    }
    stat(if nfree > 0 { "free_with_idle_vars" } else { "free_no_idle_vars" }, 1);
    let cons = propagate_check(q.get_manager_ref(), &after).map(|f| f == after).unwrap_or(false);
    emit(nfree > 0, &format!("free {} {} {}", bits(&before_state), slots, words(&log)), &format!("{} ok c={}", bits(&after), cons as u8), Some(oracle));
}

fn deep_clone(q: &Q) -> (Q, Handle) {
    let c = q.clone();
    let h = LAST_CLONE.with(|l| l.borrow_mut().take()).expect("clone handle");
    h.borrow_mut().take_log();
    (c, h)
}

fn pipe_case(q: &Q, beta: f64, do_loop: bool, calls_tok: &str) {
    let (mut a, ha) = deep_clone(q);
    a.timestep(beta);
    let ra = (a.state_ref().to_vec(), show_slots(a.get_manager_ref()), ha.borrow_mut().take_log(), a.get_cutoff());
    let mut matching = vec![];
    for l in [false, true] {
        for c in [false, true] {
            let (mut b, hb) = deep_clone(q);
            b.diagonal_update(beta);
            if l {
                b.loop_update();
            }
            if c && b.cluster_update().is_err() {
                continue;
            }
            b.flip_free_bits();
            let rb = (b.state_ref().to_vec(), show_slots(b.get_manager_ref()), hb.borrow_mut().take_log(), b.get_cutoff());
            if ra == rb {
                matching.push(format!("{}{}", l as u8, c as u8));
            }
        }
    }
    let oracle = if matching.is_empty() {
        Err("timestep is not diagonal;[loop];[cluster];free-refresh for any choice of the optional parts".to_string())
    } else {
        Ok(())
    };
    stat(&format!("pipe_matching_{}", matching.len()), 1);
    let tok = if matching.is_empty() { "none".to_string() } else { matching.join(",") };
    emit(matching.len() == 1, &format!("pipe {} {} {}", do_loop as u8, calls_tok, tok), "ok", Some(oracle));
}

fn run_traj(g: &mut SplitMix64, thorough: bool) {
    let nsys = if thorough { 2400 } else { 64 };
    // after the random families: the fixed F22 witness systems (families 4, 5), always run, (family, beta, heat bath)
    let fixed: [(usize, f64, bool); 6] = [(4, 1.0, false), (4, 1.0, true), (4, 2.0, false), (5, 1.0, false), (5, 1.0, true), (5, 0.5, false)];
    for s in 0..nsys + fixed.len() {
        let witness = s >= nsys;
        let fam = if witness { fixed[s - nsys].0 } else { s % 4 };
        let (nvars, calls) = gen_system(g, fam as u64);
        let do_loop = fam != 1 || g.chance(1, 3);
        let hb = if witness { fixed[s - nsys].2 } else { g.coin() };
        let (mut q, h) = build(g, nvars, &calls, do_loop, hb);
        if q.get_bonds().is_empty() {
            continue;
        }
        expect_bonds(nvars, &calls);
        let calls_tok = show_calls(&calls);
        let beta = if witness { fixed[s - nsys].1 } else { *g.pick(&[0.5, 1.0, 1.5, 2.0, 3.0, 4.0]) };
        stat(&format!("family_{}", fam), 1);
        stat(if hb { "heatbath_on" } else { "heatbath_off" }, 1);
        stat(&format!("max_arity_{}", calls.iter().map(|c| c.vars.len()).max().unwrap_or(0)), 1);
        for _ in 0..8 {
            q.timestep(beta);
        }
        // witness systems: enough loops that they start on the 1-, 2- (and 3-) variable ops
        let k = if witness { 40 } else if thorough { 16 } else { 10 };
        let lc = |q: &mut Q| {
            let sa = loop_case(q, &h, &calls_tok);
            if witness {
                stat("traj_f22_witness_loops", 1);
                if let Some((a, mixed)) = sa {
                    stat(&format!("traj_f22_witness_fam{}_start_arity_{}{}", fam, a, if mixed { "_in_mixed_string" } else { "" }), 1);
                }
            }
        };
        for step in 0..k {
            if step % 3 == 0 {
                pipe_case(&q, beta, do_loop, &calls_tok);
            }
            q.diagonal_update(beta);
            lc(&mut q);
            if step % 2 == 1 {
                lc(&mut q);
            }
            if q.should_do_cluster_update() {
                q.cluster_update().unwrap();
            }
            free_case(&mut q, &h);
        }
    }
    // tiny systems with many idle variables and empty strings (n = 0: no draw at all)
    for _ in 0..(if thorough { 60 } else { 12 }) {
        let nvars = g.range(3, 6) as usize;
        let calls = vec![Call { variant: 0, mat: exchange(0.5, 0.5, 0.25, 0.5, 0.0), vars: vec![0, 1] }];
        let (mut q, h) = build(g, nvars, &calls, true, false);
        expect_bonds(nvars, &calls);
        let tok = show_calls(&calls);
        loop_case(&mut q, &h, &tok); // n = 0
        free_case(&mut q, &h);
        pipe_case(&q, 0.125, true, &tok);
        q.timestep(0.125);
        loop_case(&mut q, &h, &tok);
        free_case(&mut q, &h);
    }
    // constant diagonal tables (family 6): random systems, then every fixed system (families 7..10) with
    // (beta, heat bath, loop updates) = CONSTDIAG_RUNS; CONSTDIAG_STEPS checked timesteps each from the empty string
    let n6 = if thorough { 300 } else { 16 };
    for s in 0..n6 + 4 * CONSTDIAG_RUNS.len() {
        let fixed = s.checked_sub(n6).map(|i| (7 + i / CONSTDIAG_RUNS.len(), CONSTDIAG_RUNS[i % CONSTDIAG_RUNS.len()]));
        let (nvars, calls) = gen_system(g, fixed.map(|f| f.0 as u64).unwrap_or(6));
        let (beta, hb, do_loop) = match fixed {
            Some(f) => f.1,
            None => (*g.pick(&[0.5, 1.0, 1.5, 2.0, 3.0, 4.0]), g.coin(), g.coin()),
        };
        let (mut q, h) = build(g, nvars, &calls, do_loop, hb);
        let want_gate = expect_bonds(nvars, &calls);
        let calls_tok = show_calls(&calls);
        stat(&format!("family_{}", fixed.map(|f| f.0).unwrap_or(6)), 1);
        stat(if hb { "heatbath_on" } else { "heatbath_off" }, 1);
        stat(if want_gate { "constdiag_gate_open" } else { "constdiag_gate_closed" }, 1);
        for step in 0..CONSTDIAG_STEPS {
            if step % 3 == 0 {
                pipe_case(&q, beta, do_loop, &calls_tok);
            }
            if !checked_step(&mut q, &h, beta, &calls_tok, step, want_gate) {
                break;
            }
        }
    }
}

/// (beta, heat bath, loop updates) of the runs of each fixed constant-diagonal-table system (distinct betas: the
/// `clustercheck` input names the system, beta and step)
const CONSTDIAG_RUNS: [(f64, bool, bool); 4] = [(1.0, false, true), (2.0, true, false), (0.5, true, true), (3.0, false, false)];
const CONSTDIAG_STEPS: usize = 40;

/// One `timestep` of the real sampler in its public parts (diagonal; [loop]; [cluster]; free refresh, the optional
/// parts exactly when `should_do_*` says so), the configuration checked with `legal_with_flags` after the diagonal
/// update and after the cluster update (which have no case of their own): one `clustercheck` case per step, output `-`.
/// Also: the cluster update runs only if the property's gate (`want_gate`) is open. Returns false when the run has
/// to stop (a check failed).
fn checked_step(q: &mut Q, h: &Handle, beta: f64, calls_tok: &str, step: usize, want_gate: bool) -> bool {
    let input = format!("clustercheck {} {} {}", calls_tok, rat(beta), step);
    let mut fails: Vec<String> = vec![];
    let cc_ops = |q: &Q| {
        // ops of constant one-variable diagonal tables in the string (statistics: the checks are not vacuous)
        let m = q.get_manager_ref();
        (0..m.get_cutoff())
            .filter_map(|p| m.get_pth(p))
            .filter(|o| o.get_vars().len() == 1 && o.is_diagonal() && !BOND_CONST.with(|b| b.borrow()[o.get_bond()]))
            .count()
    };
    if let Err(p) = catch(|| q.diagonal_update(beta)) {
        emit(true, &input, "-", Some(Err(format!("diagonal_update panicked: {}", p))));
        return false;
    }
    if let Err(e) = legal_and_consistent(q) {
        emit(true, &input, "-", Some(Err(format!("after the diagonal update: {}", e))));
        return false;
    }
    if let Err(e) = legal_with_flags(q) {
        fails.push(format!("after the diagonal update: {}", e));
    }
    stat("constdiag_steps", 1);
    if q.should_do_loop_update() {
        loop_case(q, h, calls_tok);
    }
    if q.should_do_cluster_update() {
        stat("constdiag_cluster_updates", 1);
        stat("constdiag_cluster_updates_single_site_table_ops_in_string", cc_ops(q));
        if !want_gate {
            fails.push("should_do_cluster_update() = true (the cluster update runs) but the accepted terms do not contain a constant full single-site matrix, or are not all flip-symmetric".into());
        }
        match catch(|| q.cluster_update().map_err(|e| e.to_string())) {
            Err(p) => fails.push(format!("cluster_update panicked: {}", p)),
            Ok(Err(e)) => fails.push(format!("cluster_update refused: {}", e)),
            Ok(Ok(())) => {
                // (a wrong flag seen after the diagonal update is not reported twice)
                if let Err(e) = if fails.is_empty() { legal_with_flags(q) } else { legal_and_consistent(q) } {
                    fails.push(format!("after the cluster update: {}", e));
                }
            }
        }
    } else if want_gate {
        fails.push("should_do_cluster_update() = false although all accepted terms are flip-symmetric and a constant full single-site matrix is among them".into());
    }
    let ok = fails.is_empty();
    if !ok && legal_and_consistent(q).is_ok() {
        // wrong flags / gate but still a legal configuration: follow the run (plain sub-updates, no cases) to the
        // first illegal configuration, if any, and name it in the same verdict
        for later in step + 1..CONSTDIAG_STEPS {
            let r = catch(|| {
                q.flip_free_bits();
                q.diagonal_update(beta);
                if q.should_do_loop_update() {
                    q.loop_update();
                }
                if q.should_do_cluster_update() {
                    let _ = q.cluster_update();
                }
            });
            match r.and_then(|_| legal_and_consistent(q)) {
                Ok(()) => {}
                Err(e) => {
                    fails.push(format!("consequence in step {}: {}", later, e));
                    break;
                }
            }
        }
    }
    emit(true, &input, "-", Some(if ok { Ok(()) } else { Err(fails.join("; ")) }));
    if ok {
        free_case(q, h);
    }
    ok
}

// ------------------------------------------------------------------------------------------
// gate / offset / energy
// ------------------------------------------------------------------------------------------

fn flip_symmetric(m: &[f64]) -> bool {
    (0..m.len()).all(|i| m[i] == m[m.len() - 1 - i])
}

fn gate_case(g: &mut SplitMix64, nvars: usize, calls: &[Call], do_loop: bool) {
    let mut q = QS::new_with_state(nvars, SplitMix64::new(3), vec![false; nvars], do_loop);
    let mut acc = vec![];
    let mut accepted: Vec<&Call> = vec![];
    let mut want_offset = 0.0f64;
    let mut all_sym = true;
    let mut has_const1 = false;
    let mut panicked = None;
    for c in calls {
        let r = catch(|| apply_call(&mut q, c));
        match r {
            Err(p) => {
                panicked = Some(p);
                break;
            }
            Ok(r) => {
                acc.push(r.is_ok());
                if r.is_ok() {
                    // the property, recomputed from the user's matrix (model-independent)
                    let (shifted, md) = stored_matrix(c);
                    if c.variant == 1 || c.variant == 3 {
                        want_offset -= md;
                    }
                    if !flip_symmetric(&shifted) {
                        all_sym = false;
                    }
                    if c.vars.len() == 1 && want_constant(c) {
                        has_const1 = true;
                    }
                    accepted.push(c);
                }
            }
        }
    }
    let avg_n = g.range(0, 400) as f64 / 8.0;
    let beta = *g.pick(&[0.25, 0.5, 1.0, 2.0, 3.0, 8.0]);
    let input = format!("gate {} {} {} {}", do_loop as u8, show_calls(calls), rat(avg_n), rat(beta));
    if let Some(p) = panicked {
        emit(true, &input, "P", Some(Err(format!("make_*interaction* panicked: {}", p))));
        return;
    }
    let js = serde_json::to_value(&q).unwrap();
    let ncd: Vec<u64> = js["non_const_diags"].as_array().unwrap().iter().map(|x| x.as_u64().unwrap()).collect();
    let e = q.get_energy_for_average_n(avg_n, beta);
    // `is_constant()` of the registered bonds, bond order
    let cb: Vec<bool> = q.get_bonds().iter().map(|b| b.is_constant()).collect();
    let bad_const = (0..accepted.len()).find(|b| cb.get(*b) != Some(&want_constant(accepted[*b])));
    let mut oracle = Ok(());
    if q.get_offset() != want_offset {
        oracle = Err(format!("recorded offset {} but -(sum of minimal diagonals) = {}", q.get_offset(), want_offset));
    } else if cb.len() != accepted.len() {
        oracle = Err(format!("{} bonds stored for {} accepted calls", cb.len(), accepted.len()));
    } else if let Some(b) = bad_const {
        oracle = Err(format!(
            "bond {} ({}): is_constant() = {} but a constant operator is a FULL matrix with all entries equal: expected {}",
            b, show_calls(std::slice::from_ref(accepted[b])), cb[b], want_constant(accepted[b])
        ));
        if q.should_do_cluster_update() != (all_sym && has_const1) {
            oracle = oracle.map_err(|m: String| format!(
                "{}; should_do_cluster_update() = {} but all-symmetric = {}, constant single-site term = {}",
                m, q.should_do_cluster_update(), all_sym, has_const1
            ));
        }
    } else if q.should_do_cluster_update() != (all_sym && has_const1) {
        oracle = Err(format!(
            "should_do_cluster_update() = {} but all-symmetric = {}, constant single-site term = {}",
            q.should_do_cluster_update(), all_sym, has_const1
        ));
    } else if (e - (-(avg_n / beta) + want_offset)).abs() > 1e-9 * (1.0 + e.abs()) {
        oracle = Err(format!("energy {} but -n/beta + offset = {}", e, -(avg_n / beta) + want_offset));
    } else if q.should_do_loop_update() != do_loop {
        oracle = Err("should_do_loop_update() differs from the constructor argument".into());
    }
    stat(if q.should_do_cluster_update() { "gate_cluster_on" } else { "gate_cluster_off" }, 1);
    let out = format!(
        "{} {} {} {} {} {} ~{:.15e} {}",
        bits(&acc),
        q.get_bonds().len(),
        q.should_do_cluster_update() as u8,
        q.should_do_loop_update() as u8,
        rat(q.get_offset()),
        list(&ncd),
        e,
        bits(&cb)
    );
    emit(acc.iter().any(|a| *a), &input, &out, Some(oracle));
}

fn run_gate(g: &mut SplitMix64, thorough: bool) {
    let n = if thorough { 12000 } else { 400 };
    for i in 0..n {
        let fam = g.below(4);
        let (nvars, mut calls) = gen_system(g, fam);
        perturb(g, nvars, &mut calls);
        if i % 50 == 0 {
            calls.clear();
        }
        let dl = g.coin();
        gate_case(g, nvars, &calls, dl);
    }
    // the fixed F22 witness call lists (families 4, 5), always included
    for fam in [4, 5] {
        let (nvars, calls) = gen_system(g, fam);
        for dl in [false, true] {
            stat("gate_f22_witness", 1);
            gate_case(g, nvars, &calls, dl);
        }
    }
    // constant diagonal tables: random systems of family 6 (same perturbations), then the fixed systems 7..10
    for i in 0..(if thorough { 1500 } else { 60 }) {
        let (nvars, mut calls) = gen_system(g, 6);
        if i % 2 == 1 {
            perturb(g, nvars, &mut calls);
        }
        let dl = g.coin();
        stat("gate_constdiag", 1);
        gate_case(g, nvars, &calls, dl);
    }
    for fam in 7..=10 {
        let (nvars, calls) = gen_system(g, fam);
        for dl in [false, true] {
            stat("gate_constdiag_fixed", 1);
            gate_case(g, nvars, &calls, dl);
        }
    }
}

/// perturbations of a call list: drop the constant term, break the symmetry far from index 0, add junk calls
fn perturb(g: &mut SplitMix64, nvars: usize, calls: &mut Vec<Call>) {
    match g.below(6) {
        0 => {
            calls.retain(|c| !(c.vars.len() == 1 && c.variant < 2));
        }
        1 => {
            if let Some(c) = calls.iter_mut().rev().find(|c| c.mat.len() >= 4) {
                let j = c.mat.len() - 1 - g.below(2) as usize;
                c.mat[j] += 0.125;
            }
        }
        2 => {
            let v = g.below(4) as u8;
            let len = *g.pick(&[0usize, 2, 3, 4, 8, 16, 5]);
            let mat: Vec<f64> = (0..len).map(|_| e8(g, -2, 8)).collect();
            let k = g.range(0, 2) as usize;
            let vars = distinct_vars(g, nvars, k);
            let at = g.below(calls.len() as u64 + 1) as usize;
            calls.insert(at, Call { variant: v, mat, vars });
        }
        3 => {
            // constant two-site term only (not a cluster edge)
            let gm = e8(g, 1, 8);
            calls.retain(|c| !(c.vars.len() == 1 && c.variant < 2));
            calls.push(Call { variant: 0, mat: vec![gm; 16], vars: vec![0, 1] });
        }
        _ => {}
    }
}

// ------------------------------------------------------------------------------------------
// exit-leg distribution by bisection of the `gen_range(0.0..total)` draw
// ------------------------------------------------------------------------------------------

fn crafted(a: usize, n: usize) -> u64 {
    // smallest word that `gen_range(0..n)` maps to `a` (never rejected: low product half < n)
    (((a as u128) << 64) + n as u128 - 1).checked_div(n as u128).unwrap() as u64
}

fn mk_op(vars: &[usize], bond: usize, ins: &[bool], outs: &[bool], constant: bool) -> FastOp {
    if ins == outs {
        FastOp::diagonal(vars.to_vec(), bond, ins.to_vec(), constant)
    } else {
        FastOp::offdiagonal(vars.to_vec(), bond, ins.to_vec(), outs.to_vec(), constant)
    }
}

/// One vertex visit on the real code: a one-op container, start draws scripted to (op 0, `ent`),
/// exit draw = `fword`, script ends there. Returns the chosen exit leg index (inputs 0..k-1,
/// outputs k..2k-1) and the rewritten op.
fn first_visit(q: &QS, nvars: usize, op: &FastOp, ent: (usize, bool), fword: u64) -> Result<(usize, FastOp), String> {
    let k = op.get_vars().len();
    let mut m = FastOps::new_from_ops(nvars, vec![(0usize, op.clone())]);
    let mut state = vec![false; nvars];
    for (i, v) in op.get_vars().iter().enumerate() {
        state[*v] = op.get_inputs()[i];
    }
    let side_word = if ent.1 { 0u64 } else { 1u64 << 63 }; // gen::<bool>() true -> Inputs
    // start draws: one `gen_range(0..total)` over all legs' variables (one op: total = k, slot = relative variable), side
    let mut rng = LimitRng { words: vec![crafted(ent.0, k), side_word, fword], pos: 0 };
    let r = catch(|| {
        m.make_loop_update_with_rng(
            None,
            |_v: &[usize], bond: usize, i: &[bool], o: &[bool]| q.get_bonds()[bond].at(i, o).unwrap(),
            &mut state,
            &mut rng,
        )
    });
    if let Err(p) = &r {
        if p != "script exhausted" {
            return Err(format!("loop update panicked: {}", p));
        }
    }
    if rng.pos != 3 {
        return Err(format!("first vertex visit consumed {} words, expected 3", rng.pos));
    }
    let after = m.get_pth(0).unwrap().clone();
    let mut diff = vec![];
    for r in 0..k {
        if after.get_inputs()[r] != op.get_inputs()[r] {
            diff.push(r);
        }
    }
    for r in 0..k {
        if after.get_outputs()[r] != op.get_outputs()[r] {
            diff.push(k + r);
        }
    }
    let ent_idx = if ent.1 { k + ent.0 } else { ent.0 };
    let ex = match diff.len() {
        0 => ent_idx,
        2 if diff.contains(&ent_idx) => *diff.iter().find(|d| **d != ent_idx).unwrap(),
        _ => return Err(format!("op changed on legs {:?}, entrance {}", diff, ent_idx)),
    };
    Ok((ex, after))
}

fn leg_tok(idx: usize, k: usize) -> String {
    if idx < k {
        format!("{}i", idx)
    } else {
        format!("{}o", idx - k)
    }
}

fn patterns(n: usize) -> Vec<Vec<bool>> {
    (0..(1usize << n)).map(|i| (0..n).map(|b| (i >> (n - 1 - b)) & 1 == 1).collect()).collect()
}

fn flip_leg(ins: &mut Vec<bool>, outs: &mut Vec<bool>, idx: usize, k: usize) {
    if idx < k {
        ins[idx] = !ins[idx];
    } else {
        outs[idx - k] = !outs[idx - k];
    }
}

fn run_exit(g: &mut SplitMix64, thorough: bool) {
    let nsets = if thorough { 80 } else { 8 };
    for s in 0..nsets {
        let fam = [0u64, 2, 3, 1][s % 4];
        let (nvars, calls) = gen_system(g, fam);
        let mut q = QS::new_with_state(nvars, SplitMix64::new(5), vec![false; nvars], true);
        let accepted: Vec<&Call> = calls.iter().filter(|c| apply_call(&mut q, c).is_ok()).collect();
        let calls_tok = show_calls(&calls);
        for (bond, c) in accepted.iter().enumerate() {
            let k = c.vars.len();
            let pats = patterns(k);
            let constant = q.get_bonds()[bond].is_constant();
            // all (ins, outs) with a positive matrix element
            let mut states: Vec<(Vec<bool>, Vec<bool>)> = vec![];
            for i in &pats {
                for o in &pats {
                    if q.get_bonds()[bond].at(i, o).unwrap() > 0.0 {
                        states.push((i.clone(), o.clone()));
                    }
                }
            }
            let cap = if thorough { 24 } else if k == 3 { 6 } else { 10 };
            while states.len() > cap {
                let i = g.below(states.len() as u64) as usize;
                states.swap_remove(i);
            }
            // measured exit probabilities: (ins, outs, ent, ex) -> p
            let mut probs: HashMap<(Vec<bool>, Vec<bool>, usize, usize), f64> = HashMap::new();
            let mut emitted: Vec<(String, String, Vec<bool>, Vec<bool>, usize, Option<String>)> = vec![];
            for (ins, outs) in &states {
                let op = mk_op(&c.vars, bond, ins, outs, constant);
                for ent_idx in 0..2 * k {
                    let ent = (ent_idx % k, ent_idx >= k);
                    let mut err: Option<String> = None;
                    let mut thr = vec![];
                    for j in 0..2 * k {
                        // smallest 52-bit draw whose exit index exceeds j (2^52 = never)
                        let exceeds = |v52: u64, err: &mut Option<String>| -> bool {
                            match first_visit(&q, nvars, &op, ent, v52 << 12) {
                                Ok((ex, _)) => ex > j,
                                Err(e) => {
                                    *err = Some(e);
                                    false
                                }
                            }
                        };
                        let (mut lo, mut hi) = (0u64, 1u64 << 52); // invariant: !exceeds(lo-1), exceeds(hi) (virtually)
                        if exceeds(0, &mut err) {
                            hi = 0;
                        } else {
                            while hi - lo > 1 {
                                let mid = lo + (hi - lo) / 2;
                                if exceeds(mid, &mut err) {
                                    hi = mid;
                                } else {
                                    lo = mid;
                                }
                            }
                        }
                        thr.push(hi as f64 / (1u64 << 52) as f64);
                    }
                    let mut prev = 0.0;
                    for j in 0..2 * k {
                        probs.insert((ins.clone(), outs.clone(), ent_idx, j), thr[j] - prev);
                        prev = thr[j];
                    }
                    let input = format!("exitdist {} {} {}", calls_tok, show_op(&op), leg_tok(ent_idx, k));
                    let out = thr.iter().map(|t| format!("~{:.15e}", t)).collect::<Vec<_>>().join(" ");
                    emitted.push((input, out, ins.clone(), outs.clone(), ent_idx, err));
                    stat(&format!("exitdist_arity_{}", k), 1);
                }
            }
            // oracle: local balance W(s) P(s; i->e) = W(s') P(s'; e->i), s' = s with i, e toggled;
            // every exit with positive probability leads to a positive matrix element; sum = 1
            for (input, out, ins, outs, ent_idx, err) in emitted {
                let mut oracle: Result<(), String> = match err {
                    Some(e) => Err(e),
                    None => Ok(()),
                };
                let w = q.get_bonds()[bond].at(&ins, &outs).unwrap();
                let mut sum = 0.0;
                for e in 0..2 * k {
                    let p = probs[&(ins.clone(), outs.clone(), ent_idx, e)];
                    sum += p;
                    let (mut i2, mut o2) = (ins.clone(), outs.clone());
                    flip_leg(&mut i2, &mut o2, ent_idx, k);
                    flip_leg(&mut i2, &mut o2, e, k);
                    let w2 = q.get_bonds()[bond].at(&i2, &o2).unwrap();
                    if p > 0.0 && !(w2 > 0.0) && oracle.is_ok() {
                        oracle = Err(format!("exit {} has probability {} but leads to matrix element {}", leg_tok(e, k), p, w2));
                    }
                    if p == 0.0 && w2 > 0.0 && oracle.is_ok() {
                        oracle = Err(format!("exit {} is never chosen although its matrix element is {}", leg_tok(e, k), w2));
                    }
                    if let Some(p2) = probs.get(&(i2.clone(), o2.clone(), e, ent_idx)) {
                        if (w * p - w2 * p2).abs() > 1e-9 * (1.0 + w * p) && oracle.is_ok() {
                            oracle = Err(format!(
                                "local balance violated for exit {}: W(s)P = {} but W(s')P' = {}",
                                leg_tok(e, k), w * p, w2 * p2
                            ));
                        }
                    }
                }
                if (sum - 1.0).abs() > 1e-12 && oracle.is_ok() {
                    oracle = Err(format!("exit probabilities sum to {}", sum));
                }
                emit(true, &input, &out, Some(oracle));
            }
            // single scripted draws, including the boundary draw 0 and the largest draw
            for (ins, outs) in states.iter().take(if thorough { 12 } else { 4 }) {
                let op = mk_op(&c.vars, bond, ins, outs, constant);
                for ent_idx in 0..2 * k {
                    let ent = (ent_idx % k, ent_idx >= k);
                    let mut ws = vec![0u64, 4095, g.next() >> 8, g.next() | (0xffu64 << 56)];
                    ws.push(g.next());
                    ws.push(g.next());
                    ws.push(g.next());
                    for w in ws {
                        let input = format!("exit {} {} {} {}", calls_tok, show_op(&op), leg_tok(ent_idx, k), w);
                        match first_visit(&q, nvars, &op, ent, w) {
                            Ok((ex, after)) => {
                                let wa = q.get_bonds()[bond].at(after.get_inputs(), after.get_outputs()).unwrap();
                                let oracle = if wa > 0.0 { Ok(()) } else { Err(format!("rewritten op has matrix element {}", wa)) };
                                stat(if w >> 12 == 0 { "exit_draw_zero" } else { "exit_draw_other" }, 1);
                                emit(true, &input, &format!("{} {} ok", leg_tok(ex, k), show_op(&after)), Some(oracle));
                            }
                            Err(e) => emit(true, &input, "none - PANIC", Some(Err(e))),
                        }
                    }
                }
            }
        }
    }
}

// ------------------------------------------------------------------------------------------
// start op / leg / side draw map
// ------------------------------------------------------------------------------------------

/// last word that `gen_range(0..n)` accepts and maps to `a` (the words above it, up to `crafted(a + 1, n) - 1`,
/// are outside the acceptance zone: rejected, another word is drawn)
fn last_accepted(a: usize, n: usize) -> u64 {
    let zone = ((n as u64) << (n as u64).leading_zeros()).wrapping_sub(1);
    ((((a as u128) << 64) + zone as u128) / n as u128) as u64
}

fn side_word(g: &mut SplitMix64) -> u64 {
    match g.below(3) {
        0 => g.next(),
        1 => 1u64 << 63,
        _ => (1u64 << 63) - 1,
    }
}

/// One loop update of the real code on `m0` (all ops diagonal on the all-false state, every weight 1, bond number =
/// index of the op) with the scripted words first. From the first call of the weight closure (exit leg (0, Inputs)):
/// (bond of the start op, entrance legs identified as (relative variable, is-output), words consumed before that call);
/// the log is cut there.
fn start_probe(m0: &FastOps, nvars: usize, sc: Vec<u64>, seed: u64) -> (Vec<u64>, Result<(usize, Vec<(usize, bool)>, usize), String>) {
    let h: Handle = Rc::new(RefCell::new(RecRng::scripted(sc, seed)));
    let mut rng = HRng(h.clone());
    let mut m = m0.clone();
    let mut state = vec![false; nvars];
    // (bond, inputs, outputs, words consumed so far) at the first call of the weight closure
    let first: RefCell<Option<(usize, Vec<bool>, Vec<bool>, usize)>> = RefCell::new(None);
    let h2 = h.clone();
    let r = catch(|| {
        m.make_loop_update_with_rng(
            None,
            |_v: &[usize], bond: usize, i: &[bool], o: &[bool]| {
                let mut f = first.borrow_mut();
                if f.is_none() {
                    *f = Some((bond, i.to_vec(), o.to_vec(), h2.borrow().log.len()));
                }
                1.0
            },
            &mut state,
            &mut rng,
        )
    });
    let f = first.borrow().clone();
    let log = h.borrow().log.clone();
    match (r, f) {
        (Ok(()), Some((bond, mut i, o, used))) => {
            // first call is exit leg (0, Inputs): arguments = all-false with entrance and (0,in) toggled
            i[0] = !i[0];
            let set: Vec<(usize, bool)> = i
                .iter()
                .enumerate()
                .filter(|(_, b)| **b)
                .map(|(r, _)| (r, false))
                .chain(o.iter().enumerate().filter(|(_, b)| **b).map(|(r, _)| (r, true)))
                .collect();
            (log[..used].to_vec(), Ok((bond, set, used)))
        }
        (r, _) => (log, Err(format!("loop update failed: {:?}", r.err()))),
    }
}

fn run_start(g: &mut SplitMix64, thorough: bool) {
    let ncfg = if thorough { 600 } else { 30 };
    for c in 0..ncfg {
        let nvars = (if c % 2 == 0 { g.range(3, 5) } else { g.range(1, 5) }) as usize;
        let kmax = nvars.min(3);
        let l = g.range(1, 12) as usize;
        // arity plan: 0 = a single op; 1 = one arity for the whole string; 2 = random arity per op;
        // 3.. = arities cycle 1,2,3 from a random offset (all arities present as soon as there are kmax ops)
        let plan = g.below(7);
        let (k1, off, only) = (g.range(1, kmax as i64) as usize, g.below(3) as usize, g.below(l as u64) as usize);
        // all-diagonal ops on the all-false state, each with its own bond number (identifies the op)
        let mut ops = vec![];
        for p in 0..l {
            if if plan == 0 { p == only } else { g.chance(2, 3) } {
                let k = match plan {
                    0 | 1 => k1,
                    2 => g.range(1, kmax as i64) as usize,
                    _ => 1 + (ops.len() + off) % kmax,
                };
                let vars = distinct_vars(g, nvars, k);
                ops.push((p, mk_op(&vars, ops.len(), &vec![false; k], &vec![false; k], false)));
            }
        }
        if ops.is_empty() {
            continue;
        }
        let arities: Vec<usize> = ops.iter().map(|o| o.1.get_vars().len()).collect();
        // the start draw is uniform over the slots 0..total: one slot per (op, relative variable), ops in chain order
        let total: usize = arities.iter().sum();
        let m0 = FastOps::new_from_ops(nvars, ops.clone());
        let slots = show_slots(&m0);
        let aset: String = (1..=3).filter(|k| arities.contains(k)).map(|k| k.to_string()).collect();
        stat(&format!("start_string_arities_{}", aset), 1);
        stat(&format!("start_string_ops_{}", match ops.len() { 1 => "1", 2..=3 => "2-3", 4..=7 => "4-7", _ => "ge8" }), 1);
        let mut scripts: Vec<Vec<u64>> = vec![];
        for _ in 0..(if thorough { 12 } else { 6 }) {
            scripts.push(vec![g.next(), g.next()]);
        }
        // boundaries of the uniform map, every slot (in particular the first and last slot of each op, where the
        // walk along the chain moves on to the next op): first word mapped to a, the word before it (maps to a-1 or is
        // rejected), last accepted word mapped to a
        for a in 0..total {
            scripts.push(vec![crafted(a, total), side_word(g)]);
            if a > 0 {
                scripts.push(vec![crafted(a, total) - 1, side_word(g)]);
            }
            scripts.push(vec![last_accepted(a, total), side_word(g)]);
        }
        for sc in scripts {
            let (log, r) = start_probe(&m0, nvars, sc, g.next());
            match r {
                Ok((bond, set, used)) => {
                    let pos = ops[bond].0;
                    let toks: Vec<String> = set.iter().map(|(r, o)| format!("{}{}", r, if *o { "o" } else { "i" })).collect();
                    let oracle = if set.len() == 1 { Ok(()) } else { Err(format!("cannot identify the entrance leg: {:?}", toks)) };
                    stat(&format!("start_words_{}", used), 1);
                    stat(&format!("start_on_arity_{}_of_{}", arities[bond], aset), 1);
                    emit(true, &format!("start {} {}", slots, words(&log)), &format!("{} {} ok", pos, toks.join("+")), Some(oracle));
                }
                Err(e) => {
                    emit(true, &format!("start {} {}", slots, words(&log)), "none - PANIC", Some(Err(e)));
                }
            }
        }
        // summary of the slot map: the first word mapped to each slot a (never rejected), side word 2^63 = Inputs.
        // Oracle: a |-> (position, relative variable) is a bijection onto the (occupied position, relative variable)
        // pairs of the string, in chain order (position, then relative variable, increasing in a).
        let want: Vec<(usize, usize)> = ops.iter().flat_map(|(p, o)| (0..o.get_vars().len()).map(move |r| (*p, r))).collect();
        let mut got: Vec<Option<(usize, usize)>> = vec![];
        let mut bad: Option<String> = None;
        for a in 0..total {
            let (_, r) = start_probe(&m0, nvars, vec![crafted(a, total), 1u64 << 63], g.next());
            got.push(match r {
                Ok((bond, set, used)) if set.len() == 1 => {
                    if set[0].1 && bad.is_none() {
                        bad = Some(format!("slot {}: side word 2^63 selected Outputs", a));
                    }
                    if used != 2 && bad.is_none() {
                        bad = Some(format!("slot {}: {} words consumed by the start, expected 2", a, used));
                    }
                    Some((ops[bond].0, set[0].0))
                }
                Ok((_, set, _)) => {
                    bad = bad.or(Some(format!("slot {}: cannot identify the entrance leg: {:?}", a, set)));
                    None
                }
                Err(e) => {
                    bad = bad.or(Some(format!("slot {}: {}", a, e)));
                    None
                }
            });
        }
        let show = |v: &[(usize, usize)]| v.iter().map(|(p, r)| format!("{}:{}", p, r)).collect::<Vec<_>>().join(",");
        if bad.is_none() {
            let sel: Vec<(usize, usize)> = got.iter().map(|x| x.unwrap()).collect();
            let mut sorted = sel.clone();
            sorted.sort();
            if sorted != want {
                bad = Some(format!("selected (position:relative variable) {} is not a bijection onto {}", show(&sel), show(&want)));
            } else if sel != want {
                bad = Some(format!("selected {} is not in chain order {}", show(&sel), show(&want)));
            }
        }
        let out = if got.is_empty() {
            "-".to_string()
        } else {
            got.iter().map(|x| x.map(|(p, r)| format!("{}:{}", p, r)).unwrap_or("none".into())).collect::<Vec<_>>().join(",")
        };
        let oracle = match bad {
            None => Ok(()),
            Some(e) => Err(format!("start slot map is not a chain-order bijection: {}", e)),
        };
        stat(&format!("startmap_total_{}", match total { 1 => "1", 2..=4 => "2-4", 5..=12 => "5-12", _ => "gt12" }), 1);
        emit(ops.len() > 1, &format!("startmap {} {}", slots, total), &out, Some(oracle));
    }
}

// ------------------------------------------------------------------------------------------
// F20 witness: with a symmetry-breaking term the cluster gate is closed and no other move turns a
// constant single-site operator off-diagonal. Fixed systems and RNG seeds (no --seed / --tier).
// ------------------------------------------------------------------------------------------

const NONERGODIC_SEEDS: [u64; 5] = [0xF20_0001, 0xF20_0002, 0xF20_0003, 0xF20_0004, 0xF20_0005];
const NONERGODIC_STEPS: usize = 500;

fn nonergodic_case(name: &str, nvars: usize, calls: &[Call]) {
    let (nseeds, nsteps) = (NONERGODIC_SEEDS.len(), NONERGODIC_STEPS);
    let input = format!("nonergodic {} {} {} {}", name, show_calls(calls), nseeds, nsteps);
    let beta = 1.0;
    // (gate, loop, max off-diagonal single-variable ops, sum of final n, off-diagonal multi-variable ops seen)
    let r = catch(|| {
        let (mut gate, mut lp) = (false, false);
        let (mut max_od, mut total_ops, mut multi_od) = (0usize, 0usize, 0usize);
        for seed in NONERGODIC_SEEDS {
            let state: Vec<bool> = (0..nvars).map(|v| (seed >> v) & 1 == 1).collect();
            let mut q = QS::new_with_state(nvars, SplitMix64::new(seed), state, true);
            for c in calls {
                apply_call(&mut q, c).unwrap();
            }
            q.set_do_loop_updates(true);
            gate = q.should_do_cluster_update();
            lp = q.should_do_loop_update();
            for _ in 0..nsteps {
                q.timestep(beta);
                let m = q.get_manager_ref();
                let mut od = 0;
                for p in 0..m.get_cutoff() {
                    if let Some(op) = m.get_pth(p) {
                        if op.get_inputs() != op.get_outputs() {
                            if op.get_vars().len() == 1 {
                                od += 1;
                            } else {
                                multi_od += 1;
                            }
                        }
                    }
                }
                max_od = max_od.max(od);
            }
            total_ops += q.get_manager_ref().get_n();
        }
        (gate, lp, max_od, total_ops, multi_od)
    });
    stat("nonergodic_system", 1);
    match r {
        Err(p) => emit(true, &input, "P", Some(Err(format!("sampler panicked: {}", p)))),
        Ok((gate, lp, max_od, total_ops, multi_od)) => {
            stat(&format!("nonergodic_{}_multi_site_offdiag_seen", name), multi_od);
            let oracle = if total_ops == 0 {
                Err("vacuous: no operators sampled".to_string())
            } else if max_od == 0 {
                Err(format!(
                    "[F20: no off-diagonal single-site operator in {} steps although Gamma > 0] system {} gate={} ops_seen={}",
                    nseeds * nsteps, name, gate as u8, total_ops
                ))
            } else {
                Ok(())
            };
            emit(true, &input, &format!("gate={} loop={} od={}", gate as u8, lp as u8, max_od), Some(oracle));
        }
    }
}

fn run_nonergodic() {
    let (g, h) = (1.0, 1.0);
    let field = |v: usize| Call { variant: 0, mat: vec![g; 4], vars: vec![v] };
    let bias = Call { variant: 2, mat: vec![0.0, 2.0 * h], vars: vec![0] };
    nonergodic_case("1spin", 1, &[field(0), bias.clone()]);
    let xc = Call { variant: 0, mat: exchange(0.0, 0.0, 0.5, 0.5, 0.0), vars: vec![0, 1] };
    nonergodic_case("2spin", 2, &[field(0), field(1), bias, xc]);
}

// ------------------------------------------------------------------------------------------
// heat-bath bond-weight table of the generic sampler on tables with >= 3 variables.
// `make_bond_weights` enumerates substates as `(substate >> v) & 1` (variable 0 = least significant bit)
// while `Interaction` tables use variable 0 as the most significant bit, so the unique maximum of a
// 3-variable table is put at each of the 8 table indices in turn. Oracle (real code only): every stored
// per-bond maximum equals the maximum over all 2^k substates of the diagonal entry recomputed from the
// user's matrix (and of `Interaction::at`), bond column = 0.., cumulative column = running sum.
// Everything about a case is determined by its input line (state all-false, heat bath switched on after
// the calls, fixed sampler RNG).
// ------------------------------------------------------------------------------------------

/// diagonal weights the sampler should hold for an accepted call, in `Interaction` table order
/// (first variable = most significant bit), recomputed from the user's matrix
fn diag_weights(c: &Call) -> Vec<f64> {
    let tn = 1usize << c.vars.len();
    let d: Vec<f64> = if c.variant >= 2 { c.mat.clone() } else { (0..tn).map(|i| c.mat[i * tn + i]).collect() };
    if c.variant == 1 || c.variant == 3 {
        let md = d.iter().cloned().fold(f64::MAX, f64::min);
        d.iter().map(|x| x - md).collect()
    } else {
        d
    }
}

/// 2^k eighths in [0, 6/8] with a unique maximum in [7/8, 2] at index `pos`
fn peaked_table(g: &mut SplitMix64, k: usize, pos: usize) -> Vec<f64> {
    let mut t: Vec<f64> = (0..1usize << k).map(|_| e8(g, 0, 6)).collect();
    t[pos] = e8(g, 7, 16);
    t
}

/// full matrix over `k` variables with the given diagonal and sparse off-diagonal entries
fn full_with_diag(g: &mut SplitMix64, k: usize, diag: &[f64]) -> Vec<f64> {
    let tn = 1usize << k;
    let mut m: Vec<f64> = (0..tn * tn).map(|_| if g.chance(1, 4) { e8(g, 1, 8) } else { 0.0 }).collect();
    for r in 0..tn {
        m[r * tn + r] = diag[r];
    }
    m
}

fn hbtable_case(nvars: usize, calls: &[Call], beta: f64) {
    let input = format!("hbtable {} {} {}", nvars, show_calls(calls), rat(beta));
    let mut q = QS::new_with_state(nvars, SplitMix64::new(7), vec![false; nvars], false);
    let accepted: Vec<&Call> = calls.iter().filter(|c| apply_call(&mut q, c).is_ok()).collect();
    q.set_do_heatbath(true);
    if let Err(p) = catch(|| q.diagonal_update(beta)) {
        emit(true, &input, "P", Some(Err(format!("diagonal_update panicked: {}", p))));
        return;
    }
    let big = accepted.iter().any(|c| c.vars.len() >= 3);
    let js = serde_json::to_value(&q).unwrap();
    let t = &js["bond_weights"];
    let oracle = (|| -> Result<(), String> {
        if t.is_null() {
            return Err("heat bath is on and a diagonal update ran, but no bond-weight table is stored".into());
        }
        let rows = t["max_weight_and_cumulative"].as_array().ok_or("bond_weights has no max_weight_and_cumulative array")?;
        let bond: Vec<u64> = rows.iter().map(|r| r[0].as_u64().unwrap_or(u64::MAX)).collect();
        let mx: Vec<f64> = rows.iter().map(|r| r[1].as_f64().unwrap_or(f64::NAN)).collect();
        let cum: Vec<f64> = rows.iter().map(|r| r[2].as_f64().unwrap_or(f64::NAN)).collect();
        // expected maxima from the user's matrices
        let want: Vec<f64> = accepted.iter().map(|c| diag_weights(c).into_iter().fold(0.0, f64::max)).collect();
        if q.get_bonds().len() != accepted.len() {
            return Err(format!("{} bonds stored for {} accepted calls", q.get_bonds().len(), accepted.len()));
        }
        if mx != want {
            let at = (0..want.len()).find(|i| mx.get(*i) != Some(&want[*i])).unwrap_or(want.len().min(mx.len()));
            return Err(format!(
                "stored per-bond maxima {} but the maxima of the diagonal entries over all substates are {} (first difference at bond {})",
                rats(&mx), rats(&want), at
            ));
        }
        // the same maxima through the sampler's own matrix elements (Interaction::at on every substate)
        for (b, c) in accepted.iter().enumerate() {
            let mut m = 0.0f64;
            for pat in patterns(c.vars.len()) {
                let w = q.get_bonds()[b].at(&pat, &pat).map_err(|e| format!("at() failed on bond {}: {}", b, e))?;
                m = m.max(w);
            }
            if m != mx[b] {
                return Err(format!("bond {}: stored maximum {} but max over substates of Interaction::at = {} (stored {})", b, rat(mx[b]), rat(m), rats(&mx)));
            }
        }
        if bond != (0..mx.len() as u64).collect::<Vec<_>>() {
            return Err(format!("bond column {:?} is not 0..{}", bond, mx.len()));
        }
        let mut run = 0.0;
        for (i, m) in mx.iter().enumerate() {
            run = if i == 0 { *m } else { m + run };
            if cum[i] != run {
                return Err(format!("cumulative column {} is not the running sum of the maxima {}", rats(&cum), rats(&mx)));
            }
        }
        Ok(())
    })();
    stat(&format!("hbtable_nbonds_{}", accepted.len()), 1);
    emit(big, &input, "-", Some(oracle));
}

fn run_hbtable(g: &mut SplitMix64, thorough: bool) {
    let n = if thorough { 480 } else { 64 };
    for s in 0..n {
        let pos = s % 8; // table index of the unique maximum of the main 3-variable term
        let kind = (s / 8) % 4;
        let want4 = g.chance(1, 4);
        let nvars = if want4 { g.range(4, 5) } else { g.range(3, 5) } as usize;
        let mut calls = vec![];
        // random 1-/2-variable terms
        for _ in 0..g.range(0, 3) {
            let k = g.range(1, 2) as usize;
            let vars = distinct_vars(g, nvars, k);
            let d: Vec<f64> = (0..1usize << k).map(|_| e8(g, 0, 16)).collect();
            match g.below(3) {
                0 => calls.push(Call { variant: 2, mat: d, vars }),
                1 => {
                    let sh = e8(g, -8, 8);
                    calls.push(Call { variant: 3, mat: d.iter().map(|x| x + sh).collect(), vars })
                }
                _ => {
                    let mat = full_with_diag(g, k, &d);
                    calls.push(Call { variant: 0, mat, vars })
                }
            }
        }
        // the main 3-variable term
        let vars = distinct_vars(g, nvars, 3);
        let d = peaked_table(g, 3, pos);
        let main = match kind {
            0 | 1 => Call { variant: 2, mat: d, vars },
            2 => {
                let sh = e8(g, -8, 8);
                Call { variant: 3, mat: d.iter().map(|x| x + sh).collect(), vars }
            }
            _ => {
                if g.coin() {
                    let mat = full_with_diag(g, 3, &d);
                    Call { variant: 0, mat, vars }
                } else {
                    let sh = e8(g, -8, 8);
                    let ds: Vec<f64> = d.iter().map(|x| x + sh).collect();
                    let mat = full_with_diag(g, 3, &ds);
                    Call { variant: 1, mat, vars }
                }
            }
        };
        stat(&format!("hbtable_main3_{}_peak_at_{}", vname(main.variant), pos), 1);
        let at = g.below(calls.len() as u64 + 1) as usize;
        calls.insert(at, main);
        // sometimes a second large diagonal table (3 or 4 variables), maximum anywhere
        if want4 || g.chance(1, 3) {
            let k = if want4 { 4 } else { 3 };
            let vars = distinct_vars(g, nvars, k);
            let p2 = g.below(1u64 << k) as usize;
            let d = peaked_table(g, k, p2);
            stat(&format!("hbtable_second_arity_{}", k), 1);
            let at = g.below(calls.len() as u64 + 1) as usize;
            calls.insert(at, Call { variant: 2, mat: d, vars });
        }
        let beta = *g.pick(&[0.25, 0.5, 1.0, 2.0]);
        hbtable_case(nvars, &calls, beta);
    }
}

// ------------------------------------------------------------------------------------------
// cutoff bookkeeping under the public calls `timestep`, `increase_cutoff_to`, `set_cutoff`. The sampler's cutoff is
// the M of the diagonal update (sweep range 0..M, acceptance factors M - n); `increase_cutoff_to(c)` is documented
// as a no-op for c below the current cutoff. One case per scenario (sampler + op sequence); oracle (real code only)
// after every op, first failure wins. `set_cutoff` is only ever called with c >= get_cutoff().
// ------------------------------------------------------------------------------------------

#[derive(Clone, Copy, Debug)]
enum CutOp {
    Step,
    Inc(usize),
    Set(usize),
}
fn show_cutop(o: CutOp) -> String {
    match o {
        CutOp::Step => "s".into(),
        CutOp::Inc(c) => format!("i{}", c),
        CutOp::Set(c) => format!("c{}", c),
    }
}

/// next op of a random scenario: `lead` steps first (the cutoff has grown before the first call), the last two ops
/// are steps (steps follow the calls); calls relative to the current cutoff / n of the sampler
fn draw_cutop(g: &mut SplitMix64, q: &Q, i: usize, nops: usize, lead: usize) -> CutOp {
    if i < lead || i + 2 >= nops || g.chance(1, 2) {
        return CutOp::Step;
    }
    let (cut, n) = (q.get_cutoff(), q.get_n());
    if g.chance(1, 5) {
        return CutOp::Set(cut + g.range(0, 10) as usize);
    }
    match g.below(6) {
        0..=2 => CutOp::Inc(match g.below(5) {
            0 => 0,
            1 => 1,
            2 => cut.saturating_sub(1),
            3 if n > 0 => g.below(n as u64) as usize,
            _ => g.below(cut.max(1) as u64) as usize,
        }),
        3 => CutOp::Inc(cut),
        _ => CutOp::Inc(cut + g.range(1, 10) as usize),
    }
}

/// the ops of a string without the `L<container length>:` prefix
fn ops_part(slots: &str) -> &str {
    &slots[slots.find(':').map(|i| i + 1).unwrap_or(0)..]
}

/// returns false when no scenario was run (no term accepted)
fn cutoff_case(g: &mut SplitMix64, nvars: usize, calls: &[Call], beta: f64, do_loop: bool, hb: bool, fixed: Option<Vec<CutOp>>) -> bool {
    let (mut q, _h) = build(g, nvars, calls, do_loop, hb);
    if q.get_bonds().is_empty() {
        return false;
    }
    expect_bonds(nvars, calls);
    let (cut0, len0) = (q.get_cutoff(), q.get_manager_ref().get_cutoff());
    let nops = fixed.as_ref().map(|f| f.len()).unwrap_or_else(|| g.range(25, 40) as usize);
    let lead = *g.pick(&[0usize, 1, 3, 5, 8, 10, 12, 15]);
    let (mut ops, mut cuts, mut lens, mut ns): (Vec<String>, Vec<usize>, Vec<usize>, Vec<usize>) = (vec![], vec![], vec![], vec![]);
    let mut fail: Option<String> = None;
    let mut at = String::new(); // what is running (named when it panics)
    let (mut called, mut lowered, mut steps_after) = (false, false, 0usize);
    // the model's rules (statistics only, never part of the oracle): (cutoff, container length) recomputed from
    // cut0, len0, the ops and n after each op
    let (mut mc, mut ml, mut rule_diff) = (cut0, len0, None::<String>);
    let r = catch(|| {
        for i in 0..nops {
            let op = match &fixed {
                Some(f) => f[i],
                None => draw_cutop(g, &q, i, nops, lead),
            };
            at = format!("op {} ({})", i, show_cutop(op));
            let (pc, pl, pn) = (q.get_cutoff(), q.get_manager_ref().get_cutoff(), q.get_n());
            let before = (q.state_ref().to_vec(), show_slots(q.get_manager_ref()));
            match op {
                CutOp::Step => {
                    q.timestep(beta);
                }
                CutOp::Inc(c) => q.increase_cutoff_to(c),
                CutOp::Set(c) => q.set_cutoff(c),
            }
            let (c1, l1, n1) = (q.get_cutoff(), q.get_manager_ref().get_cutoff(), q.get_n());
            ops.push(show_cutop(op));
            cuts.push(c1);
            lens.push(l1);
            ns.push(n1);
            let verdict: Result<(), String> = match op {
                CutOp::Step => {
                    stat(if lowered { "cutoff_steps_after_lowering_call" } else { "cutoff_steps_before_lowering_call" }, 1);
                    steps_after += lowered as usize;
                    if c1 > pc {
                        stat("cutoff_steps_growing_the_cutoff", 1);
                    }
                    ml = ml.max(mc);
                    mc = mc.max(n1 + n1 / 2 + 1);
                    let m = q.get_manager_ref();
                    let last = (0..l1).rev().find(|p| m.get_pth(*p).is_some());
                    if let Err(e) = legal_and_consistent(&q) {
                        Err(e)
                    } else if c1 < pc {
                        Err(format!("a time step lowered get_cutoff() from {} to {}", pc, c1))
                    } else if c1 < n1 + n1 / 2 + 1 {
                        Err(format!("get_cutoff() = {} after the step but n + n/2 + 1 = {}", c1, n1 + n1 / 2 + 1))
                    } else if last.map(|p| p >= c1).unwrap_or(false) {
                        Err(format!("an operator sits at p = {} but get_cutoff() = {} (positions >= cutoff are never swept)", last.unwrap(), c1))
                    } else {
                        Ok(())
                    }
                }
                CutOp::Inc(c) | CutOp::Set(c) => {
                    let inc = matches!(op, CutOp::Inc(_));
                    if !called {
                        called = true;
                        stat(if pc > cut0 { "cutoff_first_call_after_growth" } else { "cutoff_first_call_before_growth" }, 1);
                    }
                    if inc {
                        stat(if c < pc { "cutoff_call_below" } else if c == pc { "cutoff_call_equal" } else { "cutoff_call_above" }, 1);
                        if c < pc {
                            if n1 > 0 && c <= n1 {
                                stat("cutoff_call_below_not_above_n", 1);
                            }
                            lowered = true;
                        }
                        mc = mc.max(c);
                    } else {
                        stat("cutoff_setcutoff", 1);
                        mc = c;
                    }
                    ml = ml.max(mc);
                    let want = if inc { pc.max(c) } else { c };
                    if c1 != want {
                        Err(if inc {
                            format!("increase_cutoff_to({}) left get_cutoff() = {} but max(previous {}, {}) = {}", c, c1, pc, c, want)
                        } else {
                            format!("set_cutoff({}) left get_cutoff() = {}", c, c1)
                        })
                    } else if l1 < c1 {
                        Err(format!("container length {} < get_cutoff() = {} after the call", l1, c1))
                    } else if inc && n1 > c1 {
                        Err(format!("n = {} > get_cutoff() = {} after the call", n1, c1))
                    } else if n1 != pn || q.state_ref() != &before.0[..] || ops_part(&show_slots(q.get_manager_ref())) != ops_part(&before.1) {
                        Err("the call changed the state / the operator string / n".into())
                    } else {
                        Ok(())
                    }
                }
            };
            if rule_diff.is_none() && (mc, ml) != (c1, l1) {
                rule_diff = Some(format!("{}: rules give cutoff {} length {}, observed cutoff {} length {}", at, mc, ml, c1, l1));
            }
            if let (None, Err(e)) = (&fail, verdict) {
                fail = Some(format!("{}: get_cutoff() {} -> {}, container length {} -> {}, n {} -> {}: {}", at, pc, c1, pl, l1, pn, n1, e));
            }
        }
        at = format!("one more diagonal_update on a clone after the last op (op {})", nops - 1);
        let (mut c, _) = deep_clone(&q);
        c.diagonal_update(beta);
    });
    let input = format!(
        "cutoff {} {} {} {}{} {} {} {} {}",
        nvars, show_calls(calls), rat(beta), do_loop as u8, hb as u8, cut0, len0, list(&ops), list(&ns)
    );
    let out = match &r {
        Ok(()) => format!("{} {}", list(&cuts), list(&lens)),
        Err(_) => "PANIC".to_string(),
    };
    if let Err(p) = r {
        // (the lists of the input hold the ops completed before the panic)
        let e = format!("panic in {} after {} completed ops: {}", at, ops.len(), p);
        fail = Some(match fail {
            Some(f) => format!("{}; then {}", f, e),
            None => e,
        });
    }
    stat(if rule_diff.is_none() { "cutoff_model_rules_hold" } else { "cutoff_model_rules_differ" }, 1);
    if let Some(d) = rule_diff {
        eprintln!("cutoff rules differ: {} || {}", input, d);
    }
    stat(&format!("cutoff_final_{}", match cuts.last().copied().unwrap_or(cut0) { 0..=10 => "le10", 11..=30 => "11-30", 31..=60 => "31-60", 61..=120 => "61-120", _ => "gt120" }), 1);
    stat(&format!("cutoff_final_n_{}", match ns.last().copied().unwrap_or(0) { 0 => "0", 1..=10 => "1-10", 11..=30 => "11-30", _ => "gt30" }), 1);
    emit(steps_after > 0, &input, &out, Some(match fail { None => Ok(()), Some(e) => Err(e) }));
    true
}

fn run_cutoff(g: &mut SplitMix64, thorough: bool) {
    let nscen = if thorough { 640 } else { 64 };
    for s in 0..nscen {
        let fam = [0u64, 1, 2, 3, 4, 5][s % 6];
        let (nvars, calls) = gen_system(g, fam);
        let beta = *g.pick(&[0.5, 1.0, 2.0, 4.0]);
        let (do_loop, hb) = (g.coin(), g.coin());
        if cutoff_case(g, nvars, &calls, beta, do_loop, hb, None) {
            stat("cutoff_scenarios", 1);
            stat(&format!("cutoff_family_{}", fam), 1);
        }
    }
    // fixed scenarios at beta = 4 (the cutoff grows well above nvars): (a) 20 steps, increase_cutoff_to(1),
    // increase_cutoff_to(nvars), 10 steps; (b) a driver keeping a floor nvars + 2 on the cutoff before every step.
    // Systems: the F22 witnesses (families 4, 5), the fixed cluster system 7, J zz - Gamma (x_0 + x_1) with offset.
    let field = |v: usize| Call { variant: 0, mat: vec![1.0; 4], vars: vec![v] };
    let tfim = vec![Call { variant: 3, mat: vec![-1.0, 1.0, 1.0, -1.0], vars: vec![0, 1] }, field(0), field(1)];
    let systems: [(usize, Vec<Call>, bool, bool); 4] = [
        { let (n, c) = gen_system(g, 4); (n, c, true, false) },
        { let (n, c) = gen_system(g, 5); (n, c, true, true) },
        { let (n, c) = gen_system(g, 7); (n, c, false, false) },
        (2, tfim, false, false),
    ];
    for (nvars, calls, do_loop, hb) in systems.iter() {
        let mut recipe = vec![CutOp::Step; 20];
        recipe.extend([CutOp::Inc(1), CutOp::Inc(*nvars)]);
        recipe.extend(vec![CutOp::Step; 10]);
        let floor: Vec<CutOp> = (0..40).map(|i| if i % 2 == 0 { CutOp::Inc(nvars + 2) } else { CutOp::Step }).collect();
        for plan in [recipe, floor] {
            stat("cutoff_fixed_scenarios", 1);
            cutoff_case(g, *nvars, calls, 4.0, *do_loop, *hb, Some(plan));
        }
    }
}

fn main() {
    quiet_panics();
    let a = args();
    let mut g = SplitMix64::new(a.seed ^ 0xC04);
    let all = a.mode == "all";
    if all || a.mode == "traj" {
        run_traj(&mut g, a.thorough);
    }
    if all || a.mode == "gate" {
        run_gate(&mut g, a.thorough);
    }
    if all || a.mode == "exit" {
        run_exit(&mut g, a.thorough);
    }
    if all || a.mode == "start" {
        run_start(&mut g, a.thorough);
    }
    if all || a.mode == "nonergodic" {
        run_nonergodic();
    }
    if all || a.mode == "hbtable" {
        run_hbtable(&mut g, a.thorough);
    }
    if all || a.mode == "cutoff" {
        run_cutoff(&mut g, a.thorough);
    }
}
