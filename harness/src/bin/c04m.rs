//! C04 (mode `measure`) — the default measuring methods of `QmcStepper` (`timesteps`, `timesteps_sample`,
//! `timesteps_measure`) on the GENERIC sampler `DefaultQmc`, on Hamiltonians with non-zero offsets and a
//! small mean expansion order, so that total_n / #measured is typically fractional.
//!
//! Per case: build a sampler, warm it up, clone it (same RNG future), call one default method on the
//! original and run the documented behaviour by hand on the clone (`timestep` t times, record `get_n()`
//! and the state after every f-th step).  Oracle (real code only): the returned energy equals
//! `-(sum of recorded n / #recorded)/beta + offset` (NaN iff nothing was recorded), the returned samples
//! are the recorded states, the fold ran once per recorded step, original and clone end in the same state.
//!
//! CASE line:
//!   input : measure <kind> <t> <freq|none> <beta> <offset> <nseq> <setup@calls>
//!   output: <count|-> <~energy|nan>          (`panic` for sampling frequency Some(0) with t > 0)
//! kind = steps | sample | measure; nseq = `get_n()` after each of the t steps of the manual loop;
//! the last input token (`nv..,lp..,hb..,wu..,rng..,st..@calls`) only serves replayability.

use qmc::sse::*;
use vh::*;

type QS = DefaultQmc<SplitMix64>;

// ------------------------------------------------------------------------------------------
// interaction sets (same call encoding as c04.rs)
// ------------------------------------------------------------------------------------------

#[derive(Clone, Debug)]
struct Call {
    variant: u8, // 0 new, 1 new_off, 2 diag, 3 diag_off
    mat: Vec<f64>,
    vars: Vec<usize>,
}
fn vname(v: u8) -> &'static str {
    ["new", "new_off", "diag", "diag_off"][v as usize]
}
fn show_calls(calls: &[Call]) -> String {
    if calls.is_empty() {
        return "-".into();
    }
    calls
        .iter()
        .map(|c| format!("{}:{}:{}", vname(c.variant), rats(&c.mat), list(&c.vars)))
        .collect::<Vec<_>>()
        .join("!")
}
fn apply_call<R: rand::Rng>(q: &mut DefaultQmc<R>, c: &Call) -> Result<(), String> {
    match c.variant {
        0 => q.make_interaction(c.mat.clone(), c.vars.clone()),
        1 => q.make_interaction_and_offset(c.mat.clone(), c.vars.clone()),
        2 => q.make_diagonal_interaction(c.mat.clone(), c.vars.clone()),
        _ => q.make_diagonal_interaction_and_offset(c.mat.clone(), c.vars.clone()),
    }
}

/// two-site exchange-type matrix: diagonal (a00, b, b, a11), exchange c (01<->10), pair flip p (00<->11)
fn exchange(a00: f64, a11: f64, b: f64, c: f64, p: f64) -> Vec<f64> {
    let mut m = vec![0.0; 16];
    m[0b0000] = a00;
    m[0b1111] = a11;
    m[0b0101] = b;
    m[0b1010] = b;
    m[0b0110] = c;
    m[0b1001] = c;
    m[0b0011] = p;
    m[0b1100] = p;
    m
}

fn distinct_vars(g: &mut SplitMix64, nvars: usize, k: usize) -> Vec<usize> {
    let mut pool: Vec<usize> = (0..nvars).collect();
    let mut out = vec![];
    for _ in 0..k {
        let i = g.below(pool.len() as u64) as usize;
        out.push(pool.remove(i));
    }
    out
}

/// eighths in [lo/8, hi/8]
fn e8(g: &mut SplitMix64, lo: i64, hi: i64) -> f64 {
    g.range(lo, hi) as f64 / 8.0
}

/// a diagonal shift (eighths in [lo/8, hi/8]) such that the minimum of `diag + shift` is not zero
/// (so that the `_and_offset` constructor records a non-zero offset)
fn shift_nonzero_min(g: &mut SplitMix64, diag: &[f64], lo: i64, hi: i64) -> f64 {
    let md = diag.iter().cloned().fold(f64::MAX, f64::min);
    let mut sh = e8(g, lo, hi);
    if md + sh == 0.0 {
        sh += 0.125;
    }
    sh
}

struct Sys {
    nvars: usize,
    calls: Vec<Call>,
    do_loop: bool,
    hb: bool,
}

const NFIXED: usize = 6;

/// fixed systems (no random choice), all with a non-zero recorded offset
fn fixed_system(i: usize) -> Sys {
    let c = |variant: u8, mat: Vec<f64>, vars: Vec<usize>| Call { variant, mat, vars };
    match i {
        // one spin: diagonal table with minimum 3/8 (offset -3/8) + constant field
        0 => Sys {
            nvars: 1,
            calls: vec![c(3, vec![0.375, 0.875], vec![0]), c(0, vec![0.5; 4], vec![0])],
            do_loop: false,
            hb: false,
        },
        // two spins: exchange term given with a negative diagonal (minimum -3/4, offset +3/4) + plain one-site table
        1 => Sys {
            nvars: 2,
            calls: vec![c(1, exchange(-0.5, -0.5, -0.75, 0.5, 0.0), vec![0, 1]), c(2, vec![0.25, 0.375], vec![1])],
            do_loop: true,
            hb: false,
        },
        // three spins, two exchange bonds (the system of the C04-6 demo: delta = 1/2, d = 1; offset +1)
        2 => Sys {
            nvars: 3,
            calls: vec![
                c(1, exchange(0.5, 0.5, -0.5, 1.0, 0.0), vec![0, 1]),
                c(1, exchange(0.5, 0.5, -0.5, 1.0, 0.0), vec![1, 2]),
            ],
            do_loop: true,
            hb: false,
        },
        // two spins: Ising-symmetric diagonal term (minimum 5/8, offset -5/8) + constant fields: cluster updates
        3 => Sys {
            nvars: 2,
            calls: vec![
                c(3, vec![1.125, 0.625, 0.625, 1.125], vec![0, 1]),
                c(0, vec![0.25; 4], vec![0]),
                c(0, vec![0.25; 4], vec![1]),
            ],
            do_loop: false,
            hb: false,
        },
        // four spins, five terms, offset and plain constructors mixed (offset -3/8 + 1/4 = -1/8), heat bath
        4 => Sys {
            nvars: 4,
            calls: vec![
                c(1, exchange(0.625, 0.625, 0.375, 0.5, 0.0), vec![0, 1]),
                c(2, vec![0.5, 0.125, 0.125, 0.5], vec![1, 2]),
                c(3, vec![-0.25, 0.25, 0.25, -0.25], vec![2, 3]),
                c(0, vec![0.375, 0.25, 0.25, 0.375], vec![3]),
                c(0, vec![0.125; 4], vec![0]),
            ],
            do_loop: true,
            hb: true,
        },
        // three spins: three-variable diagonal table with minimum 5/8 (offset -5/8) + exchange + one-site table
        _ => Sys {
            nvars: 3,
            calls: vec![
                c(3, vec![0.625, 1.0, 0.75, 1.25, 0.875, 0.75, 1.125, 0.625], vec![2, 0, 1]),
                c(0, exchange(0.25, 0.25, 0.75, 0.5, 0.0), vec![0, 1]),
                c(2, vec![0.5, 0.125], vec![1]),
            ],
            do_loop: true,
            hb: false,
        },
    }
}

/// random systems: 1-4 spins, 1-5 terms, `_and_offset` constructors (non-zero minimal diagonal) mixed with plain ones
fn gen_system(g: &mut SplitMix64, fam: u64) -> Sys {
    let mut calls = vec![];
    let (nvars, do_loop) = match fam {
        // two-site exchange-type terms on a chain / ring, mostly given with a shifted diagonal
        0 => {
            let nvars = g.range(2, 4) as usize;
            let ring = nvars > 2 && g.coin();
            let nb = if ring { nvars } else { nvars - 1 };
            for i in 0..nb {
                let (a, b, c) = (e8(g, 0, 6), e8(g, 0, 6), e8(g, 1, 6));
                let p = if g.chance(1, 4) { e8(g, 1, 4) } else { 0.0 };
                let a11 = if g.chance(1, 4) { e8(g, 0, 6) } else { a };
                let vars = vec![i, (i + 1) % nvars];
                if i == 0 || g.chance(2, 3) {
                    let sh = shift_nonzero_min(g, &[a, a11, b], -16, 8);
                    calls.push(Call { variant: 1, mat: exchange(a + sh, a11 + sh, b + sh, c, p), vars });
                } else {
                    calls.push(Call { variant: 0, mat: exchange(a, a11, b, c, p), vars });
                }
            }
            if g.chance(1, 3) {
                // a one-site diagonal table with offset
                let d = [e8(g, 0, 6), e8(g, 0, 6)];
                let sh = shift_nonzero_min(g, &d, -8, 8);
                calls.push(Call { variant: 3, mat: vec![d[0] + sh, d[1] + sh], vars: vec![g.below(nvars as u64) as usize] });
            }
            (nvars, true)
        }
        // Ising-symmetric diagonal terms + constant single-site terms (cluster updates)
        1 => {
            let nvars = g.range(1, 4) as usize;
            if nvars == 1 {
                let a = e8(g, 0, 8);
                let sh = shift_nonzero_min(g, &[a], -8, 8);
                calls.push(Call { variant: 3, mat: vec![a + sh, a + sh], vars: vec![0] });
            } else {
                let ring = nvars > 2 && g.chance(1, 3);
                let nb = if ring { nvars } else { nvars - 1 };
                for i in 0..nb {
                    let (a, b) = (e8(g, 0, 8), e8(g, 0, 8));
                    let vars = vec![i, (i + 1) % nvars];
                    if i == 0 || g.chance(2, 3) {
                        let sh = shift_nonzero_min(g, &[a, b], -8, 8);
                        calls.push(Call { variant: 3, mat: vec![a + sh, b + sh, b + sh, a + sh], vars });
                    } else {
                        calls.push(Call { variant: 2, mat: vec![a, b, b, a], vars });
                    }
                }
            }
            for v in 0..nvars {
                if calls.len() < 5 && (v == 0 || g.chance(2, 3)) {
                    let gm = e8(g, 1, 6);
                    calls.push(Call { variant: 0, mat: vec![gm; 4], vars: vec![v] });
                }
            }
            (nvars, g.chance(1, 3))
        }
        // mixed arities (1, 2, sometimes 3 variables), general non-negative entries
        _ => {
            let nvars = g.range(1, 4) as usize;
            let nterms = g.range(1, 5);
            for t in 0..nterms {
                let kmax = nvars.min(if g.chance(1, 4) { 3 } else { 2 });
                let k = g.range(1, kmax as i64) as usize;
                let vars = distinct_vars(g, nvars, k);
                let off = t == 0 || g.coin();
                let tn = 1usize << k;
                if k == 3 || g.chance(1, 2) {
                    // diagonal table
                    let d: Vec<f64> = (0..tn).map(|_| e8(g, 0, 6)).collect();
                    let sh = if off { shift_nonzero_min(g, &d, -8, 6) } else { 0.0 };
                    calls.push(Call { variant: if off { 3 } else { 2 }, mat: d.iter().map(|x| x + sh).collect(), vars });
                } else {
                    let mut mat: Vec<f64> = (0..tn * tn).map(|_| if g.chance(1, 2) { e8(g, 1, 6) } else { 0.0 }).collect();
                    let d: Vec<f64> = (0..tn).map(|_| if g.chance(2, 3) { e8(g, 1, 6) } else { 0.0 }).collect();
                    let sh = if off { shift_nonzero_min(g, &d, -8, 4) } else { 0.0 };
                    for r in 0..tn {
                        mat[r * tn + r] = d[r] + sh;
                    }
                    calls.push(Call { variant: if off { 1 } else { 0 }, mat, vars });
                }
            }
            (nvars, g.chance(3, 4))
        }
    };
    calls.truncate(5);
    // most systems get a plain term with weight in every state (where all shifted diagonals vanish no operator
    // can be inserted and the string stays empty: n = 0 throughout, the average is trivially an integer)
    if g.chance(3, 4) {
        if calls.len() == 5 {
            calls.pop();
        }
        let v = g.below(nvars as u64) as usize;
        if fam == 1 || g.coin() {
            let gm = e8(g, 1, 8);
            calls.push(Call { variant: 0, mat: vec![gm; 4], vars: vec![v] });
        } else {
            calls.push(Call { variant: 2, mat: vec![e8(g, 1, 8), e8(g, 1, 8)], vars: vec![v] });
        }
    }
    Sys { nvars, calls, do_loop, hb: g.chance(1, 3) }
}

// ------------------------------------------------------------------------------------------
// one case
// ------------------------------------------------------------------------------------------

#[derive(Clone, Copy, PartialEq, Eq, Debug)]
enum Kind {
    Steps,
    Sample,
    MeasureCount,
    MeasureStates,
}
impl Kind {
    fn tok(self) -> &'static str {
        match self {
            Kind::Steps => "steps",
            Kind::Sample => "sample",
            Kind::MeasureCount | Kind::MeasureStates => "measure",
        }
    }
}

fn etok(x: f64) -> String {
    if x.is_nan() {
        "nan".into()
    } else {
        format!("~{:.15e}", x)
    }
}

/// both NaN, or equal to 1e-12 relative
fn same_energy(a: f64, b: f64) -> bool {
    if a.is_nan() || b.is_nan() {
        return a.is_nan() && b.is_nan();
    }
    (a - b).abs() <= 1e-12 * 1f64.max(a.abs()).max(b.abs())
}

fn freq_tok(f: Option<usize>) -> String {
    match f {
        None => "none".into(),
        Some(x) => x.to_string(),
    }
}

struct Setup<'a> {
    sys: &'a Sys,
    state: Vec<bool>,
    rng_seed: u64,
    warm: usize,
}

fn build(s: &Setup) -> QS {
    let mut q = QS::new_with_state(s.sys.nvars, SplitMix64::new(s.rng_seed), s.state.clone(), s.sys.do_loop);
    for c in &s.sys.calls {
        let _ = apply_call(&mut q, c);
    }
    q.set_do_loop_updates(s.sys.do_loop);
    q.set_do_heatbath(s.sys.hb);
    q
}

fn measure_case(s: &Setup, kind: Kind, t: usize, freq: Option<usize>, beta: f64) {
    let setup_tok = format!(
        "nv{},lp{},hb{},wu{},rng{},st{}@{}",
        s.sys.nvars,
        s.sys.do_loop as u8,
        s.sys.hb as u8,
        s.warm,
        s.rng_seed,
        bits(&s.state),
        show_calls(&s.sys.calls)
    );
    let freq = if kind == Kind::Steps { None } else { freq };
    let head = |offset: f64, nseq: &[usize]| {
        format!("measure {} {} {} {} {} {} {}", kind.tok(), t, freq_tok(freq), rat(beta), rat(offset), list(nseq), setup_tok)
    };
    let prep = catch(|| {
        let mut q = build(s);
        for _ in 0..s.warm {
            q.timestep(beta);
        }
        let c = q.clone();
        (q, c)
    });
    let (mut q, mut c) = match prep {
        Ok(x) => x,
        Err(p) => {
            emit(t > 0, &head(f64::NAN, &[]), "P", Some(Err(format!("sampler panicked while building / warming up: {}", p))));
            return;
        }
    };
    let offset = q.get_offset();
    stat(&format!("measure_kind_{}", kind.tok()), 1);
    stat(&format!("measure_t_{}", t), 1);
    stat(&format!("measure_freq_{}", freq_tok(freq)), 1);
    stat(if offset != 0.0 { "measure_offset_nonzero" } else { "measure_offset_zero" }, 1);

    // sampling frequency Some(0) with t > 0: remainder (or, for `timesteps_sample`, division) by zero
    if freq == Some(0) {
        let r = catch(|| match kind {
            Kind::Sample => {
                let (v, e) = q.timesteps_sample(t, beta, freq);
                (v.len(), e)
            }
            _ => q.timesteps_measure(t, beta, 0usize, |acc, _s| acc + 1, freq),
        });
        stat("measure_freq_zero_panic_case", 1);
        match r {
            Err(_) => emit(t > 0, &head(offset, &[]), "panic", None),
            Ok((cnt, e)) => emit(t > 0, &head(offset, &[]), &format!("{} {}", cnt, etok(e)), None),
        }
        return;
    }

    // the default method on the original
    let r = catch(|| match kind {
        Kind::Steps => (None, None, q.timesteps(t, beta)),
        Kind::Sample => {
            let (v, e) = q.timesteps_sample(t, beta, freq);
            (Some(v.len()), Some(v), e)
        }
        Kind::MeasureCount => {
            let (n, e) = q.timesteps_measure(t, beta, 0usize, |acc, _state| acc + 1, freq);
            (Some(n), None, e)
        }
        Kind::MeasureStates => {
            let (v, e) = q.timesteps_measure(
                t,
                beta,
                Vec::<Vec<bool>>::new(),
                |mut acc, state| {
                    acc.push(state.to_vec());
                    acc
                },
                freq,
            );
            (Some(v.len()), Some(v), e)
        }
    });

    // the documented behaviour by hand on the clone
    let f = freq.unwrap_or(1);
    let manual = catch(|| {
        let mut nseq = vec![];
        let mut rec_n: Vec<usize> = vec![];
        let mut rec_states: Vec<Vec<bool>> = vec![];
        for k in 0..t {
            c.timestep(beta);
            nseq.push(c.get_n());
            if (k + 1) % f == 0 {
                rec_n.push(c.get_n());
                rec_states.push(c.state_ref().to_vec());
            }
        }
        (nseq, rec_n, rec_states)
    });
    let (nseq, rec_n, rec_states) = match manual {
        Ok(x) => x,
        Err(p) => {
            emit(t > 0, &head(offset, &[]), "P", Some(Err(format!("timestep panicked in the manual loop: {}", p))));
            return;
        }
    };
    let input = head(offset, &nseq);
    let (count, states, energy) = match r {
        Ok(x) => x,
        Err(p) => {
            emit(t > 0, &input, "P", Some(Err(format!("{} panicked: {}", kind.tok(), p))));
            return;
        }
    };

    let total_n: usize = rec_n.iter().sum();
    let recorded = rec_n.len();
    let avg = total_n as f64 / recorded as f64; // NaN when nothing was recorded
    let expected = -(avg / beta) + offset;
    let via_getter = c.get_energy_for_average_n(avg, beta);
    let offset_via_energy = c.get_energy_for_average_n(0.0, beta);

    if recorded == 0 {
        stat("measure_nothing_measured", 1);
    } else if total_n % recorded != 0 {
        stat("measure_fractional_avg", 1);
    } else {
        stat("measure_integer_avg", 1);
    }
    if nseq.windows(2).any(|w| w[0] != w[1]) {
        stat("measure_n_varies", 1);
    }

    let numbers = format!(
        "expected energy {} (= -(total_n/recorded)/beta + offset), returned energy {}, total_n={} recorded={} beta={} offset={}",
        expected, energy, total_n, recorded, beta, offset
    );
    let oracle = (|| -> Result<(), String> {
        if offset_via_energy != offset {
            return Err(format!("get_energy_for_average_n(0, beta) = {} but get_offset() = {}", offset_via_energy, offset));
        }
        if !same_energy(energy, expected) {
            return Err(format!("returned energy is not -<n>/beta + offset over the measured steps: {}", numbers));
        }
        if !same_energy(energy, via_getter) {
            return Err(format!(
                "returned energy differs from get_energy_for_average_n(total_n/recorded, beta) = {}: {}",
                via_getter, numbers
            ));
        }
        if let Some(cnt) = count {
            if cnt != recorded {
                return Err(format!(
                    "{} steps folded / sampled but every {}-th of {} steps is {} steps: {}",
                    cnt, f, t, recorded, numbers
                ));
            }
        }
        if let Some(v) = &states {
            if *v != rec_states {
                return Err(format!("returned states differ from the states after every {}-th step (same length, other content / order): {}", f, numbers));
            }
        }
        if q.state_ref() != c.state_ref() || q.get_n() != c.get_n() {
            return Err(format!(
                "after the call the sampler is not where {} single timesteps lead: state {} n={} vs state {} n={}: {}",
                t, bits(q.state_ref()), q.get_n(), bits(c.state_ref()), c.get_n(), numbers
            ));
        }
        if show_slots(q.get_manager_ref()) != show_slots(c.get_manager_ref()) {
            return Err(format!("after the call the operator string differs from the one {} single timesteps lead to: {}", t, numbers));
        }
        Ok(())
    })();
    let count_tok = match count {
        None => "-".to_string(),
        Some(n) => n.to_string(),
    };
    emit(t > 0, &input, &format!("{} {}", count_tok, etok(energy)), Some(oracle));
}

// ------------------------------------------------------------------------------------------
// generation
// ------------------------------------------------------------------------------------------

const TS: [usize; 9] = [0, 1, 2, 3, 5, 7, 10, 16, 25];
const FS: [Option<usize>; 6] = [None, Some(1), Some(2), Some(3), Some(4), Some(7)];
const BETAS: [f64; 5] = [0.125, 0.25, 0.5, 1.0, 2.0];

fn run_measure(g: &mut SplitMix64, thorough: bool) {
    // 1. fixed systems, fixed sampler seeds: every (t, freq) pair with sample / measure (both folds) in turn,
    //    and every t with `timesteps`.  Quick: the pairs are dealt round the six systems; thorough: all pairs on each.
    let reps = if thorough { NFIXED } else { 1 };
    for rep in 0..reps {
        let mut idx = 0usize;
        for (ti, t) in TS.iter().enumerate() {
            for fi in 0..FS.len() + 1 {
                let si = (idx + rep) % NFIXED;
                let sys = fixed_system(si);
                let setup = Setup {
                    sys: &sys,
                    state: (0..sys.nvars).map(|v| (idx + v) % 3 == 0).collect(),
                    rng_seed: 0xC046_0000 + (rep * 1000 + idx) as u64,
                    warm: idx % 4,
                };
                let beta = BETAS[(idx + ti) % BETAS.len()];
                stat("measure_system_fixed", 1);
                if fi == FS.len() {
                    measure_case(&setup, Kind::Steps, *t, None, beta);
                } else {
                    let kind = [Kind::Sample, Kind::MeasureCount, Kind::MeasureStates][(idx + rep) % 3];
                    measure_case(&setup, kind, *t, FS[fi], beta);
                }
                idx += 1;
            }
        }
    }
    // 2. random systems
    let nsys = if thorough { 460 } else { 40 };
    for s in 0..nsys {
        let sys = gen_system(g, (s % 3) as u64);
        {
            // skip systems without any accepted term
            let probe = Setup { sys: &sys, state: vec![false; sys.nvars], rng_seed: 1, warm: 0 };
            if build(&probe).get_bonds().is_empty() {
                continue;
            }
        }
        stat(&format!("measure_nvars_{}", sys.nvars), 1);
        stat(&format!("measure_nterms_{}", sys.calls.len()), 1);
        for j in 0..8 {
            let setup = Setup {
                sys: &sys,
                state: (0..sys.nvars).map(|_| g.coin()).collect(),
                rng_seed: g.next(),
                warm: g.below(7) as usize,
            };
            let kind = [Kind::Steps, Kind::Sample, Kind::MeasureCount, Kind::MeasureStates][(s + j) % 4];
            // a third of the cases: any t; the others: long enough that several steps are measured
            let t = if g.chance(1, 3) { *g.pick(&TS) } else { *g.pick(&[10usize, 16, 25]) };
            let mut freq = *g.pick(&FS);
            if kind != Kind::Steps && t > 0 && g.chance(1, 40) {
                freq = Some(0);
            }
            // larger beta twice as likely (at beta = 1/8 the operator string is empty most of the time)
            let beta = *g.pick(&[0.125, 0.25, 0.5, 0.5, 1.0, 1.0, 2.0, 2.0]);
            stat("measure_system_random", 1);
            measure_case(&setup, kind, t, freq, beta);
        }
    }
}

fn main() {
    quiet_panics();
    let a = args();
    let mut g = SplitMix64::new(a.seed ^ 0xC04_6);
    if a.mode == "all" || a.mode == "measure" {
        run_measure(&mut g, a.thorough);
    }
}
