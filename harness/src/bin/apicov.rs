//! apicov — PUBLIC-API COVERAGE harness.
//!
//! Every externally reachable function of the crate (see `/verif/tools/api_census.py`) that no other harness bin calls is
//! exercised here in realistic sequences, each call followed by MODEL-FREE oracles derived from the property statements
//! (`/verif/properties.jsonl`). The model output column is the constant `ok` (like `kern`): the bin only supports the search
//! for failing inputs / mutations hidden behind otherwise unexercised public API; `checks/api_cov.py` turns oracle FAILs into
//! obligations of the calling check (evidence mode `public-api-coverage`).
//!
//! Modes (named after the property whose statement supplies the oracle):
//!   c01  Ising constructors (`new_qmc`, `new_qmc_from_graph`, `new_from_graph`, `new_with_rng_with_manager_hook`, snapshot
//!        restore) build what `new_with_rng` builds; offset formula; `hamiltonian` table; `print_debug`
//!   c03  `BondContainer` public surface against a naive list + the representation invariant (`BC.Inv`)
//!   c04  generic constructors (`Qmc::new`, `new_with_state`, `…_with_manager_hook`), `Qmc::from(ising)` = `into_qmc`
//!   c06  convenience wrappers (thread_rng inside) on the op manager + `_with_rng` vs `_with_rng_and_state_ref` vs the
//!        sampler-level calls under the same RNG state; `state_mut`/`get_manager_mut` round trips; invariants C06/C07/C11/C12/C18
//!   c07  `Op` trait surface of `BasicOp` (edit / clone-and-edit re-derive the diagonal tag, keep vars/bond/constant)
//!   c08  a heat-bath sweep assembled by hand from `heat_bath_single_diagonal_update` = the library sweep
//!   c09  `find_constant_op`, `is_valid_cluster_edge`, `flip_each_cluster_*` variants, sampler-level cluster step
//!   c10  trait-level tempering helpers for both samplers and the container helpers (`new_thread_rng`, `iter_over_states`, …)
//!   c11  accessors = scan (`constant_ops_on_var`, `spin_flips_on_var`, debug counters, `get_propagated_substate_with_hint`,
//!        `iter_ops_above_p`, `MutateArgs`, `get_node_mut`, …); a NAIVE slot-array container drives the generic sampler
//!        through the trait-default methods and must reproduce the FastOps trajectory
//!   c12  cutoff API (`set_cutoff`, `increase_cutoff_to`, `set_op_cutoff`) and the cutoff rule afterwards
//!   c13  Clone / Debug / PartialEq / serde of every public type; clones and restored objects continue identically
//!   c17  every measuring helper of `QmcStepper` = manual loop on a clone
//!   c18  allocator public surface (`Factory` on every pooled type, `Reset`, wrapper allocator), pool balance
//!   c19  classical `GraphState` constructors, `Clone`, `Debug`, `do_spin_flip`, `should_flip`, energy
//!   all  everything above
//! Witness modes of two observations (never part of `all`, not wired into any check): `nthwit` (the provided
//! `LoopUpdater::get_nth_p` has no wrap-around although `make_loop_update(Some(n))` asks for the n-th of n ops) and `partemp1`
//! (with one replica `parallel_tempering_step` draws from the container rng, `tempering_step` does not).
//! Every case line: `CASE nt | <mode> <label> <inputs…> | ok | ok/FAIL:<why>`; every repetition of a mode runs inside a panic
//! guard (a library panic outside an individually guarded call is a failing case, never a crash); `STAT api.<Owner::name> <n>`
//! counts the calls per public function. Inputs printed never depend on `thread_rng` (deterministic in `--seed`).

#![allow(clippy::too_many_arguments, clippy::type_complexity)]

use qmc::classical::graph::{make_random_spin_state, GraphState};
use qmc::sse::fast_op_alloc::{DefaultFastOpAllocator, FastOpAllocator, SwitchableFastOpAllocator};
use qmc::sse::fast_ops::*;
use qmc::sse::qmc_ising::serialization::SerializeQmcGraph;
use qmc::sse::qmc_types::OpSide;
use qmc::sse::*;
use qmc::util::allocator::{verif_log, Factory, Reset};
use qmc::util::bondcontainer::BondContainer;
use rand::{Rng, RngCore};
use serde_json::Value;
use std::cell::RefCell;
use std::cmp::{max, Reverse};
use std::collections::{BTreeMap, BinaryHeap};
use vh::*;

type G = QmcIsingGraph<SplitMix64, FastOps>;
type Q = Qmc<SplitMix64, FastOps>;
type TC = TemperingContainer<SplitMix64, G>;
type TQ = TemperingContainer<SplitMix64, Q>;

const EPS: f64 = std::f64::EPSILON;

// ------------------------------------------------------------------------------------------------------------------
// bookkeeping: coverage counters, checks, case emission
// ------------------------------------------------------------------------------------------------------------------
thread_local! {
    static PRINTED: std::cell::Cell<bool> = std::cell::Cell::new(false);
    static COV: RefCell<BTreeMap<&'static str, u64>> = RefCell::new(BTreeMap::new());
    static NCASES: RefCell<(u64, u64)> = RefCell::new((0, 0));
}
/// one more exercised call of the public function `key` (`Owner::name`)
fn hit(key: &'static str) {
    COV.with(|c| *c.borrow_mut().entry(key).or_insert(0) += 1);
}
fn hits(keys: &[&'static str]) {
    for k in keys {
        hit(k);
    }
}
fn flush_cov() {
    COV.with(|c| {
        for (k, v) in c.borrow().iter() {
            stat(&format!("api.{}", k), v);
        }
        stat("api_functions_exercised", c.borrow().len());
    });
    NCASES.with(|n| {
        stat("cases", n.borrow().0);
        stat("oracle_fail", n.borrow().1);
    });
}

/// collects the failed sub-oracles of one case
struct Chk {
    errs: Vec<String>,
}
impl Chk {
    fn new() -> Self {
        Chk { errs: vec![] }
    }
    fn ck(&mut self, cond: bool, msg: impl FnOnce() -> String) {
        if !cond && self.errs.len() < 4 {
            self.errs.push(msg());
        }
    }
    fn eq<T: PartialEq + std::fmt::Debug>(&mut self, what: &str, a: &T, b: &T) {
        if a != b && self.errs.len() < 4 {
            let (sa, sb) = (format!("{:?}", a), format!("{:?}", b));
            self.errs.push(format!("{}: {} vs {}", what, clip(&sa), clip(&sb)));
        }
    }
    fn res(&mut self, r: Result<(), String>) {
        if let Err(e) = r {
            if self.errs.len() < 4 {
                self.errs.push(e);
            }
        }
    }
    /// run a library call; a panic is an oracle failure carrying the panic text
    fn call<T>(&mut self, what: &str, f: impl FnOnce() -> T) -> Option<T> {
        match catch(f) {
            Ok(t) => Some(t),
            Err(e) => {
                self.errs.push(format!("{} panicked: {}", what, e));
                None
            }
        }
    }
    fn done(self) -> Result<(), String> {
        if self.errs.is_empty() {
            Ok(())
        } else {
            Err(self.errs.join("; "))
        }
    }
}
fn clip(s: &str) -> String {
    if s.len() > 300 {
        format!("{}…", &s[..300])
    } else {
        s.to_string()
    }
}
fn case(nt: bool, input: &str, r: Result<(), String>) {
    NCASES.with(|n| {
        n.borrow_mut().0 += 1;
        if r.is_err() {
            n.borrow_mut().1 += 1;
        }
    });
    emit(nt, &input.replace('|', "/"), "ok", Some(r));
}

fn js<T: serde::Serialize>(x: &T) -> Value {
    serde_json::to_value(x).expect("serialises")
}
fn json_rt<T: serde::Serialize + serde::de::DeserializeOwned>(x: &T) -> Result<T, String> {
    let s = serde_json::to_string(x).map_err(|e| format!("serialise: {}", e))?;
    serde_json::from_str(&s).map_err(|e| format!("deserialise: {}", e))
}
/// first path at which two JSON values differ
fn json_diff(a: &Value, b: &Value, path: &str, skip: &[&str]) -> Option<String> {
    match (a, b) {
        (Value::Object(x), Value::Object(y)) => {
            for (k, v) in x.iter() {
                if skip.contains(&k.as_str()) {
                    continue;
                }
                match y.get(k) {
                    None => return Some(format!("{}.{} missing", path, k)),
                    Some(w) => {
                        if let Some(d) = json_diff(v, w, &format!("{}.{}", path, k), skip) {
                            return Some(d);
                        }
                    }
                }
            }
            for k in y.keys() {
                if !skip.contains(&k.as_str()) && !x.contains_key(k) {
                    return Some(format!("{}.{} extra", path, k));
                }
            }
            None
        }
        (Value::Array(x), Value::Array(y)) => {
            if x.len() != y.len() {
                return Some(format!("{} length {} vs {}", path, x.len(), y.len()));
            }
            for (i, (v, w)) in x.iter().zip(y.iter()).enumerate() {
                if let Some(d) = json_diff(v, w, &format!("{}[{}]", path, i), skip) {
                    return Some(d);
                }
            }
            None
        }
        _ => {
            if a == b {
                None
            } else {
                Some(format!("{}: {} vs {}", path, clip(&a.to_string()), clip(&b.to_string())))
            }
        }
    }
}
fn json_same(what: &str, a: &Value, b: &Value, skip: &[&str]) -> Result<(), String> {
    match json_diff(a, b, "", skip) {
        None => Ok(()),
        Some(d) => Err(format!("{}: snapshots differ at {}", what, d)),
    }
}
/// state of the SplitMix64 owned by a sampler (from its serde snapshot)
fn rng_of<T: serde::Serialize>(x: &T) -> SplitMix64 {
    SplitMix64::new(js(x)["rng"]["s"].as_u64().expect("sampler rng state"))
}
// ------------------------------------------------------------------------------------------------------------------
// scan of a container (definition side of every "getter = scan" oracle)
// ------------------------------------------------------------------------------------------------------------------
#[derive(Clone, Debug, PartialEq, Eq)]
struct SOp {
    p: usize,
    bond: usize,
    vars: Vec<usize>,
    ins: Vec<bool>,
    outs: Vec<bool>,
    diag: bool,
    constant: bool,
}
fn sop<O: Op>(p: usize, op: &O) -> SOp {
    SOp {
        p,
        bond: op.get_bond(),
        vars: op.get_vars().to_vec(),
        ins: op.get_inputs().to_vec(),
        outs: op.get_outputs().to_vec(),
        diag: op.is_diagonal(),
        constant: op.is_constant(),
    }
}
fn scan<M: OpContainer>(m: &M) -> Vec<Option<SOp>> {
    (0..m.get_cutoff()).map(|p| m.get_pth(p).map(|op| sop(p, op))).collect()
}
fn occupied(s: &[Option<SOp>]) -> Vec<usize> {
    s.iter().enumerate().filter(|(_, o)| o.is_some()).map(|(p, _)| p).collect()
}
fn skeleton(s: &[Option<SOp>]) -> Vec<(usize, usize, Vec<usize>, bool)> {
    s.iter().flatten().map(|o| (o.p, o.bond, o.vars.clone(), o.constant)).collect()
}
fn offdiag(s: &[Option<SOp>]) -> Vec<SOp> {
    s.iter().flatten().filter(|o| o.ins != o.outs).cloned().collect()
}
/// states entering every slot, by plain propagation of `state`; Err(p) if the op at p does not meet its inputs
fn propagate(s: &[Option<SOp>], state: &[bool]) -> Result<(Vec<Vec<bool>>, Vec<bool>), usize> {
    let mut st = state.to_vec();
    let mut out = Vec::with_capacity(s.len());
    for (p, o) in s.iter().enumerate() {
        out.push(st.clone());
        if let Some(op) = o {
            for (k, v) in op.vars.iter().enumerate() {
                if st[*v] != op.ins[k] {
                    return Err(p);
                }
            }
            for (k, v) in op.vars.iter().enumerate() {
                st[*v] = op.outs[k];
            }
        }
    }
    Ok((out, st))
}

/// The Hamiltonian as the oracle sees it (closures over the real code's public matrix-element functions).
struct HamView<'a> {
    #[allow(dead_code)]
    token: String,
    nbonds: usize,
    edge: Box<dyn Fn(usize) -> (Vec<usize>, bool) + 'a>,
    w: Box<dyn Fn(usize, &[bool], &[bool]) -> f64 + 'a>,
}
fn ising_nbonds(g: &G) -> usize {
    let n = g.get_nvars();
    g.get_edges().len() + n + if g.get_longitudinal_field().abs() > EPS { n } else { 0 }
}
fn ising_token(g: &G) -> String {
    let edges: Vec<String> = g.get_edges().iter().map(|(e, j)| format!("{},{},{}", e[0], e[1], rat(*j))).collect();
    format!(
        "I!{}!{}!{}!{}",
        g.get_nvars(),
        if edges.is_empty() { "-".to_string() } else { edges.join(";") },
        rat(g.get_transverse_field()),
        rat(g.get_longitudinal_field())
    )
}
fn ising_view(g: &G) -> HamView<'_> {
    let nvars = g.get_nvars();
    let ne = g.get_edges().len();
    HamView {
        token: ising_token(g),
        nbonds: ising_nbonds(g),
        edge: Box::new(move |b| {
            if b < ne {
                (g.get_edges()[b].0.clone(), false)
            } else if b < ne + nvars {
                (vec![b - ne], true)
            } else {
                (vec![b - ne - nvars], false)
            }
        }),
        w: Box::new(move |b, i, o| {
            let info = g.make_haminfo();
            let vars: Vec<usize> = if b < ne { g.get_edges()[b].0.clone() } else { vec![0] };
            G::hamiltonian(&info, &vars, b, i, o)
        }),
    }
}
fn patterns(n: usize) -> Vec<Vec<bool>> {
    (0..(1usize << n)).map(|i| (0..n).map(|b| (i >> (n - 1 - b)) & 1 == 1).collect()).collect()
}
fn generic_vars(bonds: &[Interaction]) -> Vec<Vec<usize>> {
    js(&bonds.to_vec())
        .as_array()
        .unwrap()
        .iter()
        .map(|b| b["vars"].as_array().unwrap().iter().map(|v| v.as_u64().unwrap() as usize).collect())
        .collect()
}
/// table form of the generic sampler's Hamiltonian, read through the public `Interaction::at`
fn generic_table(bonds: &[Interaction], vars: &[Vec<usize>]) -> Vec<TableBond> {
    bonds
        .iter()
        .zip(vars.iter())
        .map(|(b, vs)| {
            let pats = patterns(vs.len());
            let mut mat = vec![];
            for o in pats.iter() {
                for i in pats.iter() {
                    mat.push(b.at(i, o).unwrap());
                }
            }
            // the constant flag is recomputed from the MATRIX, never taken from the library's own classification
            let constant = mat.iter().all(|x| *x == mat[0]);
            TableBond { vars: vs.clone(), constant, mat }
        })
        .collect()
}
fn generic_view<'a>(bonds: &'a [Interaction], table: &'a [TableBond]) -> HamView<'a> {
    HamView {
        token: show_table_ham(table),
        nbonds: table.len(),
        edge: Box::new(move |b| (table[b].vars.clone(), table[b].constant)),
        w: Box::new(move |b, i, o| bonds[b].at(i, o).unwrap_or(f64::NAN)),
    }
}

/// C06 (world-line consistency, periodicity) + C07 (legality) + C12 (n <= cutoff) of a configuration
fn check_config<M: OpContainer>(m: &M, state: &[bool], hv: &HamView) -> Result<(), String> {
    let s = scan(m);
    if state.len() != m.get_nvars() {
        return Err(format!("C06 state has {} spins, container {} variables", state.len(), m.get_nvars()));
    }
    match propagate(&s, state) {
        Err(p) => return Err(format!("C06 op at p={} does not meet its recorded inputs", p)),
        Ok((_, fin)) => {
            if fin != state {
                return Err(format!("C06 propagation ends in {} not in the reported state {}", bits(&fin), bits(state)));
            }
        }
    }
    if !m.verify(state) {
        return Err("C06 OpContainer::verify(state) is false on a consistent configuration".into());
    }
    for op in s.iter().flatten() {
        if op.bond >= hv.nbonds {
            return Err(format!("C07 p={} bond {} out of range {}", op.p, op.bond, hv.nbonds));
        }
        let (vars, c) = (hv.edge)(op.bond);
        if vars != op.vars {
            return Err(format!("C07 p={} bond {} vars {:?} but the bond acts on {:?}", op.p, op.bond, op.vars, vars));
        }
        if c != op.constant {
            return Err(format!("C07 p={} bond {} constant flag {} but bond says {}", op.p, op.bond, op.constant, c));
        }
        if op.ins.len() != vars.len() || op.outs.len() != vars.len() {
            return Err(format!("C07 p={} wrong number of values", op.p));
        }
        if op.diag != (op.ins == op.outs) {
            return Err(format!("C07 p={} tag diagonal={} but ins {} outs {}", op.p, op.diag, bits(&op.ins), bits(&op.outs)));
        }
        let w = (hv.w)(op.bond, &op.ins, &op.outs);
        if !(w > 0.0) {
            return Err(format!("C07 p={} bond {} {}->{} has matrix element {}", op.p, op.bond, bits(&op.ins), bits(&op.outs), w));
        }
    }
    let n = occupied(&s).len();
    if m.get_n() != n {
        return Err(format!("C11 get_n {} but {} occupied slots", m.get_n(), n));
    }
    if n > m.get_cutoff() {
        return Err("C12 more ops than slots".into());
    }
    Ok(())
}

fn prev_var(s: &[Option<SOp>], p: usize, v: usize) -> Option<PRel> {
    (0..p).rev().find_map(|q| s[q].as_ref().and_then(|o| o.vars.iter().position(|x| *x == v).map(|relv| PRel { p: q, relv })))
}
fn next_var(s: &[Option<SOp>], p: usize, v: usize) -> Option<PRel> {
    (p + 1..s.len()).find_map(|q| s[q].as_ref().and_then(|o| o.vars.iter().position(|x| *x == v).map(|relv| PRel { p: q, relv })))
}

/// C11: every navigation getter of the container equals what a scan of the slots gives
fn check_nav<M: LoopUpdater>(m: &M, nbonds: usize) -> Result<(), String> {
    let s = scan(m);
    let occ = occupied(&s);
    let nvars = m.get_nvars();
    if m.get_n() != occ.len() {
        return Err(format!("C11 get_n {} vs scan {}", m.get_n(), occ.len()));
    }
    if m.get_first_p() != occ.first().cloned() || m.get_last_p() != occ.last().cloned() {
        return Err(format!("C11 first/last p {:?}/{:?} vs scan {:?}/{:?}", m.get_first_p(), m.get_last_p(), occ.first(), occ.last()));
    }
    for b in 0..nbonds + 2 {
        let c = s.iter().flatten().filter(|o| o.bond == b).count();
        if m.get_count(b) != c {
            return Err(format!("C11 get_count({}) = {} vs scan {}", b, m.get_count(b), c));
        }
    }
    for v in 0..nvars {
        let f = (0..s.len()).find_map(|q| s[q].as_ref().and_then(|o| o.vars.iter().position(|x| *x == v).map(|relv| PRel { p: q, relv })));
        let l = prev_var(&s, s.len(), v);
        if m.get_first_p_for_var(v) != f || m.get_last_p_for_var(v) != l {
            return Err(format!("C11 var {} first/last {:?}/{:?} vs scan {:?}/{:?}", v, m.get_first_p_for_var(v), m.get_last_p_for_var(v), f, l));
        }
        if m.does_var_have_ops(v) != f.is_some() {
            return Err(format!("C11 does_var_have_ops({}) = {} vs scan {}", v, m.does_var_have_ops(v), f.is_some()));
        }
    }
    for (k, p) in occ.iter().enumerate() {
        let node = match m.get_node_ref(*p) {
            Some(n) => n,
            None => return Err(format!("C11 get_node_ref({}) is None on an occupied slot", p)),
        };
        let o = s[*p].as_ref().unwrap();
        if sop(*p, node.get_op_ref()) != *o {
            return Err(format!("C11 node at {} holds another op than get_pth", p));
        }
        let pp = if k > 0 { Some(occ[k - 1]) } else { None };
        let np = occ.get(k + 1).cloned();
        if m.get_previous_p(node) != pp || m.get_next_p(node) != np {
            return Err(format!("C11 p={} prev/next {:?}/{:?} vs scan {:?}/{:?}", p, m.get_previous_p(node), m.get_next_p(node), pp, np));
        }
        for (relv, v) in o.vars.iter().enumerate() {
            let (pv, nv) = (prev_var(&s, *p, *v), next_var(&s, *p, *v));
            if m.get_previous_p_for_rel_var(relv, node) != pv || m.get_next_p_for_rel_var(relv, node) != nv {
                return Err(format!("C11 p={} var {} prev/next by rel var vs scan {:?}/{:?}", p, v, pv, nv));
            }
            if m.get_previous_p_for_var(*v, node) != Ok(pv) || m.get_next_p_for_var(*v, node) != Ok(nv) {
                return Err(format!("C11 p={} var {} prev/next by var vs scan {:?}/{:?}", p, v, pv, nv));
            }
        }
        for v in 0..nvars {
            if !o.vars.contains(&v) && (m.get_previous_p_for_var(v, node).is_ok() || m.get_next_p_for_var(v, node).is_ok()) {
                return Err(format!("C11 p={} by-variable navigation answers for variable {} that is not on the op", p, v));
            }
        }
        if m.get_nth_p(k) != *p {
            return Err(format!("C11 get_nth_p({}) = {} vs scan {}", k, m.get_nth_p(k), p));
        }
    }
    for (p, o) in s.iter().enumerate() {
        if o.is_none() && m.get_node_ref(p).is_some() {
            return Err(format!("C11 get_node_ref({}) is Some on an empty slot", p));
        }
    }
    Ok(())
}

// ------------------------------------------------------------------------------------------------------------------
// pool oracle (C18): balance of one call from the hook log + snapshot of the allocator
// ------------------------------------------------------------------------------------------------------------------
fn pool_begin() {
    let _ = verif_log::take();
}
fn pool_end(what: &str) -> Result<(), String> {
    let log = verif_log::take();
    let mut bal: BTreeMap<&'static str, i64> = BTreeMap::new();
    for (ty, d, clean, _left) in log.iter() {
        match d {
            1 => *bal.entry(ty).or_insert(0) += 1,
            -1 => {
                *bal.entry(ty).or_insert(0) -= 1;
                if !*clean {
                    return Err(format!("C18 {}: returned {} not clean after reset", what, ty));
                }
            }
            _ => return Err(format!("C18 {}: pool exhausted for {}", what, ty)),
        }
    }
    for (ty, b) in bal.iter() {
        if *b != 0 {
            return Err(format!("C18 {}: {} gets - returns = {}", what, ty, b));
        }
    }
    Ok(())
}
fn alloc_snap<T: serde::Serialize>(m: &T) -> Value {
    js(m)["alloc"].clone()
}

// ------------------------------------------------------------------------------------------------------------------
// generators (dyadic inputs only)
// ------------------------------------------------------------------------------------------------------------------
fn gen_beta(r: &mut SplitMix64) -> f64 {
    *r.pick(&[0.25, 0.5, 1.0, 1.0, 1.5, 2.0, 3.0, 4.0])
}
#[derive(Clone, Debug)]
struct IsingSpec {
    nvars: usize,
    edges: Vec<((usize, usize), f64)>,
    gamma: f64,
    h: f64,
}
fn gen_ising_spec(r: &mut SplitMix64, force_h: Option<bool>) -> IsingSpec {
    let nvars = r.range(2, 5) as usize;
    let mut pairs = vec![];
    for v in 0..nvars - 1 {
        pairs.push((v, v + 1));
    }
    for _ in 0..r.range(0, 3) {
        let a = r.below(nvars as u64) as usize;
        let b = r.below(nvars as u64) as usize;
        if a != b {
            pairs.push((a, b));
        }
    }
    let edges = pairs
        .into_iter()
        .map(|(a, b)| {
            let mag = *r.pick(&[0.25, 0.5, 1.0, 1.0, 1.5]);
            let j = if r.coin() { mag } else { -mag };
            if r.coin() {
                ((a, b), j)
            } else {
                ((b, a), j)
            }
        })
        .collect();
    let gamma = *r.pick(&[0.25, 0.5, 1.0, 1.0, 2.0]);
    let with_h = force_h.unwrap_or_else(|| r.chance(1, 2));
    let h = if with_h { *r.pick(&[0.25, 0.5, 1.0, -0.25, -0.5, -1.0]) } else { 0.0 };
    IsingSpec { nvars, edges, gamma, h }
}
fn spec_token(s: &IsingSpec) -> String {
    let e: Vec<String> = s.edges.iter().map(|((a, b), j)| format!("{},{},{}", a, b, rat(*j))).collect();
    format!("I!{}!{}!{}!{}", s.nvars, e.join(";"), rat(s.gamma), rat(s.h))
}
/// same lattice and signs, magnitudes scaled by powers of two (replicas that may be exchanged; ratios stay exact)
fn scale_spec(r: &mut SplitMix64, s: &IsingSpec) -> IsingSpec {
    let f = *r.pick(&[0.5, 1.0, 2.0]);
    IsingSpec {
        nvars: s.nvars,
        edges: s.edges.iter().map(|(e, j)| (*e, j * f)).collect(),
        gamma: s.gamma * *r.pick(&[0.5, 1.0, 2.0]),
        h: s.h * *r.pick(&[0.5, 1.0, 2.0]),
    }
}
fn gen_state(r: &mut SplitMix64, n: usize) -> Vec<bool> {
    match r.below(4) {
        0 => vec![false; n],
        1 => vec![true; n],
        _ => (0..n).map(|_| r.coin()).collect(),
    }
}
fn build_ising(s: &IsingSpec, cutoff: usize, state: Option<Vec<bool>>, seed: u64) -> G {
    G::new_with_rng(s.edges.clone(), s.gamma, s.h, cutoff, SplitMix64::new(seed), state)
}
/// a sampler with a non-trivial operator string (some time steps, options at random)
fn warm_ising(r: &mut SplitMix64, force_h: Option<bool>) -> (IsingSpec, G, f64) {
    let s = gen_ising_spec(r, force_h);
    let beta = gen_beta(r);
    let st = if r.chance(1, 5) { None } else { Some(gen_state(r, s.nvars)) };
    let mut g = build_ising(&s, r.range(1, 12) as usize, st, r.next());
    if r.chance(1, 3) {
        g.set_run_rvb(true);
    }
    if r.chance(1, 4) {
        g.set_enable_heatbath(true);
    }
    for _ in 0..r.range(1, 6) {
        g.timestep(beta);
    }
    g.set_run_rvb(false);
    g.set_enable_heatbath(false);
    (s, g, beta)
}

/// one interaction of the generic sampler, as data (so that the same model can be installed on any manager type)
#[derive(Clone, Debug)]
struct Term {
    /// 0 make_interaction, 1 make_interaction_and_offset, 2 make_diagonal_interaction, 3 make_diagonal_interaction_and_offset
    ctor: u8,
    mat: Vec<f64>,
    vars: Vec<usize>,
}
fn gen_terms(r: &mut SplitMix64, kind: u64, nvars: usize) -> Vec<Term> {
    let mut t = vec![];
    let pop = |x: usize| x.count_ones() as usize;
    match kind {
        0 => {
            // exchange type (XXZ-like) ring + optional sz+sx+1 site terms
            let d = *r.pick(&[0.5, 1.0, 2.0]);
            let x = *r.pick(&[0.5, 1.0]);
            for v in 0..nvars {
                let w = (v + 1) % nvars;
                if w != v && !(nvars == 2 && v == 1) {
                    let mut m = vec![0.0; 16];
                    m[5] = d;
                    m[10] = d;
                    m[0] = *r.pick(&[0.0, 0.25]);
                    m[15] = m[0];
                    m[6] = x;
                    m[9] = x;
                    t.push(Term { ctor: 0, mat: m, vars: vec![v, w] });
                }
            }
            if r.coin() {
                for v in 0..nvars {
                    t.push(Term { ctor: 0, mat: vec![2.0, 1.0, 1.0, 0.0], vars: vec![v] });
                }
            }
        }
        1 => {
            // Ising symmetric two-site diagonal terms + constant single-site terms (cluster updates run)
            for v in 0..nvars - 1 {
                let j = *r.pick(&[0.5, 1.0, 1.5]);
                let m = if r.coin() { vec![j, 0.0, 0.0, j] } else { vec![0.0, j, j, 0.0] };
                let vars = if r.coin() { vec![v, v + 1] } else { vec![v + 1, v] };
                t.push(Term { ctor: 2, mat: m, vars });
            }
            let c = *r.pick(&[0.5, 1.0, 2.0]);
            for v in 0..nvars {
                t.push(Term { ctor: 0, mat: vec![c, c, c, c], vars: vec![v] });
            }
            if r.coin() {
                let mut m = vec![0.0; 16];
                m[0] = 1.0;
                m[15] = 1.0;
                m[3] = 0.5;
                m[12] = 0.5;
                t.push(Term { ctor: 0, mat: m, vars: vec![0, nvars - 1] });
            }
        }
        2 => {
            // mixed: three-variable diagonal table, offset constructors (negative entries), non-symmetric site terms
            if nvars >= 3 {
                let m: Vec<f64> = (0..8).map(|_| *r.pick(&[-0.5, 0.0, 0.5, 1.0, 2.0])).collect();
                t.push(Term { ctor: 3, mat: m, vars: vec![0, 2, 1] });
            }
            for v in 0..nvars {
                let a = *r.pick(&[0.5, 1.0]);
                t.push(Term { ctor: 1, mat: vec![-a, 0.5, 0.5, a], vars: vec![v] });
            }
            for v in 0..nvars - 1 {
                t.push(Term { ctor: 2, mat: vec![1.0, 0.0, 0.25, 1.0], vars: vec![v, v + 1] });
            }
        }
        4 => {
            // a symmetry-breaking single-site field term registered first / in the middle / last among Ising-symmetric two-site
            // terms and constant single-site terms (cluster edges exist): plain cluster updates must never run
            let j = *r.pick(&[0.5, 1.0, 1.5]);
            let c = *r.pick(&[0.5, 1.0, 2.0]);
            let hf = *r.pick(&[0.5, 1.0, -0.5, -1.0]);
            let ferro = r.coin();
            for v in 0..nvars - 1 {
                t.push(Term { ctor: 2, mat: if ferro { vec![j, 0.0, 0.0, j] } else { vec![0.0, j, j, 0.0] }, vars: vec![v, v + 1] });
            }
            for v in 0..nvars {
                t.push(Term { ctor: 0, mat: vec![c, c, c, c], vars: vec![v] });
            }
            let field = Term { ctor: 1, mat: vec![-hf, 0.0, 0.0, hf], vars: vec![r.below(nvars as u64) as usize] };
            match r.below(3) {
                0 => t.insert(0, field),
                1 => t.insert(t.len() / 2, field),
                _ => t.push(field),
            }
        }
        _ => {
            // three-variable FULL matrix by Hamming distance + two-site full/diagonal terms + site terms (some constant)
            let d = *r.pick(&[0.5, 1.0, 2.0]);
            let x1 = *r.pick(&[0.25, 0.5, 1.0]);
            let x2 = *r.pick(&[0.25, 0.5, 0.75]);
            if nvars >= 3 {
                let mut m3 = vec![0.0; 64];
                for o in 0..8usize {
                    for i in 0..8usize {
                        m3[(o << 3) | i] = match pop(o ^ i) {
                            0 => d,
                            1 => x1,
                            2 => x2,
                            _ => 0.125,
                        };
                    }
                }
                let v0 = r.below(nvars as u64 - 2) as usize;
                t.push(Term { ctor: 0, mat: m3, vars: vec![v0 + 2, v0, v0 + 1] });
            }
            for v in 0..nvars - 1 {
                if r.coin() {
                    let mut m2 = vec![0.0; 16];
                    for o in 0..4usize {
                        for i in 0..4usize {
                            m2[(o << 2) | i] = match pop(o ^ i) {
                                0 => d,
                                1 => x1,
                                _ => x2,
                            };
                        }
                    }
                    t.push(Term { ctor: 0, mat: m2, vars: vec![v, v + 1] });
                } else {
                    t.push(Term { ctor: 2, mat: vec![1.0, 0.0, 0.0, 1.0], vars: vec![v, v + 1] });
                }
            }
            for v in 0..nvars {
                match r.below(3) {
                    0 => t.push(Term { ctor: 0, mat: vec![1.0, 0.5, 0.5, 1.0], vars: vec![v] }),
                    1 => t.push(Term { ctor: 0, mat: vec![1.0, 1.0, 1.0, 1.0], vars: vec![v] }),
                    _ => {}
                }
            }
        }
    }
    t
}
fn add_terms<R: Rng, M: QmcManager>(q: &mut Qmc<R, M>, terms: &[Term]) -> Result<(), String> {
    for t in terms {
        match t.ctor {
            0 => q.make_interaction(t.mat.clone(), t.vars.clone())?,
            1 => q.make_interaction_and_offset(t.mat.clone(), t.vars.clone())?,
            2 => q.make_diagonal_interaction(t.mat.clone(), t.vars.clone())?,
            _ => q.make_diagonal_interaction_and_offset(t.mat.clone(), t.vars.clone())?,
        }
    }
    Ok(())
}
fn terms_token(nvars: usize, terms: &[Term]) -> String {
    let parts: Vec<String> = terms.iter().map(|t| format!("{}:{}:{}", t.ctor, list(&t.vars), rats(&t.mat))).collect();
    format!("T{}!{}", nvars, parts.join("!"))
}
struct GenSpec {
    kind: u64,
    nvars: usize,
    terms: Vec<Term>,
    loops: bool,
    heatbath: bool,
}
fn gen_generic_spec(r: &mut SplitMix64) -> GenSpec {
    let kind = r.below(5);
    let nvars = if kind == 3 { r.range(3, 4) as usize } else { r.range(2, 4) as usize };
    let terms = gen_terms(r, kind, nvars);
    let loops = kind == 0 || kind == 3 || r.coin();
    GenSpec { kind, nvars, terms, loops, heatbath: r.chance(1, 3) }
}
fn build_generic(gs: &GenSpec, state: Vec<bool>, seed: u64) -> Q {
    let mut q = Q::new_with_state(gs.nvars, SplitMix64::new(seed), state, gs.loops);
    add_terms(&mut q, &gs.terms).expect("legal interactions");
    q.set_do_heatbath(gs.heatbath);
    q
}
fn warm_generic(r: &mut SplitMix64) -> (GenSpec, Q, f64) {
    let gs = gen_generic_spec(r);
    let beta = gen_beta(r);
    let mut q = build_generic(&gs, gen_state(r, gs.nvars), r.next());
    for _ in 0..r.range(1, 6) {
        q.timestep(beta);
    }
    (gs, q, beta)
}

// ------------------------------------------------------------------------------------------------------------------
// Hamiltonians / edge navigation handed to the TRAIT-LEVEL update functions (the harness's own statement of the bond layout)
// ------------------------------------------------------------------------------------------------------------------
/// bonds 0..ne: edges (not constant); ne..ne+n: transverse (constant); ne+n..ne+2n: longitudinal (only if |h| > EPSILON)
#[derive(Clone, Copy)]
struct IsingHam<'a> {
    g: &'a G,
    vars: &'a [usize],
}
impl<'a> Hamiltonian<'a> for IsingHam<'a> {
    fn hamiltonian(&self, vars: &[usize], bond: usize, inputs: &[bool], outputs: &[bool]) -> f64 {
        G::hamiltonian(&self.g.make_haminfo(), vars, bond, inputs, outputs)
    }
    fn edge_fn(&self, b: usize) -> (&'a [usize], bool) {
        let g: &'a G = self.g;
        let vars: &'a [usize] = self.vars;
        let (ne, n) = (g.get_edges().len(), g.get_nvars());
        if b < ne {
            (&g.get_edges()[b].0, false)
        } else if b < ne + n {
            (&vars[b - ne..b - ne + 1], true)
        } else {
            (&vars[b - ne - n..b - ne - n + 1], false)
        }
    }
    fn num_bonds(&self) -> usize {
        ising_nbonds(self.g)
    }
}
#[derive(Clone, Copy)]
struct GenHam<'a> {
    bonds: &'a [Interaction],
    table: &'a [TableBond],
}
impl<'a> Hamiltonian<'a> for GenHam<'a> {
    fn hamiltonian(&self, _vars: &[usize], bond: usize, inputs: &[bool], outputs: &[bool]) -> f64 {
        self.bonds[bond].at(inputs, outputs).unwrap()
    }
    fn edge_fn(&self, b: usize) -> (&'a [usize], bool) {
        let t: &'a [TableBond] = self.table;
        (&t[b].vars, t[b].constant)
    }
    fn num_bonds(&self) -> usize {
        self.table.len()
    }
}
struct Nav {
    var_to_bonds: Vec<Vec<usize>>,
    edges: Vec<(Vec<usize>, f64)>,
}
fn nav_of(g: &G) -> Nav {
    let mut var_to_bonds = vec![vec![]; g.get_nvars()];
    for (b, (e, _)) in g.get_edges().iter().enumerate() {
        var_to_bonds[e[0]].push(b);
        var_to_bonds[e[1]].push(b);
    }
    Nav { var_to_bonds, edges: g.get_edges().to_vec() }
}
impl EdgeNavigator for Nav {
    fn n_bonds(&self) -> usize {
        hit("EdgeNavigator::n_bonds");
        self.edges.len()
    }
    fn bonds_for_var(&self, var: usize) -> &[usize] {
        hit("EdgeNavigator::bonds_for_var");
        &self.var_to_bonds[var]
    }
    fn vars_for_bond(&self, bond: usize) -> (usize, usize) {
        hit("EdgeNavigator::vars_for_bond");
        (self.edges[bond].0[0], self.edges[bond].0[1])
    }
    fn bond_prefers_aligned(&self, bond: usize) -> bool {
        hit("EdgeNavigator::bond_prefers_aligned");
        self.edges[bond].1 < 0.0
    }
    fn bond_mag(&self, b: usize) -> f64 {
        hit("EdgeNavigator::bond_mag");
        self.edges[b].1.abs()
    }
}

// ------------------------------------------------------------------------------------------------------------------
// a NAIVE slot-array container written against the public traits only: everything is found by scanning, every
// provided (default) trait method is inherited — `mutate_ops`, `try_iterate_ops`, `iterate_*`, `get_nth_p`,
// `get_*_p_for_var`, `does_var_have_ops`, `make_loop_update*`, `flip_each_cluster*`, `find_constant_op`, the diagonal
// and heat-bath sweeps, `verify` — and the three `post_*_hook`s are counted.
// ------------------------------------------------------------------------------------------------------------------
#[derive(Clone, Debug)]
struct NaiveNode {
    op: FastOp,
    p: usize,
}
impl OpNode<FastOp> for NaiveNode {
    fn get_op(&self) -> FastOp {
        self.op.clone()
    }
    fn get_op_ref(&self) -> &FastOp {
        &self.op
    }
    fn get_op_mut(&mut self) -> &mut FastOp {
        &mut self.op
    }
}
#[derive(Clone, Debug, Default)]
struct NaiveOps {
    slots: Vec<Option<NaiveNode>>,
    nvars: usize,
    hooks: [usize; 3],
    gets: usize,
    rets: usize,
    dirty_returns: usize,
}
impl OpContainerConstructor for NaiveOps {
    fn new(nvars: usize) -> Self {
        NaiveOps { nvars, ..Default::default() }
    }
    fn new_with_bonds(nvars: usize, _nbonds: usize) -> Self {
        NaiveOps { nvars, ..Default::default() }
    }
}
impl OpContainer for NaiveOps {
    type Op = FastOp;
    fn get_cutoff(&self) -> usize {
        self.slots.len()
    }
    fn set_cutoff(&mut self, cutoff: usize) {
        if cutoff > self.slots.len() {
            self.slots.resize(cutoff, None)
        }
    }
    fn get_n(&self) -> usize {
        self.slots.iter().filter(|s| s.is_some()).count()
    }
    fn get_nvars(&self) -> usize {
        self.nvars
    }
    fn get_pth(&self, p: usize) -> Option<&FastOp> {
        self.slots.get(p).and_then(|s| s.as_ref()).map(|n| &n.op)
    }
    fn get_count(&self, bond: usize) -> usize {
        self.slots.iter().flatten().filter(|n| n.op.get_bond() == bond).count()
    }
    fn itime_fold<F, T>(&self, state: &mut [bool], fold_fn: F, init: T) -> T
    where
        F: Fn(T, &[bool]) -> T,
    {
        let mut acc = init;
        for p in 0..self.slots.len() {
            acc = fold_fn(acc, state);
            if let Some(n) = &self.slots[p] {
                for (k, v) in n.op.get_vars().iter().enumerate() {
                    state[*v] = n.op.get_outputs()[k];
                }
            }
        }
        acc
    }
}
impl DiagonalUpdater for NaiveOps {
    fn mutate_ps<F, T>(&mut self, pstart: usize, pend: usize, t: T, f: F) -> T
    where
        F: Fn(&Self, Option<&Self::Op>, T) -> (Option<Option<Self::Op>>, T),
    {
        if pend > self.slots.len() {
            self.slots.resize(pend, None);
        }
        let mut t = t;
        for p in pstart..pend {
            let (new, tt) = f(self, self.slots[p].as_ref().map(|n| &n.op), t);
            t = tt;
            if let Some(new) = new {
                self.slots[p] = new.map(|op| NaiveNode { op, p });
            }
        }
        t
    }
    fn try_iterate_ps<F, T, V>(&self, pstart: usize, pend: usize, t: T, f: F) -> Result<T, V>
    where
        F: Fn(&Self, Option<&Self::Op>, T) -> Result<T, V>,
    {
        let l = self.slots.len();
        self.slots[pstart.min(l)..pend.min(l)].iter().try_fold(t, |t, s| f(self, s.as_ref().map(|n| &n.op), t))
    }
    fn post_diagonal_update_hook(&mut self) {
        self.hooks[0] += 1;
    }
}
impl HeatBathDiagonalUpdater for NaiveOps {}
impl NaiveOps {
    fn on_var(&self, q: usize, v: usize) -> Option<PRel> {
        self.slots[q].as_ref().and_then(|n| n.op.get_vars().iter().position(|x| *x == v).map(|relv| PRel { p: q, relv }))
    }
}
impl LoopUpdater for NaiveOps {
    type Node = NaiveNode;
    fn get_node_ref(&self, p: usize) -> Option<&NaiveNode> {
        self.slots.get(p).and_then(|s| s.as_ref())
    }
    fn get_node_mut(&mut self, p: usize) -> Option<&mut NaiveNode> {
        self.slots.get_mut(p).and_then(|s| s.as_mut())
    }
    fn get_first_p(&self) -> Option<usize> {
        self.slots.iter().position(|s| s.is_some())
    }
    fn get_last_p(&self) -> Option<usize> {
        self.slots.iter().rposition(|s| s.is_some())
    }
    fn get_first_p_for_var(&self, var: usize) -> Option<PRel> {
        (0..self.slots.len()).find_map(|q| self.on_var(q, var))
    }
    fn get_last_p_for_var(&self, var: usize) -> Option<PRel> {
        (0..self.slots.len()).rev().find_map(|q| self.on_var(q, var))
    }
    fn get_previous_p(&self, node: &NaiveNode) -> Option<usize> {
        (0..node.p).rev().find(|q| self.slots[*q].is_some())
    }
    fn get_next_p(&self, node: &NaiveNode) -> Option<usize> {
        (node.p + 1..self.slots.len()).find(|q| self.slots[*q].is_some())
    }
    fn get_previous_p_for_rel_var(&self, relvar: usize, node: &NaiveNode) -> Option<PRel> {
        let v = node.op.get_vars()[relvar];
        (0..node.p).rev().find_map(|q| self.on_var(q, v))
    }
    fn get_next_p_for_rel_var(&self, relvar: usize, node: &NaiveNode) -> Option<PRel> {
        let v = node.op.get_vars()[relvar];
        (node.p + 1..self.slots.len()).find_map(|q| self.on_var(q, v))
    }
    fn post_loop_update_hook(&mut self) {
        self.hooks[1] += 1;
    }
}
impl ClusterUpdater for NaiveOps {
    fn post_cluster_update_hook(&mut self) {
        self.hooks[2] += 1;
    }
}
macro_rules! naive_factory {
    ($t:ty) => {
        impl Factory<$t> for NaiveOps {
            fn get_instance(&mut self) -> $t {
                self.gets += 1;
                Default::default()
            }
            fn return_instance(&mut self, t: $t) {
                self.rets += 1;
                // the library hands buffers back WITHOUT emptying them (the pool resets them); only count
                if !t.is_empty() {
                    self.dirty_returns += 1;
                }
            }
        }
    };
}
naive_factory!(Vec<bool>);
naive_factory!(Vec<usize>);
naive_factory!(Vec<Option<usize>>);
naive_factory!(Vec<OpSide>);
naive_factory!(Vec<(usize, OpSide)>);
naive_factory!(Vec<f64>);
impl QmcManager for NaiveOps {}

// ------------------------------------------------------------------------------------------------------------------
// sampler-level invariant bundles
// ------------------------------------------------------------------------------------------------------------------
/// C06 C07 C11 C12 on an Ising sampler (any rng type): configuration, navigation, fold, counters, verify
fn check_ising<R: Rng>(g: &QmcIsingGraph<R, FastOps>, view_of: &G) -> Result<(), String> {
    // `view_of` supplies the Hamiltonian (a SplitMix64-typed twin with the same parameters)
    let hv = ising_view(view_of);
    let m = g.get_manager_ref();
    check_config(m, g.state_ref(), &hv)?;
    check_nav(m, hv.nbonds)?;
    if !g.verify() {
        return Err("C06 Verify::verify() is false on a consistent sampler".into());
    }
    let s = scan(m);
    let (states, _) = propagate(&s, g.state_ref()).map_err(|p| format!("C06 inconsistent at {}", p))?;
    let fold = catch(|| {
        g.imaginary_time_fold(
            |mut acc: Vec<Vec<bool>>, st: &[bool]| {
                acc.push(st.to_vec());
                acc
            },
            vec![],
        )
    })
    .map_err(|e| format!("C06 imaginary_time_fold panicked: {}", e))?;
    if fold != states {
        return Err("C06/C17 imaginary_time_fold states differ from the propagated states".into());
    }
    if QmcStepper::get_n(g) != occupied(&s).len() || g.get_n() != occupied(&s).len() {
        return Err("C11 sampler get_n differs from the scan".into());
    }
    for b in 0..hv.nbonds {
        if g.get_bond_count(b) != s.iter().flatten().filter(|o| o.bond == b).count() {
            return Err(format!("C11 get_bond_count({}) differs from the scan", b));
        }
    }
    if g.get_cutoff() < occupied(&s).len() {
        return Err(format!("C12 cutoff {} < n {}", g.get_cutoff(), occupied(&s).len()));
    }
    if let Some(last) = occupied(&s).last() {
        if *last >= g.get_cutoff() {
            return Err(format!("C12 op at p={} beyond the sampler cutoff {}", last, g.get_cutoff()));
        }
    }
    Ok(())
}
fn cutoff_rule(cutoff: usize, n: usize) -> Result<(), String> {
    if cutoff < n + n / 2 + 1 {
        Err(format!("C12 after a time step cutoff {} < n + n/2 + 1 with n = {}", cutoff, n))
    } else {
        Ok(())
    }
}
fn check_generic<R: Rng>(q: &Qmc<R, FastOps>) -> Result<(), String> {
    let vars = generic_vars(q.get_bonds());
    let table = generic_table(q.get_bonds(), &vars);
    let hv = generic_view(q.get_bonds(), &table);
    let m = q.get_manager_ref();
    check_config(m, q.state_ref(), &hv)?;
    check_nav(m, hv.nbonds)?;
    let s = scan(m);
    let (states, _) = propagate(&s, q.state_ref()).map_err(|p| format!("C06 inconsistent at {}", p))?;
    let fold = catch(|| {
        q.imaginary_time_fold(
            |mut acc: Vec<Vec<bool>>, st: &[bool]| {
                acc.push(st.to_vec());
                acc
            },
            vec![],
        )
    })
    .map_err(|e| format!("C06 imaginary_time_fold panicked: {}", e))?;
    if fold != states {
        return Err("C06/C17 imaginary_time_fold states differ from the propagated states".into());
    }
    if QmcStepper::get_n(q) != occupied(&s).len() {
        return Err("C11 sampler get_n differs from the scan".into());
    }
    for b in 0..hv.nbonds {
        if q.get_bond_count(b) != s.iter().flatten().filter(|o| o.bond == b).count() {
            return Err(format!("C11 get_bond_count({}) differs from the scan", b));
        }
    }
    if q.get_cutoff() < occupied(&s).len() {
        return Err(format!("C12 cutoff {} < n {}", q.get_cutoff(), occupied(&s).len()));
    }
    Ok(())
}

// ------------------------------------------------------------------------------------------------------------------
// c01: Ising constructors, offset, Hamiltonian table
// ------------------------------------------------------------------------------------------------------------------
/// matrix element demanded by the property statement: -H_b + (smallest shift making the diagonal non-negative)
fn ising_expected_w(s: &IsingSpec, b: usize, ins: &[bool], outs: &[bool]) -> f64 {
    let ne = s.edges.len();
    if b < ne {
        let j = s.edges[b].1;
        if ins != outs {
            0.0
        } else if ins[0] == ins[1] {
            j.abs() - j
        } else {
            j.abs() + j
        }
    } else if b < ne + s.nvars {
        s.gamma
    } else if ins != outs {
        0.0
    } else if ins[0] {
        s.h.abs() + s.h
    } else {
        s.h.abs() - s.h
    }
}
fn ising_same_model<R: Rng>(c: &mut Chk, what: &str, s: &IsingSpec, cutoff: usize, st: Option<&[bool]>, g: &QmcIsingGraph<R, FastOps>) {
    let edges: Vec<(Vec<usize>, f64)> = s.edges.iter().map(|((a, b), j)| (vec![*a, *b], *j)).collect();
    c.eq(&format!("{} edges", what), &g.get_edges().to_vec(), &edges);
    c.eq(&format!("{} transverse", what), &g.get_transverse_field(), &s.gamma);
    c.eq(&format!("{} longitudinal", what), &g.get_longitudinal_field(), &s.h);
    c.eq(&format!("{} nvars", what), &g.get_nvars(), &s.nvars);
    c.eq(&format!("{} cutoff", what), &g.get_cutoff(), &cutoff);
    c.ck(g.get_manager_ref().get_cutoff() >= cutoff, || format!("{}: manager holds fewer slots than the cutoff", what));
    c.eq(&format!("{} manager nvars", what), &g.get_manager_ref().get_nvars(), &s.nvars);
    c.eq(&format!("{} n", what), &g.get_n(), &0);
    let off = s.edges.iter().map(|(_, j)| j.abs()).sum::<f64>() + s.nvars as f64 * (s.gamma + s.h.abs());
    c.eq(&format!("{} C01 offset = sum|J| + n(Gamma+|h|)", what), &g.get_offset(), &off);
    for nbar in [0.0, 1.5, 7.25] {
        for beta in [0.5, 2.0] {
            c.eq(&format!("{} C17 energy(-n/beta+offset)", what), &g.get_energy_for_average_n(nbar, beta), &(-(nbar / beta) + off));
        }
    }
    if let Some(st) = st {
        c.eq(&format!("{} state", what), &g.state_ref().to_vec(), &st.to_vec());
        c.eq(&format!("{} clone_state", what), &g.clone_state(), &st.to_vec());
    }
    let info = g.make_haminfo();
    let ne = s.edges.len();
    let nb = ne + 2 * s.nvars;
    for b in 0..nb {
        let k = if b < ne { 2 } else { 1 };
        let vars: Vec<usize> = if b < ne { vec![s.edges[b].0 .0, s.edges[b].0 .1] } else { vec![(b - ne) % s.nvars] };
        for i in patterns(k) {
            for o in patterns(k) {
                let w = QmcIsingGraph::<R, FastOps>::hamiltonian(&info, &vars, b, &i, &o);
                let e = ising_expected_w(s, b, &i, &o);
                c.ck(w == e, || format!("{} C01 hamiltonian(bond {}, {}->{}) = {} expected {}", what, b, bits(&i), bits(&o), w, e));
            }
        }
    }
}
fn mode_c01(r: &mut SplitMix64, n: usize) {
    for _ in 0..n {
        let s = gen_ising_spec(r, None);
        let cutoff = r.range(1, 12) as usize;
        let beta = gen_beta(r);
        let with_state = r.chance(3, 4);
        let st = gen_state(r, s.nvars);
        let seed = r.next();
        let input = format!(
            "c01 ctor {} cutoff={} beta={} state={} seed={}",
            spec_token(&s),
            cutoff,
            rat(beta),
            if with_state { bits(&st) } else { "-".into() },
            seed
        );
        let sa = || if with_state { Some(st.clone()) } else { None };
        let mut c = Chk::new();
        hit("QmcIsingGraph::new_with_rng");
        let canon = match c.call("new_with_rng", || build_ising(&s, cutoff, sa(), seed)) {
            Some(g) => g,
            None => {
                case(true, &input, c.done());
                continue;
            }
        };
        let drawn = make_random_spin_state(s.nvars, &mut SplitMix64::new(seed));
        hit("graph::make_random_spin_state");
        let expect_state: Vec<bool> = if with_state { st.clone() } else { drawn };
        ising_same_model(&mut c, "new_with_rng", &s, cutoff, Some(&expect_state), &canon);
        hits(&[
            "QmcIsingGraph::get_offset",
            "QmcIsingGraph::get_cutoff",
            "QmcIsingGraph::clone_state",
            "QmcIsingGraph::get_manager_ref",
            "QmcIsingGraph::hamiltonian",
            "QmcIsingGraph::make_haminfo",
        ]);
        let zeros = vec![0.0; s.nvars];
        let mk_graph = || {
            if with_state {
                GraphState::new_with_state_and_rng(st.clone(), &s.edges, &zeros, SplitMix64::new(seed))
            } else {
                hit("GraphState::new");
                GraphState::new(&s.edges, &zeros, SplitMix64::new(seed))
            }
        };
        let mut variants: Vec<(&'static str, G)> = vec![];
        if let Some(g) = c.call("new_with_rng_with_manager_hook", || {
            G::new_with_rng_with_manager_hook(s.edges.clone(), s.gamma, s.h, cutoff, SplitMix64::new(seed), sa(), |nv, nb| {
                hit("OpContainerConstructor::new_with_bonds");
                <FastOps as OpContainerConstructor>::new_with_bonds(nv, nb)
            })
        }) {
            variants.push(("new_with_rng_with_manager_hook", g));
        }
        if let Some(g) = c.call("new_from_graph", || G::new_from_graph(mk_graph(), s.gamma, s.h, cutoff)) {
            hit("QmcIsingGraph::new_from_graph");
            variants.push(("new_from_graph", g));
        }
        if let Some(g) = c.call("new_qmc_from_graph", || new_qmc_from_graph(mk_graph(), s.gamma, s.h, cutoff)) {
            hit("qmc_ising::new_qmc_from_graph");
            variants.push(("new_qmc_from_graph", g));
        }
        if let Some(g) = c.call("SerializeQmcGraph::from + into_qmc", || {
            let sg: SerializeQmcGraph<FastOps> = canon.clone().into();
            sg.into_qmc(rng_of(&canon))
        }) {
            hits(&["SerializeQmcGraph::from", "SerializeQmcGraph::into_qmc", "QmcIsingGraph::clone"]);
            variants.push(("rngless-snapshot", g));
        }
        if let Some(g) = c.call("(SerializeQmcGraph, R)::from + into_qmc", || {
            let (sg, rng): (SerializeQmcGraph<FastOps>, SplitMix64) = canon.clone().into();
            sg.into_qmc(rng)
        }) {
            hit("SerializeQmcGraph_tuple::from");
            variants.push(("rngless-snapshot-tuple", g));
        }
        if let Some(Ok(g)) = c.call("serde round trip", || json_rt(&canon)) {
            hit("QmcIsingGraph::serde");
            variants.push(("serde", g));
        }
        let jc = js(&canon);
        let mut canon_run = canon.clone();
        for _ in 0..3 {
            canon_run.timestep(beta);
        }
        let jr = js(&canon_run);
        for (name, g) in variants.iter_mut() {
            ising_same_model(&mut c, name, &s, cutoff, Some(&expect_state), g);
            c.res(json_same(&format!("C13 {} vs new_with_rng", name), &jc, &js(g), &[]));
            c.ck(canon.make_haminfo() == g.make_haminfo(), || format!("{}: HamInfo differs from new_with_rng's", name));
            hit("HamInfo::eq");
            // same RNG state => identical trajectory
            if c.call("timestep", || (0..3).for_each(|_| {
                g.timestep(beta);
            }))
            .is_some()
            {
                c.res(json_same(&format!("C13 {} after 3 steps vs new_with_rng after 3 steps", name), &jr, &js(g), &[]));
            }
        }
        // thread_rng constructor: only the model and the invariants can be compared
        hit("qmc_ising::new_qmc");
        if let Some(mut g) = c.call("new_qmc", || new_qmc(s.edges.clone(), s.gamma, s.h, cutoff, sa())) {
            ising_same_model(&mut c, "new_qmc", &s, cutoff, if with_state { Some(&st) } else { None }, &g);
            c.res(check_ising(&g, &canon));
            let mut last_cut = g.get_cutoff();
            for _ in 0..4 {
                if c.call("new_qmc timestep", || {
                    g.timestep(beta);
                })
                .is_none()
                {
                    break;
                }
                c.res(check_ising(&g, &canon));
                c.res(cutoff_rule(g.get_cutoff(), g.get_n()));
                c.ck(g.get_cutoff() >= last_cut, || "C12 cutoff decreased".into());
                last_cut = g.get_cutoff();
            }
            if !PRINTED.with(|p| p.replace(true)) {
                hits(&["QmcIsingGraph::print_debug", "diagonal::debug_print_diagonal"]);
                c.call("print_debug", || g.print_debug());
                c.call("debug_print_diagonal", || debug_print_diagonal(g.get_manager_ref(), g.state_ref()));
            }
            let fin = g.state_ref().to_vec();
            hit("QmcIsingGraph::into_vec");
            c.eq("into_vec = state_ref", &g.into_vec(), &fin);
        }
        let info = canon.make_haminfo();
        let d = format!("{:?}", info);
        hit("HamInfo::fmt");
        c.ck(d.contains("HamInfo") && d.contains("transverse"), || format!("HamInfo Debug: {}", d));
        // a different model is a different HamInfo
        let mut s2 = s.clone();
        s2.gamma *= 2.0;
        let other = build_ising(&s2, cutoff, sa(), seed);
        c.ck(canon.make_haminfo() != other.make_haminfo(), || "HamInfo::eq ignores the transverse field".into());
        if s.h != 0.0 {
            let mut s3 = s.clone();
            s3.h *= 2.0;
            let other = build_ising(&s3, cutoff, sa(), seed);
            c.ck(canon.make_haminfo() != other.make_haminfo(), || "HamInfo::eq ignores the longitudinal field".into());
        }
        case(true, &input, c.done());
    }
}

// ------------------------------------------------------------------------------------------------------------------
// c04: generic constructors, offsets, flags, Clone, conversion
// ------------------------------------------------------------------------------------------------------------------
/// the matrix the sampler must hold for a term (after the documented diagonal shift) and the recorded offset
fn term_expected(t: &Term) -> (Vec<f64>, f64) {
    let mut m = t.mat.clone();
    let k = t.vars.len();
    match t.ctor {
        1 => {
            let tn = 1usize << k;
            let min = (0..tn).map(|i| m[(1 + tn) * i]).fold(f64::MAX, f64::min);
            (0..tn).for_each(|i| m[(1 + tn) * i] -= min);
            (m, min)
        }
        3 => {
            let min = m.iter().cloned().fold(f64::MAX, f64::min);
            m.iter_mut().for_each(|x| *x -= min);
            (m, min)
        }
        _ => (m, 0.0),
    }
}
fn term_at(t: &Term, m: &[f64], ins: &[bool], outs: &[bool]) -> f64 {
    if t.ctor >= 2 {
        if ins == outs {
            m[bit_index(ins.iter())]
        } else {
            0.0
        }
    } else {
        m[bit_index(outs.iter().chain(ins.iter()))]
    }
}
fn generic_same_model<R: Rng, M: QmcManager>(c: &mut Chk, what: &str, gs: &GenSpec, q: &Qmc<R, M>) {
    c.eq(&format!("{} number of bonds", what), &q.get_bonds().len(), &gs.terms.len());
    let mut off = 0.0;
    let mut sym = true;
    let mut edges = false;
    for (b, t) in gs.terms.iter().enumerate() {
        let (m, min) = term_expected(t);
        off -= min;
        let k = t.vars.len();
        let mut all = vec![];
        for o in patterns(k) {
            for i in patterns(k) {
                let e = term_at(t, &m, &i, &o);
                all.push(e);
                if let Some(bond) = q.get_bonds().get(b) {
                    let w = bond.at(&i, &o);
                    c.ck(w == Ok(e), || format!("{} C04 bond {} at({}->{}) = {:?} expected {}", what, b, bits(&i), bits(&o), w, e));
                }
            }
        }
        // all[idx] is indexed by (outs ++ ins); global flip = complement of the index
        let mask = all.len() - 1;
        let s = (0..all.len()).all(|i| all[i] == all[!i & mask]);
        sym &= s;
        let constant = all.iter().all(|x| *x == all[0]);
        if constant && k == 1 && t.ctor < 2 {
            edges = true;
        }
        if let Some(bond) = q.get_bonds().get(b) {
            c.eq(&format!("{} C16 bond {} sym_under_ising", what, b), &bond.sym_under_ising(), &s);
            c.eq(&format!("{} C16 bond {} is_constant", what, b), &bond.is_constant(), &(constant && t.ctor < 2));
        }
    }
    c.eq(&format!("{} C04 offset = -sum(min diag)", what), &q.get_offset(), &off);
    c.eq(&format!("{} C17 energy", what), &q.get_energy_for_average_n(3.5, 2.0), &(-(3.5 / 2.0) + off));
    c.eq(&format!("{} should_do_loop_update", what), &q.should_do_loop_update(), &gs.loops);
    c.eq(&format!("{} should_do_heatbath", what), &q.should_do_heatbath(), &gs.heatbath);
    c.eq(&format!("{} should_do_cluster_update", what), &q.should_do_cluster_update(), &(sym && edges));
}
fn mode_c04(r: &mut SplitMix64, n: usize) {
    for _ in 0..n {
        let gs = gen_generic_spec(r);
        let st = gen_state(r, gs.nvars);
        let seed = r.next();
        let beta = gen_beta(r);
        let input = format!(
            "c04 ctor kind={} {} loops={} hb={} state={} beta={} seed={}",
            gs.kind,
            terms_token(gs.nvars, &gs.terms),
            gs.loops,
            gs.heatbath,
            bits(&st),
            rat(beta),
            seed
        );
        let mut c = Chk::new();
        hit("Qmc::new_with_state");
        let canon = build_generic(&gs, st.clone(), seed);
        generic_same_model(&mut c, "new_with_state", &gs, &canon);
        hits(&["Qmc::get_offset", "Qmc::get_cutoff", "Qmc::get_manager_ref", "Qmc::clone_state"]);
        c.eq("C12 initial cutoff = nvars", &canon.get_cutoff(), &gs.nvars);
        c.eq("state", &canon.clone_state(), &st);
        c.eq("n", &canon.get_manager_ref().get_n(), &0);
        let mut variants: Vec<(&'static str, Q)> = vec![];
        if let Some(mut q) = c.call("new_with_state_with_manager_hook", || {
            Q::new_with_state_with_manager_hook(gs.nvars, SplitMix64::new(seed), st.clone(), gs.loops, |nv| {
                hit("OpContainerConstructor::new");
                <FastOps as OpContainerConstructor>::new(nv)
            })
        }) {
            c.res(add_terms(&mut q, &gs.terms));
            q.set_do_heatbath(gs.heatbath);
            variants.push(("new_with_state_with_manager_hook", q));
        }
        if let Some(q) = c.call("clone", || canon.clone()) {
            hit("Qmc::clone");
            variants.push(("clone", q));
        }
        if let Some(Ok(q)) = c.call("serde", || json_rt(&canon)) {
            hit("Qmc::serde");
            variants.push(("serde", q));
        }
        let jc = js(&canon);
        let mut run = canon.clone();
        for _ in 0..3 {
            run.timestep(beta);
        }
        let jr = js(&run);
        for (name, q) in variants.iter_mut() {
            generic_same_model(&mut c, name, &gs, q);
            c.res(json_same(&format!("C13 {} vs new_with_state", name), &jc, &js(q), &[]));
            if c.call("timestep", || (0..3).for_each(|_| {
                q.timestep(beta);
            }))
            .is_some()
            {
                c.res(json_same(&format!("C13 {} after 3 steps", name), &jr, &js(q), &[]));
                c.res(check_generic(q));
            }
        }
        // a clone does not influence its original
        c.res(json_same("C13 original untouched by its clones", &jc, &js(&canon), &[]));
        // Qmc::new draws the state from the rng it is given
        hit("Qmc::new");
        if let Some(mut q) = c.call("Qmc::new", || Q::new(gs.nvars, SplitMix64::new(seed), gs.loops)) {
            let mut rr = SplitMix64::new(seed);
            let drawn = make_random_spin_state(gs.nvars, &mut rr);
            c.res(add_terms(&mut q, &gs.terms));
            q.set_do_heatbath(gs.heatbath);
            let mut twin = Q::new_with_state(gs.nvars, rr, drawn.clone(), gs.loops);
            c.res(add_terms(&mut twin, &gs.terms));
            twin.set_do_heatbath(gs.heatbath);
            c.eq("Qmc::new state = make_random_spin_state(rng)", &q.clone_state(), &drawn);
            c.res(json_same("C13 Qmc::new vs new_with_state(drawn state, advanced rng)", &js(&twin), &js(&q), &[]));
            generic_same_model(&mut c, "Qmc::new", &gs, &q);
            let fin = q.state_ref().to_vec();
            hit("Qmc::into_vec");
            c.eq("into_vec = state_ref", &q.into_vec(), &fin);
        }
        let d = format!("{:?}", canon);
        hit("Qmc::fmt");
        c.ck(d.starts_with("Qmc"), || "Debug of Qmc".into());
        // interactions: Clone / PartialEq / Debug / serde
        for (b, bond) in canon.get_bonds().iter().enumerate() {
            let cl = bond.clone();
            hits(&["Interaction::clone", "Interaction::eq", "Interaction::fmt", "Interaction::serde"]);
            c.ck(cl == *bond, || format!("Interaction {} != its clone", b));
            c.res(json_same("Interaction clone", &js(bond), &js(&cl), &[]));
            match json_rt(bond) {
                Ok(rt) => c.ck(rt == *bond && js(&rt) == js(bond), || format!("Interaction {} serde round trip differs", b)),
                Err(e) => c.ck(false, || e),
            }
            c.ck(format!("{:?}", bond) == format!("{:?}", cl) && format!("{:?}", bond).contains("Interaction"), || "Interaction Debug".into());
            for (b2, other) in canon.get_bonds().iter().enumerate() {
                let same = js(bond) == js(other);
                c.ck((bond == other) == same, || format!("Interaction::eq({}, {}) = {} but snapshots equal = {}", b, b2, bond == other, same));
            }
        }
        case(true, &input, c.done());
    }
    // conversion: `Qmc::from(ising)` is `into_qmc`
    for _ in 0..max(2, n / 3) {
        let (s, g, beta) = warm_ising(r, None);
        let input = format!("c04 from-ising {} beta={} state={} slots={}", spec_token(&s), rat(beta), bits(g.state_ref()), show_slots(g.get_manager_ref()));
        let mut c = Chk::new();
        hits(&["Qmc::from", "IntoQmc::into_qmc"]);
        let a = c.call("Qmc::from", || Q::from(g.clone()));
        let b = c.call("into_qmc", || g.clone().into_qmc());
        if let (Some(mut a), Some(mut b)) = (a, b) {
            c.res(json_same("C15 Qmc::from vs into_qmc", &js(&b), &js(&a), &[]));
            c.eq("C15 state carried", &a.state_ref().to_vec(), &g.state_ref().to_vec());
            c.eq("C15 cutoff carried", &a.get_cutoff(), &g.get_cutoff());
            // (the container of the Ising sampler may still be shorter than the sampler's cutoff: compare the operators)
            let ops = |m: &FastOps| scan(m).into_iter().flatten().collect::<Vec<_>>();
            c.eq("C15 operators carried", &ops(a.get_manager_ref()), &ops(g.get_manager_ref()));
            c.res(check_generic(&a));
            a.timestep(beta);
            b.timestep(beta);
            c.res(json_same("C15 Qmc::from vs into_qmc after a step", &js(&b), &js(&a), &[]));
            c.res(check_generic(&a));
        }
        case(g.get_n() > 0, &input, c.done());
    }
}

// ------------------------------------------------------------------------------------------------------------------
// c19: classical sampler
// ------------------------------------------------------------------------------------------------------------------
fn classical_energy(edges: &[((usize, usize), f64)], biases: &[f64], s: &[bool]) -> f64 {
    let sp = |b: bool| if b { 1.0 } else { -1.0 };
    edges.iter().map(|((a, b), j)| j * sp(s[*a]) * sp(s[*b])).sum::<f64>() + biases.iter().enumerate().map(|(i, h)| -h * sp(s[i])).sum::<f64>()
}
fn mode_c19(r: &mut SplitMix64, n: usize) {
    for _ in 0..n {
        let nv = r.range(2, 6) as usize;
        let mut edges: Vec<((usize, usize), f64)> = vec![];
        for a in 0..nv {
            for b in a + 1..nv {
                if r.chance(1, 2) {
                    let j = *r.pick(&[-1.5, -1.0, -0.5, 0.5, 1.0, 1.5, 0.25]);
                    edges.push(if r.coin() { ((a, b), j) } else { ((b, a), j) });
                }
            }
        }
        if edges.is_empty() {
            edges.push(((0, 1), 1.0));
        }
        // parallel edges (the same pair listed twice, also with the same coupling) are two terms of the energy
        if r.chance(1, 3) {
            let e = *r.pick(&edges);
            edges.push(if r.coin() { e } else { (((e.0).1, (e.0).0), e.1) });
        }
        let biases: Vec<f64> = (0..nv).map(|_| *r.pick(&[0.0, 0.0, 0.5, -0.5, 1.0, -0.25])).collect();
        let beta = gen_beta(r);
        let st = gen_state(r, nv);
        let seed = r.next();
        let es: Vec<String> = edges.iter().map(|((a, b), j)| format!("{}:{}:{}", a, b, rat(*j))).collect();
        let input = format!("c19 classical {} {} beta={} state={} seed={}", es.join(","), rats(&biases), rat(beta), bits(&st), seed);
        let mut c = Chk::new();
        let canon = GraphState::new_with_state_and_rng(st.clone(), &edges, &biases, SplitMix64::new(seed));
        hits(&["GraphState::get_energy", "GraphState::state_ref", "GraphState::clone_state", "GraphState::fmt", "GraphState::clone"]);
        c.eq("C19 energy = direct sum", &canon.get_energy(), &classical_energy(&edges, &biases, &st));
        c.eq("state_ref", &canon.state_ref().to_vec(), &st);
        c.eq("clone_state", &canon.clone_state(), &st);
        c.eq("Debug", &format!("{:?}", canon), &format!("{}\t{}", bits(&st), canon.get_energy()));
        // GraphState::new draws its state from the rng
        hit("GraphState::new");
        let fresh = GraphState::new(&edges, &biases, SplitMix64::new(seed));
        let mut rr = SplitMix64::new(seed);
        let drawn = make_random_spin_state(nv, &mut rr);
        c.eq("GraphState::new state = make_random_spin_state(rng)", &fresh.state_ref().to_vec(), &drawn);
        let twin = GraphState::new_with_state_and_rng(drawn.clone(), &edges, &biases, rr);
        // lockstep: new vs canonical twin; original vs clone
        let run = |c: &mut Chk, what: &str, mut a: GraphState<SplitMix64>, mut b: GraphState<SplitMix64>, r: &mut SplitMix64| {
            let imp = r.coin();
            a.enable_edge_importance_sampling(imp);
            b.enable_edge_importance_sampling(imp);
            let mut script = SplitMix64::new(r.next());
            for step in 0..6 {
                let ns = if script.coin() { None } else { Some(script.range(1, 3) as usize) };
                let ne = if script.coin() { None } else { Some(script.range(1, 3) as usize) };
                let nw = if script.coin() { None } else { Some(1) };
                let basic = if script.coin() { None } else { Some(script.coin()) };
                let ra = catch(|| a.do_time_step(beta, ns, ne, nw, basic));
                let rb = catch(|| b.do_time_step(beta, ns, ne, nw, basic));
                match (ra, rb) {
                    (Ok(x), Ok(y)) => c.eq(&format!("{} step {} result", what, step), &x, &y),
                    (x, y) => {
                        c.ck(false, || format!("{} step {} panicked: {:?} / {:?}", what, step, x.err(), y.err()));
                        return;
                    }
                }
                c.eq(&format!("C13 {} step {} states", what, step), &a.state_ref().to_vec(), &b.state_ref().to_vec());
                c.eq(&format!("C19 {} number of spins", what), &a.state_ref().len(), &nv);
                c.eq(&format!("C19 {} energy = direct sum", what), &a.get_energy(), &classical_energy(&edges, &biases, a.state_ref()));
                c.eq(&format!("C13 {} Debug", what), &format!("{:?}", a), &format!("{:?}", b));
            }
            // the rngs must have advanced identically: one more step each
            let _ = a.do_time_step(beta, Some(3), Some(3), Some(1), None);
            let _ = b.do_time_step(beta, Some(3), Some(3), Some(1), None);
            c.eq(&format!("C13 {} after the run", what), &a.get_state(), &b.get_state());
            hit("GraphState::get_state");
        };
        run(&mut c, "GraphState::new vs new_with_state_and_rng", fresh, twin, r);
        let cl = canon.clone();
        c.eq("C13 clone Debug", &format!("{:?}", cl), &format!("{:?}", canon));
        let mut stepped = canon.clone();
        let _ = stepped.do_time_step(beta, Some(4), Some(4), Some(1), None);
        c.eq("C13 original untouched by stepping a clone", &canon.state_ref().to_vec(), &st);
        run(&mut c, "clone vs original", canon.clone(), cl, r);
        // set_state then energy (a stale cached value would show here)
        let mut g = canon.clone();
        let e0 = g.get_energy();
        let st2: Vec<bool> = st.iter().enumerate().map(|(i, b)| if i % 2 == 0 { !*b } else { *b }).collect();
        hit("GraphState::set_state");
        g.set_state(st2.clone());
        c.eq("C19 energy after set_state", &g.get_energy(), &classical_energy(&edges, &biases, &st2));
        let _ = e0;
        let _ = g.do_time_step(beta, None, None, None, None);
        c.eq("C19 energy after a step", &g.get_energy(), &classical_energy(&edges, &biases, g.state_ref()));
        // do_spin_flip / should_flip: the Metropolis rule with E = the energy the sampler reports
        let mut bm: Vec<Vec<(usize, f64)>> = vec![vec![]; nv];
        for ((a, b), j) in edges.iter() {
            bm[*a].push((*b, *j));
            bm[*b].push((*a, *j));
        }
        bm.iter_mut().for_each(|v| v.sort_by_key(|(i, _)| *i));
        for _ in 0..8 {
            let mut rec = RecRng::new(r.next());
            let mut replay = rec.clone();
            let mut s = gen_state(r, nv);
            let before = s.clone();
            hit("GraphState::do_spin_flip");
            if c.call("do_spin_flip", || GraphState::<RecRng>::do_spin_flip(&mut rec, beta, &bm, &biases, &mut s)).is_none() {
                break;
            }
            let idx = replay.gen_range(0..nv);
            let mut flipped = before.clone();
            flipped[idx] = !flipped[idx];
            let de = classical_energy(&edges, &biases, &flipped) - classical_energy(&edges, &biases, &before);
            let expect = if de > 0.0 {
                let u: f64 = replay.gen();
                let ch = (-beta * de).exp();
                if (u - ch).abs() < 1e-12 {
                    None
                } else {
                    Some(u < ch)
                }
            } else {
                Some(true)
            };
            c.eq("C19 do_spin_flip draws", &rec.log.len(), &replay.log.len());
            if let Some(e) = expect {
                c.eq(
                    &format!("C19 do_spin_flip on {} site {} dE={} accepts", bits(&before), idx, de),
                    &s,
                    &(if e { flipped.clone() } else { before.clone() }),
                );
            }
            // should_flip itself
            let mut rec = RecRng::new(r.next());
            let mut replay = rec.clone();
            hit("GraphState::should_flip");
            let got = GraphState::<RecRng>::should_flip(&mut rec, beta, de);
            if de > 0.0 {
                let u: f64 = replay.gen();
                let ch = (-beta * de).exp();
                if (u - ch).abs() >= 1e-12 {
                    c.eq(&format!("C19 should_flip(dE={})", de), &got, &(u < ch));
                }
                c.eq("C19 should_flip draws one word", &rec.log.len(), &1);
            } else {
                c.ck(got && rec.log.is_empty(), || format!("C19 should_flip(dE={} <= 0) must accept without a draw", de));
            }
        }
        case(true, &input, c.done());
    }
}

// ------------------------------------------------------------------------------------------------------------------
// c06 / c08 / c09: trait-level update functions (convenience wrappers and rng variants) against the sampler-level calls
// ------------------------------------------------------------------------------------------------------------------
fn rel_check(rel: &str, b: &[Option<SOp>], a: &[Option<SOp>]) -> Result<(), String> {
    match rel {
        "diag" => {
            if offdiag(b) != offdiag(a) {
                return Err("C06/C08 diagonal sweep changed an off-diagonal operator".into());
            }
            if a.len() < b.len() {
                return Err("C12 diagonal sweep shrank the string".into());
            }
        }
        "spin" => {
            if skeleton(b) != skeleton(a) || a.len() != b.len() {
                return Err("C07/C09 spin-only update changed which bonds sit at which positions".into());
            }
        }
        "rvb" => {
            if occupied(b) != occupied(a) || a.len() != b.len() {
                return Err("C07 RVB update changed the occupied positions".into());
            }
        }
        _ => {}
    }
    Ok(())
}
/// run one trait-level call on a manager with the pool oracle around it
fn pooled<T>(c: &mut Chk, what: &str, m: &mut FastOps, f: impl FnOnce(&mut FastOps) -> T) -> Option<T> {
    let a0 = alloc_snap(m);
    pool_begin();
    let r = c.call(what, || f(m));
    let pe = pool_end(what);
    if r.is_some() {
        c.res(pe);
        c.ck(alloc_snap(m) == a0, || format!("C18 {}: pool occupancy changed", what));
    }
    r
}
fn free_spins(m: &FastOps, st: &mut [bool], rng: &mut SplitMix64) {
    for v in 0..st.len() {
        if !m.does_var_have_ops(v) {
            st[v] = rng.gen_bool(0.5);
        }
    }
}
fn ising_ctx(s: &IsingSpec, g: &G, beta: f64) -> String {
    format!("{} beta={} cutoff={} rng={} state={} slots={}", spec_token(s), rat(beta), g.get_cutoff(), rng_of(g).s, bits(g.state_ref()), show_slots(g.get_manager_ref()))
}
fn ising_hclosure<'a>(ham: &'a IsingHam<'a>) -> impl Fn(&[usize], usize, &[bool], &[bool]) -> f64 + 'a {
    move |v, b, i, o| ham.hamiltonian(v, b, i, o)
}
fn ising_bond_weights(ham: &IsingHam) -> BondWeights {
    hit("HeatBathDiagonalUpdater::make_bond_weights");
    <FastOps as HeatBathDiagonalUpdater>::make_bond_weights(ising_hclosure(ham), ham.num_bonds(), |b| ham.edge_fn(b).0)
}

/// Metropolis diagonal sweep: `single_diagonal_step` = `…_with_rng_and_state_ref` = `…_with_rng` under the same rng state
fn diff_diag_ising(s: &IsingSpec, g: &G, beta: f64) {
    let ghost = g.clone();
    let vars: Vec<usize> = (0..s.nvars).collect();
    let ham = IsingHam { g: &ghost, vars: &vars };
    let hv = ising_view(&ghost);
    let mut c = Chk::new();
    let (cutoff, st0, rng0) = (g.get_cutoff(), g.clone_state(), rng_of(g));
    let before = scan(g.get_manager_ref());
    hits(&["QmcIsingGraph::single_diagonal_step", "DiagonalUpdater::make_diagonal_update_with_rng_and_state_ref", "DiagonalUpdater::make_diagonal_update_with_rng"]);
    let mut ga = g.clone();
    let ra = c.call("single_diagonal_step", || ga.single_diagonal_step(beta));
    let (mut mb, mut sb, mut rb) = (g.get_manager_ref().clone(), st0.clone(), rng0.clone());
    let rbr = pooled(&mut c, "make_diagonal_update_with_rng_and_state_ref", &mut mb, |m| m.make_diagonal_update_with_rng_and_state_ref(cutoff, beta, &mut sb, &ham, &mut rb));
    let (mut mc, mut rc) = (g.get_manager_ref().clone(), rng0.clone());
    let rcr = pooled(&mut c, "make_diagonal_update_with_rng", &mut mc, |m| m.make_diagonal_update_with_rng(cutoff, beta, &st0, &ham, &mut rc));
    if ra.is_some() && rbr.is_some() && rcr.is_some() {
        c.eq("C13 slots: single_diagonal_step vs trait-level sweep (state ref)", &show_slots(ga.get_manager_ref()), &show_slots(&mb));
        c.eq("C13 slots: with_rng vs with_rng_and_state_ref", &show_slots(&mc), &show_slots(&mb));
        c.eq("C13 rng after: sampler vs trait-level", &rng_of(&ga).s, &rb.s);
        c.eq("C13 rng after: with_rng vs state_ref", &rc.s, &rb.s);
        c.eq("C06 state after the sweep (state ref variant returns to the start)", &sb, &st0);
        c.eq("C06 sampler state after single_diagonal_step", &ga.state_ref().to_vec(), &st0);
        let n = mb.get_n();
        c.eq("C12 cutoff after single_diagonal_step = max(cutoff, n + n/2 + 1)", &ga.get_cutoff(), &max(cutoff, n + n / 2 + 1));
        c.res(rel_check("diag", &before, &scan(&mb)));
        c.res(check_config(&mb, &st0, &hv));
        c.res(check_nav(&mb, hv.nbonds));
        c.res(check_ising(&ga, &ghost));
        // a container with spare slots beyond the sweep length: the sweep depends on `cutoff` only
        let (mut me, mut se, mut re) = (g.get_manager_ref().clone(), st0.clone(), rng0.clone());
        me.set_cutoff(max(cutoff, me.get_cutoff()) + 7);
        if pooled(&mut c, "make_diagonal_update_with_rng_and_state_ref (spare slots)", &mut me, |m| m.make_diagonal_update_with_rng_and_state_ref(cutoff, beta, &mut se, &ham, &mut re)).is_some() {
            c.eq("C08 sweep over `cutoff` slots of a longer container: operators", &opslist(&me), &opslist(&mb));
            c.eq("C08 … rng", &re.s, &rb.s);
        }
    }
    case(!before.is_empty(), &format!("c06 diag-variants {}", ising_ctx(s, g, beta)), c.done());
}

/// heat-bath sweep: sampler-level = trait-level variants (= a sweep assembled from `heat_bath_single_diagonal_update`)
fn diff_heatbath_ising(mode: &str, s: &IsingSpec, g: &G, beta: f64, manual: bool) {
    let ghost = g.clone();
    let vars: Vec<usize> = (0..s.nvars).collect();
    let ham = IsingHam { g: &ghost, vars: &vars };
    let hv = ising_view(&ghost);
    let mut c = Chk::new();
    let (cutoff, st0, rng0) = (g.get_cutoff(), g.clone_state(), rng_of(g));
    let before = scan(g.get_manager_ref());
    let bw = ising_bond_weights(&ham);
    hits(&[
        "QmcIsingGraph::set_enable_heatbath",
        "HeatBathDiagonalUpdater::make_heatbath_diagonal_update_with_rng_and_state_ref",
        "HeatBathDiagonalUpdater::make_heatbath_diagonal_update_with_rng",
        "BondWeights::serde",
    ]);
    let mut ga = g.clone();
    ga.set_enable_heatbath(true);
    c.res(json_same("C02 bond weights: set_enable_heatbath vs make_bond_weights", &js(&ga)["bond_weights"], &js(&bw), &[]));
    // the table itself: per bond the maximal diagonal weight, cumulative sums
    let jb = js(&bw);
    let rows = jb["max_weight_and_cumulative"].as_array().cloned().unwrap_or_default();
    c.eq("C02 bond weight rows", &rows.len(), &hv.nbonds);
    let mut cum = 0.0;
    for (b, row) in rows.iter().enumerate() {
        let (vs, _) = (hv.edge)(b);
        let mx = patterns(vs.len()).iter().map(|p| (hv.w)(b, p, p)).fold(0.0, f64::max);
        cum += mx;
        c.ck(row[0].as_u64() == Some(b as u64) && row[1].as_f64() == Some(mx) && row[2].as_f64() == Some(cum), || {
            format!("C02/C08 bond weight row {} = {} expected [{}, {}, {}]", b, row, b, mx, cum)
        });
    }
    let ra = c.call("single_diagonal_step (heat bath)", || ga.single_diagonal_step(beta));
    let (mut mb, mut sb, mut rb) = (g.get_manager_ref().clone(), st0.clone(), rng0.clone());
    let rbr = pooled(&mut c, "make_heatbath_diagonal_update_with_rng_and_state_ref", &mut mb, |m| {
        m.make_heatbath_diagonal_update_with_rng_and_state_ref(cutoff, beta, &mut sb, &ham, &bw, &mut rb)
    });
    let (mut mc, mut rc) = (g.get_manager_ref().clone(), rng0.clone());
    let rcr = pooled(&mut c, "make_heatbath_diagonal_update_with_rng", &mut mc, |m| m.make_heatbath_diagonal_update_with_rng(cutoff, beta, &st0, &ham, &bw, &mut rc));
    if ra.is_some() && rbr.is_some() && rcr.is_some() {
        c.eq("C13 slots: heat-bath single_diagonal_step vs trait-level sweep", &show_slots(ga.get_manager_ref()), &show_slots(&mb));
        c.eq("C13 slots: with_rng vs with_rng_and_state_ref", &show_slots(&mc), &show_slots(&mb));
        c.eq("C13 rng after: sampler vs trait-level", &rng_of(&ga).s, &rb.s);
        c.eq("C13 rng after: with_rng vs state_ref", &rc.s, &rb.s);
        c.eq("C06 state after the sweep", &sb, &st0);
        let n = mb.get_n();
        c.eq("C12 cutoff after heat-bath single_diagonal_step", &ga.get_cutoff(), &max(cutoff, n + n / 2 + 1));
        c.res(rel_check("diag", &before, &scan(&mb)));
        c.res(check_config(&mb, &st0, &hv));
        c.res(check_nav(&mb, hv.nbonds));
        c.res(check_ising(&ga, &ghost));
    }
    if manual {
        hits(&["HeatBathDiagonalUpdater::heat_bath_single_diagonal_update", "DiagonalUpdater::mutate_ps"]);
        let (mut md, mut sd, mut rd) = (g.get_manager_ref().clone(), st0.clone(), rng0.clone());
        let r = pooled(&mut c, "mutate_ps + heat_bath_single_diagonal_update", &mut md, |m| {
            m.mutate_ps(0, cutoff, (&mut sd[..], &mut rd), |mm, op, (state, rng)| {
                let op = <FastOps as HeatBathDiagonalUpdater>::heat_bath_single_diagonal_update(op, cutoff, mm.get_n(), beta, state, (&ham, &bw), rng);
                (op, (state, rng))
            });
        });
        if r.is_some() && rbr.is_some() {
            c.eq("C08 sweep assembled from heat_bath_single_diagonal_update vs library sweep: slots", &show_slots(&md), &show_slots(&mb));
            c.eq("C08 … rng", &rd.s, &rb.s);
            c.eq("C08 … state", &sd, &sb);
        }
    }
    if rbr.is_some() {
        // a container with spare slots beyond the sweep length: the sweep depends on `cutoff` only
        let (mut me, mut se, mut re) = (g.get_manager_ref().clone(), st0.clone(), rng0.clone());
        me.set_cutoff(max(cutoff, me.get_cutoff()) + 5);
        if pooled(&mut c, "make_heatbath_diagonal_update_with_rng_and_state_ref (spare slots)", &mut me, |m| {
            m.make_heatbath_diagonal_update_with_rng_and_state_ref(cutoff, beta, &mut se, &ham, &bw, &mut re)
        })
        .is_some()
        {
            c.eq("C08 heat-bath sweep over `cutoff` slots of a longer container: operators", &opslist(&me), &opslist(&mb));
            c.eq("C08 … rng", &re.s, &rb.s);
        }
    }
    case(!before.is_empty(), &format!("{} heatbath-variants {}", mode, ising_ctx(s, g, beta)), c.done());
}

fn opslist<M: OpContainer>(m: &M) -> Vec<SOp> {
    scan(m).into_iter().flatten().collect()
}
fn long_ops(s: &[Option<SOp>], first_long: usize) -> Vec<SOp> {
    s.iter().flatten().filter(|o| o.bond >= first_long).cloned().collect()
}
/// cluster step: sampler-level = `flip_each_cluster_ising_symmetry_rng` = `flip_each_cluster_rng(None)` (+ free spins)
fn diff_cluster_ising(s: &IsingSpec, g: &G, beta: f64) {
    let ghost = g.clone();
    let hv = ising_view(&ghost);
    let mut c = Chk::new();
    let (st0, rng0) = (g.clone_state(), rng_of(g));
    let before = scan(g.get_manager_ref());
    let first_long = s.edges.len() + s.nvars;
    let m0 = g.get_manager_ref();
    hits(&["ClusterUpdater::find_constant_op", "QmcIsingGraph::single_cluster_step", "ClusterUpdater::flip_each_cluster_rng"]);
    let fc = before.iter().flatten().find(|o| o.constant && o.vars.len() == 1).map(|o| o.p);
    c.eq("C09 find_constant_op = first constant single-site op of the scan", &m0.find_constant_op(), &fc);
    let mut ga = g.clone();
    let na = c.call("single_cluster_step", || ga.single_cluster_step());
    let (mut mb, mut sb, mut rb) = (m0.clone(), st0.clone(), rng0.clone());
    let weighted = s.h.abs() > EPS;
    let wf = move |node: &FastOpNode| -> f64 {
        if node.get_op_ref().get_bond() >= first_long {
            0.0
        } else {
            1.0
        }
    };
    let nb = pooled(&mut c, "flip_each_cluster", &mut mb, |m| {
        if weighted {
            m.flip_each_cluster_rng(0.5, &mut rb, &mut sb, Some(wf))
        } else {
            hit("ClusterUpdater::flip_each_cluster_ising_symmetry_rng");
            m.flip_each_cluster_ising_symmetry_rng(0.5, &mut rb, &mut sb)
        }
    });
    if let (Some(na), Some(nb)) = (na, nb) {
        c.res(rel_check("spin", &before, &scan(&mb)));
        c.res(check_config(&mb, &sb, &hv));
        free_spins(&mb, &mut sb, &mut rb);
        c.eq("C09 number of clusters: sampler vs trait-level", &na, &nb);
        c.eq("C13 slots: single_cluster_step vs trait-level", &show_slots(ga.get_manager_ref()), &show_slots(&mb));
        c.eq("C13 state: single_cluster_step vs trait-level + free spins", &ga.state_ref().to_vec(), &sb);
        c.eq("C13 rng after", &rng_of(&ga).s, &rb.s);
        c.res(check_config(&mb, &sb, &hv));
        c.res(check_nav(&mb, hv.nbonds));
        c.res(check_ising(&ga, &ghost));
        c.eq("C09 longitudinal-field operators untouched by the cluster step", &long_ops(&scan(&mb), first_long), &long_ops(&before, first_long));
        // the decomposition of the result has the same number of clusters
        let (mut m2, mut s2, mut r2) = (mb.clone(), sb.clone(), SplitMix64::new(1));
        let n2 = pooled(&mut c, "flip_each_cluster_ising_symmetry_rng(prob 0)", &mut m2, |m| m.flip_each_cluster_ising_symmetry_rng(0.0, &mut r2, &mut s2));
        if let Some(n2) = n2 {
            c.eq("C09 the decomposition of the result finds the same number of clusters", &n2, &nb);
            c.eq("C09 probability 0 flips nothing", &show_slots(&m2), &show_slots(&mb));
        }
        if !weighted {
            let (mut mc, mut sc, mut rc) = (m0.clone(), st0.clone(), rng0.clone());
            let nc = pooled(&mut c, "flip_each_cluster_rng(None)", &mut mc, |m| m.flip_each_cluster_rng(0.5, &mut rc, &mut sc, None::<fn(&FastOpNode) -> f64>));
            free_spins(&mc, &mut sc, &mut rc);
            c.eq("C09 flip_each_cluster_rng(None) vs ising_symmetry: clusters", &nc, &Some(nb));
            c.eq("C13 flip_each_cluster_rng(None) vs ising_symmetry: slots", &show_slots(&mc), &show_slots(&mb));
            c.eq("C13 … state", &sc, &sb);
            c.eq("C13 … rng", &rc.s, &rb.s);
        }
    }
    case(!before.is_empty(), &format!("c09 cluster-variants {}", ising_ctx(s, g, beta)), c.done());
}

/// RVB sweep: `single_rvb_sweep(Some(k))` = `rvb_update` / `rvb_update_with_ising_weight` with an own `EdgeNavigator`
fn diff_rvb_ising(s: &IsingSpec, g: &G, beta: f64, k: usize) {
    let ghost = g.clone();
    let vars: Vec<usize> = (0..s.nvars).collect();
    let ham = IsingHam { g: &ghost, vars: &vars };
    let hv = ising_view(&ghost);
    let nav = nav_of(&ghost);
    let mut c = Chk::new();
    let (st0, rng0) = (g.clone_state(), rng_of(g));
    let before = scan(g.get_manager_ref());
    let first_long = s.edges.len() + s.nvars;
    let weighted = s.h.abs() > EPS;
    hits(&["QmcIsingGraph::single_rvb_sweep", "RvbUpdater::rvb_update_with_ising_weight", "EdgeNavigator::other_var_for_bond"]);
    let eh = |b: usize, sa: bool, sb: bool| {
        let (va, vb) = (nav.edges[b].0[0], nav.edges[b].0[1]);
        ham.hamiltonian(&[va, vb], b, &[sa, sb], &[sa, sb])
    };
    let mut ga = g.clone();
    let ra = c.call("single_rvb_sweep", || ga.single_rvb_sweep(Some(k)));
    let (mut mb, mut sb, mut rb) = (g.get_manager_ref().clone(), st0.clone(), rng0.clone());
    let nb = pooled(&mut c, "rvb_update", &mut mb, |m| {
        if weighted {
            m.rvb_update_with_ising_weight(&nav, &mut sb, k, eh, |op: &FastOp| if op.get_bond() >= first_long { 0.0 } else { 1.0 }, &mut rb)
        } else {
            hit("RvbUpdater::rvb_update");
            m.rvb_update(&nav, &mut sb, k, eh, &mut rb)
        }
    });
    if let (Some((succ, att)), Some(nb)) = (ra, nb) {
        c.eq("C03 attempts", &att, &k);
        c.eq("C03 successes: sampler vs trait-level", &succ, &nb);
        c.eq("C13 slots: single_rvb_sweep vs trait-level rvb update", &show_slots(ga.get_manager_ref()), &show_slots(&mb));
        c.eq("C13 state", &ga.state_ref().to_vec(), &sb);
        c.eq("C13 rng after", &rng_of(&ga).s, &rb.s);
        c.res(rel_check("rvb", &before, &scan(&mb)));
        c.res(check_config(&mb, &sb, &hv));
        c.res(check_nav(&mb, hv.nbonds));
        c.res(check_ising(&ga, &ghost));
        c.eq("C03 longitudinal-field operators untouched by the RVB update", &long_ops(&scan(&mb), first_long), &long_ops(&before, first_long));
        if !weighted {
            let (mut mc, mut sc, mut rc) = (g.get_manager_ref().clone(), st0.clone(), rng0.clone());
            let nc = pooled(&mut c, "rvb_update_with_ising_weight(|_| 1)", &mut mc, |m| m.rvb_update_with_ising_weight(&nav, &mut sc, k, eh, |_| 1.0, &mut rc));
            c.eq("C03 rvb_update vs rvb_update_with_ising_weight(1): successes", &nc, &Some(nb));
            c.eq("C13 … slots", &show_slots(&mc), &show_slots(&mb));
            c.eq("C13 … state", &sc, &sb);
            c.eq("C13 … rng", &rc.s, &rb.s);
        }
        // other_var_for_bond: the provided method of the navigator
        for (b, (e, _)) in nav.edges.iter().enumerate() {
            c.ck(nav.other_var_for_bond(e[0], b) == Some(e[1]) && nav.other_var_for_bond(e[1], b) == Some(e[0]), || format!("other_var_for_bond on bond {}", b));
            for v in 0..s.nvars {
                if v != e[0] && v != e[1] {
                    c.ck(nav.other_var_for_bond(v, b).is_none(), || format!("other_var_for_bond({}, {}) must be None", v, b));
                }
            }
        }
    }
    let _ = qmc::sse::qmc_traits::rvb::verif_hooks::take_trace();
    case(!before.is_empty(), &format!("c06 rvb-variants k={} {}", k, ising_ctx(s, g, beta)), c.done());
}

/// thread_rng convenience wrappers applied IN PLACE through `get_manager_mut` / `state_mut`; the sampler must stay
/// consistent and continue to work
fn inplace_ising(r: &mut SplitMix64, s: &IsingSpec, g0: &G, beta: f64, rounds: usize) {
    let ghost = g0.clone();
    let vars: Vec<usize> = (0..s.nvars).collect();
    let ham = IsingHam { g: &ghost, vars: &vars };
    let bw = ising_bond_weights(&ham);
    for _ in 0..rounds {
        // (a fresh copy per round: what is printed as the input never depends on thread_rng)
        let g = &mut g0.clone();
        let which = r.below(4);
        let mut c = Chk::new();
        let before = scan(g.get_manager_ref());
        let st = g.clone_state();
        let cutoff = g.get_cutoff();
        let n0 = g.get_n();
        let ctx = ising_ctx(s, g, beta);
        let a0 = alloc_snap(g.get_manager_ref());
        hits(&["QmcIsingGraph::get_manager_mut", "QmcIsingGraph::state_mut"]);
        pool_begin();
        let (name, rel) = match which {
            0 => {
                hit("DiagonalUpdater::make_diagonal_update");
                c.call("make_diagonal_update", || g.get_manager_mut().make_diagonal_update(cutoff, beta, &st, &ham));
                ("make_diagonal_update", "diag")
            }
            1 => {
                hit("HeatBathDiagonalUpdater::make_heatbath_diagonal_update");
                c.call("make_heatbath_diagonal_update", || g.get_manager_mut().make_heatbath_diagonal_update(cutoff, beta, &st, &ham, &bw));
                ("make_heatbath_diagonal_update", "diag")
            }
            _ => {
                hit("LoopUpdater::make_loop_update");
                let init = if which == 2 || n0 == 0 { None } else { Some(r.below(n0 as u64) as usize) };
                let mut s2 = st.clone();
                c.call("make_loop_update", || g.get_manager_mut().make_loop_update(init, ising_hclosure(&ham), &mut s2));
                *g.state_mut() = s2;
                (if init.is_some() { "make_loop_update(Some)" } else { "make_loop_update(None)" }, "spin")
            }
        };
        c.res(pool_end(name));
        c.ck(alloc_snap(g.get_manager_ref()) == a0, || format!("C18 {}: pool occupancy changed", name));
        if c.errs.is_empty() {
            c.res(rel_check(rel, &before, &scan(g.get_manager_ref())));
            c.res(check_ising(g, &ghost));
            // the sampler continues
            let cut = g.get_cutoff();
            if c.call("timestep after the in-place update", || {
                g.timestep(beta);
            })
            .is_some()
            {
                c.res(check_ising(g, &ghost));
                c.res(cutoff_rule(g.get_cutoff(), g.get_n()));
                c.ck(g.get_cutoff() >= cut, || "C12 cutoff decreased".into());
            }
        }
        let failed = !c.errs.is_empty();
        case(!before.is_empty(), &format!("c06 inplace {} {}", name, ctx), c.done());
        if failed {
            return;
        }
    }
}

fn gen_hclosure<'a>(bonds: &'a [Interaction]) -> impl Fn(&[usize], usize, &[bool], &[bool]) -> f64 + 'a + Copy {
    move |_v, b, i, o| bonds[b].at(i, o).unwrap()
}
fn generic_ctx(gs: &GenSpec, q: &Q, beta: f64) -> String {
    format!(
        "kind={} {} loops={} hb={} beta={} cutoff={} rng={} state={} slots={}",
        gs.kind,
        terms_token(gs.nvars, &gs.terms),
        gs.loops,
        gs.heatbath,
        rat(beta),
        q.get_cutoff(),
        rng_of(q).s,
        bits(q.state_ref()),
        show_slots(q.get_manager_ref())
    )
}
/// generic sampler: every sampler-level update = the trait-level function on a copy of its manager under the same rng state;
/// thread_rng wrappers keep every invariant
fn diff_generic(mode: &str, r: &mut SplitMix64, gs: &GenSpec, q: &Q, beta: f64, manual: bool) {
    let vars = generic_vars(q.get_bonds());
    let table = generic_table(q.get_bonds(), &vars);
    let ham = GenHam { bonds: q.get_bonds(), table: &table };
    let hv = generic_view(q.get_bonds(), &table);
    let h = gen_hclosure(q.get_bonds());
    let (cutoff, st0, rng0) = (q.get_cutoff(), q.clone_state(), rng_of(q));
    let before = scan(q.get_manager_ref());
    let m0 = q.get_manager_ref();
    let ctx = generic_ctx(gs, q, beta);
    let bw = <FastOps as HeatBathDiagonalUpdater>::make_bond_weights(h, ham.num_bonds(), |b| ham.edge_fn(b).0);
    // diagonal
    {
        let mut c = Chk::new();
        // the heat-bath table: per bond the largest diagonal weight (over ALL 2^k diagonal patterns), cumulative sums
        let rows = js(&bw)["max_weight_and_cumulative"].as_array().cloned().unwrap_or_default();
        c.eq("C02 bond weight rows", &rows.len(), &table.len());
        let mut cum = 0.0;
        for (b, row) in rows.iter().enumerate() {
            let mx = patterns(table[b].vars.len()).iter().map(|p| (hv.w)(b, p, p)).fold(0.0, f64::max);
            cum += mx;
            c.ck(row[0].as_u64() == Some(b as u64) && row[1].as_f64() == Some(mx) && row[2].as_f64() == Some(cum), || {
                format!("C02/C08 bond weight row {} = {} expected [{}, {}, {}]", b, row, b, mx, cum)
            });
        }
        let mut qa = q.clone();
        let ra = c.call("Qmc::diagonal_update", || qa.diagonal_update(beta));
        let (mut mb, mut sb, mut rb) = (m0.clone(), st0.clone(), rng0.clone());
        let rbr = pooled(&mut c, "trait-level diagonal sweep", &mut mb, |m| {
            if gs.heatbath {
                m.make_heatbath_diagonal_update_with_rng_and_state_ref(cutoff, beta, &mut sb, &ham, &bw, &mut rb)
            } else {
                m.make_diagonal_update_with_rng_and_state_ref(cutoff, beta, &mut sb, &ham, &mut rb)
            }
        });
        let (mut mc, mut rc) = (m0.clone(), rng0.clone());
        let rcr = pooled(&mut c, "trait-level diagonal sweep (with_rng)", &mut mc, |m| {
            if gs.heatbath {
                hit("HeatBathDiagonalUpdater::make_heatbath_diagonal_update_with_rng");
                m.make_heatbath_diagonal_update_with_rng(cutoff, beta, &st0, &ham, &bw, &mut rc)
            } else {
                hit("DiagonalUpdater::make_diagonal_update_with_rng");
                m.make_diagonal_update_with_rng(cutoff, beta, &st0, &ham, &mut rc)
            }
        });
        if ra.is_some() && rbr.is_some() && rcr.is_some() {
            c.eq("C13 slots: Qmc::diagonal_update vs trait-level sweep", &show_slots(qa.get_manager_ref()), &show_slots(&mb));
            c.eq("C13 slots: with_rng vs state_ref", &show_slots(&mc), &show_slots(&mb));
            c.eq("C13 rng: sampler vs trait-level", &rng_of(&qa).s, &rb.s);
            c.eq("C13 rng: with_rng vs state_ref", &rc.s, &rb.s);
            c.eq("C06 state after the sweep", &sb, &st0);
            let n = mb.get_n();
            c.eq("C12 cutoff after Qmc::diagonal_update", &qa.get_cutoff(), &max(cutoff, n + n / 2 + 1));
            if gs.heatbath {
                c.res(json_same("C02 cached bond weights vs make_bond_weights", &js(&qa)["bond_weights"], &js(&bw), &[]));
            }
            c.res(rel_check("diag", &before, &scan(&mb)));
            c.res(check_config(&mb, &st0, &hv));
            c.res(check_nav(&mb, hv.nbonds));
            c.res(check_generic(&qa));
            // spare slots beyond the sweep length do not matter
            let (mut me, mut se, mut re) = (m0.clone(), st0.clone(), rng0.clone());
            me.set_cutoff(max(cutoff, me.get_cutoff()) + 6);
            if pooled(&mut c, "trait-level diagonal sweep (spare slots)", &mut me, |m| {
                if gs.heatbath {
                    m.make_heatbath_diagonal_update_with_rng_and_state_ref(cutoff, beta, &mut se, &ham, &bw, &mut re)
                } else {
                    m.make_diagonal_update_with_rng_and_state_ref(cutoff, beta, &mut se, &ham, &mut re)
                }
            })
            .is_some()
            {
                c.eq("C08 sweep over `cutoff` slots of a longer container: operators", &opslist(&me), &opslist(&mb));
                c.eq("C08 … rng", &re.s, &rb.s);
            }
        }
        if manual {
            hit("HeatBathDiagonalUpdater::heat_bath_single_diagonal_update");
            let (mut mh, mut sh, mut rh) = (m0.clone(), st0.clone(), rng0.clone());
            let lib = pooled(&mut c, "heat-bath sweep", &mut mh, |m| m.make_heatbath_diagonal_update_with_rng_and_state_ref(cutoff, beta, &mut sh, &ham, &bw, &mut rh));
            let (mut md, mut sd, mut rd) = (m0.clone(), st0.clone(), rng0.clone());
            let man = pooled(&mut c, "mutate_ps + heat_bath_single_diagonal_update", &mut md, |m| {
                m.mutate_ps(0, cutoff, (&mut sd[..], &mut rd), |mm, op, (state, rng)| {
                    let op = <FastOps as HeatBathDiagonalUpdater>::heat_bath_single_diagonal_update(op, cutoff, mm.get_n(), beta, state, (&ham, &bw), rng);
                    (op, (state, rng))
                });
            });
            if lib.is_some() && man.is_some() {
                c.eq("C08 sweep assembled from heat_bath_single_diagonal_update vs library sweep: slots", &show_slots(&md), &show_slots(&mh));
                c.eq("C08 … rng", &rd.s, &rh.s);
                c.eq("C08 … state", &sd, &sh);
                c.res(rel_check("diag", &before, &scan(&mh)));
                c.res(check_config(&mh, &st0, &hv));
            }
        }
        case(!before.is_empty(), &format!("{} generic-diag-variants {}", mode, ctx), c.done());
    }
    if manual {
        return;
    }
    // loop
    {
        let mut c = Chk::new();
        let mut qa = q.clone();
        let ra = c.call("Qmc::loop_update", || qa.loop_update());
        let (mut mb, mut sb, mut rb) = (m0.clone(), st0.clone(), rng0.clone());
        let rbr = pooled(&mut c, "make_loop_update_with_rng(None)", &mut mb, |m| m.make_loop_update_with_rng(None, h, &mut sb, &mut rb));
        if ra.is_some() && rbr.is_some() {
            c.eq("C13 slots: Qmc::loop_update vs trait-level", &show_slots(qa.get_manager_ref()), &show_slots(&mb));
            c.eq("C13 state", &qa.state_ref().to_vec(), &sb);
            c.eq("C13 rng", &rng_of(&qa).s, &rb.s);
            c.res(rel_check("spin", &before, &scan(&mb)));
            c.res(check_config(&mb, &sb, &hv));
            c.res(check_nav(&mb, hv.nbonds));
        }
        // a loop started at the k-th op
        let n0 = m0.get_n();
        if n0 > 0 {
            let k = r.below(n0 as u64) as usize;
            let (mut mc, mut sc, mut rc) = (m0.clone(), st0.clone(), rng0.clone());
            if pooled(&mut c, "make_loop_update_with_rng(Some(k))", &mut mc, |m| m.make_loop_update_with_rng(Some(k), h, &mut sc, &mut rc)).is_some() {
                c.res(rel_check("spin", &before, &scan(&mc)));
                c.res(check_config(&mc, &sc, &hv));
            }
        }
        // thread_rng wrappers: invariants only
        for which in 0..3 {
            let (mut mc, mut sc) = (m0.clone(), st0.clone());
            let (name, rel): (&'static str, &str) = match which {
                0 => ("LoopUpdater::make_loop_update", "spin"),
                1 => ("DiagonalUpdater::make_diagonal_update", "diag"),
                _ => ("HeatBathDiagonalUpdater::make_heatbath_diagonal_update", "diag"),
            };
            hit(name);
            let ok = pooled(&mut c, name, &mut mc, |m| match which {
                0 => m.make_loop_update(None, h, &mut sc),
                1 => m.make_diagonal_update(cutoff, beta, &st0, &ham),
                _ => m.make_heatbath_diagonal_update(cutoff, beta, &st0, &ham, &bw),
            });
            if ok.is_some() {
                c.res(rel_check(rel, &before, &scan(&mc)).map_err(|e| format!("{}: {}", name, e)));
                c.res(check_config(&mc, &sc, &hv).map_err(|e| format!("{}: {}", name, e)));
                c.res(check_nav(&mc, hv.nbonds).map_err(|e| format!("{}: {}", name, e)));
            }
        }
        case(!before.is_empty(), &format!("{} generic-loop-variants {}", mode, ctx), c.done());
    }
    // cluster + free spins
    {
        let mut c = Chk::new();
        let mut qa = q.clone();
        let can = q.should_do_cluster_update();
        let ra = c.call("Qmc::cluster_update", || qa.cluster_update().map_err(|e| e.to_string()));
        let (mut mb, mut sb, mut rb) = (m0.clone(), st0.clone(), rng0.clone());
        if let Some(ra) = ra {
            let sym = q.get_bonds().iter().all(|b| b.sym_under_ising());
            c.eq("C09 cluster_update is refused exactly for symmetry-breaking models", &ra.is_ok(), &sym);
            if ra.is_ok() {
                let nb = pooled(&mut c, "flip_each_cluster_ising_symmetry_rng", &mut mb, |m| m.flip_each_cluster_ising_symmetry_rng(0.5, &mut rb, &mut sb));
                if nb.is_some() {
                    c.eq("C13 slots: Qmc::cluster_update vs trait-level", &show_slots(qa.get_manager_ref()), &show_slots(&mb));
                    c.eq("C13 state", &qa.state_ref().to_vec(), &sb);
                    c.eq("C13 rng", &rng_of(&qa).s, &rb.s);
                    c.res(rel_check("spin", &before, &scan(&mb)));
                    c.res(check_config(&mb, &sb, &hv));
                    let fc = before.iter().flatten().find(|o| o.constant && o.vars.len() == 1).map(|o| o.p);
                    c.eq("C09 find_constant_op", &m0.find_constant_op(), &fc);
                }
            }
        }
        let _ = can;
        let mut qf = q.clone();
        if c.call("flip_free_bits", || qf.flip_free_bits()).is_some() {
            let (mut sf, mut rf) = (st0.clone(), rng0.clone());
            free_spins(m0, &mut sf, &mut rf);
            c.eq("C13 flip_free_bits vs manual refresh: state", &qf.state_ref().to_vec(), &sf);
            c.eq("C13 flip_free_bits rng", &rng_of(&qf).s, &rf.s);
            c.res(check_generic(&qf));
        }
        case(!before.is_empty(), &format!("{} generic-cluster-variants {}", mode, ctx), c.done());
    }
}

/// an interaction registered AFTER steps were taken (a cached heat-bath table must not survive it)
fn late_term(r: &mut SplitMix64, gs: &mut GenSpec, q: &mut Q) {
    let v = r.below(gs.nvars as u64) as usize;
    let c = *r.pick(&[0.5, 1.0, 2.0]);
    let t = match r.below(3) {
        0 => Term { ctor: 2, mat: vec![c, c], vars: vec![v] },
        1 => Term { ctor: 0, mat: vec![c, c, c, c], vars: vec![v] },
        _ => Term { ctor: 0, mat: vec![c, 0.5, 0.5, c], vars: vec![v] },
    };
    add_terms(q, &[t.clone()]).expect("legal interaction");
    gs.terms.push(t);
}
fn mode_c06(r: &mut SplitMix64, n: usize) {
    for _ in 0..n {
        let (s, g, beta) = warm_ising(r, None);
        diff_diag_ising(&s, &g, beta);
        diff_heatbath_ising("c06", &s, &g, beta, false);
        let k = r.range(0, 4) as usize;
        diff_rvb_ising(&s, &g, beta, k);
        inplace_ising(r, &s, &g, beta, 3);
    }
    for _ in 0..n {
        let (mut gs, mut q, beta) = warm_generic(r);
        if r.coin() {
            late_term(r, &mut gs, &mut q);
        }
        diff_generic("c06", r, &gs, &q, beta, false);
    }
}
fn mode_c08(r: &mut SplitMix64, n: usize) {
    for _ in 0..n {
        let (s, g, beta) = warm_ising(r, None);
        diff_heatbath_ising("c08", &s, &g, beta, true);
        let (mut gs, mut q, beta) = warm_generic(r);
        if r.coin() {
            late_term(r, &mut gs, &mut q);
        }
        diff_generic("c08", r, &gs, &q, beta, true);
    }
}
fn mode_c09(r: &mut SplitMix64, n: usize) {
    hit("cluster::is_valid_cluster_edge");
    let mut c = Chk::new();
    for constant in [false, true] {
        for nv in 0..5 {
            c.eq("C09 is_valid_cluster_edge = constant and single-site", &is_valid_cluster_edge(constant, nv), &(constant && nv == 1));
        }
    }
    case(true, "c09 is_valid_cluster_edge all", c.done());
    for _ in 0..n {
        let with_h = r.coin();
        let (s, g, beta) = warm_ising(r, Some(with_h));
        diff_cluster_ising(&s, &g, beta);
    }
}

// ------------------------------------------------------------------------------------------------------------------
// c07: the `Op` trait surface of the stored operator type, small value types
// ------------------------------------------------------------------------------------------------------------------
type SubSt = smallvec::SmallVec<[bool; 2]>;
fn xor(a: &[bool], m: &[bool]) -> Vec<bool> {
    a.iter().zip(m.iter()).map(|(x, y)| x ^ y).collect()
}
fn value_type_checks<T>(c: &mut Chk, what: &str, x: &T, other: Option<&T>)
where
    T: Clone + PartialEq + std::fmt::Debug + serde::Serialize + serde::de::DeserializeOwned,
{
    let cl = x.clone();
    c.ck(cl == *x, || format!("{}: clone != original", what));
    c.ck(js(&cl) == js(x), || format!("{}: clone serialises differently", what));
    c.ck(format!("{:?}", cl) == format!("{:?}", x) && !format!("{:?}", x).is_empty(), || format!("{}: Debug of clone differs", what));
    match json_rt(x) {
        Ok(rt) => c.ck(rt == *x && js(&rt) == js(x), || format!("C14 {}: serde round trip {:?} -> {} -> {:?}", what, x, js(x), rt)),
        Err(e) => c.ck(false, || format!("C14 {}: {}", what, e)),
    }
    if let Some(o) = other {
        c.ck((o == x) == (js(o) == js(x)), || format!("{}: eq({:?}, {:?}) = {} disagrees with the snapshots", what, x, o, o == x));
    }
}
fn mode_c07(r: &mut SplitMix64, n: usize) {
    for _ in 0..n {
        let k = r.range(1, 3) as usize;
        let mut pool: Vec<usize> = (0..6).collect();
        let mut vars = vec![];
        for _ in 0..k {
            vars.push(pool.remove(r.below(pool.len() as u64) as usize));
        }
        let bond = r.below(9) as usize;
        let ins: Vec<bool> = (0..k).map(|_| r.coin()).collect();
        let mut outs: Vec<bool> = (0..k).map(|_| r.coin()).collect();
        if outs == ins {
            outs[0] = !outs[0];
        }
        let constant = r.coin();
        let mi: Vec<bool> = (0..k).map(|_| r.coin()).collect();
        let mo: Vec<bool> = if r.coin() { mi.clone() } else { (0..k).map(|_| r.coin()).collect() };
        let input = format!("c07 op vars={} bond={} ins={} outs={} const={} editmask={}/{}", list(&vars), bond, bits(&ins), bits(&outs), constant, bits(&mi), bits(&mo));
        let mut c = Chk::new();
        hits(&["Op::diagonal", "Op::offdiagonal", "Op::make_vars", "Op::make_substate", "Op::index_of_var", "Op::clone_inputs", "Op::clone_outputs"]);
        let d = FastOp::diagonal(vars.clone(), bond, ins.clone(), constant);
        let o = FastOp::offdiagonal(vars.clone(), bond, ins.clone(), outs.clone(), constant);
        for (name, op, ei, eo) in [("diagonal", &d, &ins, &ins), ("offdiagonal", &o, &ins, &outs)] {
            c.eq(&format!("{} get_vars", name), &op.get_vars().to_vec(), &vars);
            c.eq(&format!("{} get_bond", name), &op.get_bond(), &bond);
            c.eq(&format!("{} get_inputs", name), &op.get_inputs().to_vec(), ei);
            c.eq(&format!("{} get_outputs", name), &op.get_outputs().to_vec(), eo);
            c.eq(&format!("{} clone_inputs", name), &op.clone_inputs().to_vec(), ei);
            c.eq(&format!("{} clone_outputs", name), &op.clone_outputs().to_vec(), eo);
            c.eq(&format!("C07 {} is_diagonal", name), &op.is_diagonal(), &(ei == eo));
            c.eq(&format!("{} is_constant", name), &op.is_constant(), &constant);
            for v in 0..7 {
                c.eq(&format!("{} index_of_var({})", name, v), &op.index_of_var(v), &vars.iter().position(|x| *x == v));
            }
        }
        c.eq("make_vars", &FastOp::make_vars(vars.iter().cloned()).to_vec(), &vars);
        c.eq("make_substate", &FastOp::make_substate(ins.iter().cloned()).to_vec(), &ins);
        hits(&["Op::clone_and_edit_in_out", "Op::edit_in_out", "Op::clone_and_edit_in_out_symmetric", "Op::edit_in_out_symmetric"]);
        let flip = |s: &mut [bool], m: &[bool]| s.iter_mut().zip(m.iter()).for_each(|(b, f)| *b ^= *f);
        for (name, op, bi, bo) in [("diagonal", &d, &ins, &ins), ("offdiagonal", &o, &ins, &outs)] {
            let (ei, eo) = (xor(bi, &mi), xor(bo, &mo));
            let x = op.clone_and_edit_in_out(|i, o| {
                flip(i, &mi);
                flip(o, &mo);
            });
            let mut y = op.clone();
            y.edit_in_out(|i, o| {
                flip(i, &mi);
                flip(o, &mo);
            });
            for (how, z) in [("clone_and_edit_in_out", &x), ("edit_in_out", &y)] {
                c.eq(&format!("{} {} inputs", how, name), &z.get_inputs().to_vec(), &ei);
                c.eq(&format!("{} {} outputs", how, name), &z.get_outputs().to_vec(), &eo);
                c.eq(&format!("C07 {} {}: diagonal tag agrees with the recorded values", how, name), &z.is_diagonal(), &(ei == eo));
                c.eq(&format!("{} {} vars", how, name), &z.get_vars().to_vec(), &vars);
                c.eq(&format!("{} {} bond", how, name), &z.get_bond(), &bond);
                c.eq(&format!("{} {} constant", how, name), &z.is_constant(), &constant);
            }
            c.ck(x == y, || format!("{}: edit_in_out and clone_and_edit_in_out disagree: {:?} vs {:?}", name, y, x));
            // the same edit again restores the op exactly
            let back = x.clone_and_edit_in_out(|i, o| {
                flip(i, &mi);
                flip(o, &mo);
            });
            c.ck(back == *op, || format!("{}: editing twice does not restore {:?}: {:?}", name, op, back));
            // symmetric edits
            let (si, so) = (xor(bi, &mi), xor(bo, &mi));
            let xs = op.clone_and_edit_in_out_symmetric(|s| flip(s, &mi));
            let mut ys = op.clone();
            ys.edit_in_out_symmetric(|s| flip(s, &mi));
            for (how, z) in [("clone_and_edit_in_out_symmetric", &xs), ("edit_in_out_symmetric", &ys)] {
                c.eq(&format!("{} {} inputs", how, name), &z.get_inputs().to_vec(), &si);
                c.eq(&format!("{} {} outputs", how, name), &z.get_outputs().to_vec(), &so);
                c.eq(&format!("C07 {} {} keeps the diagonal tag", how, name), &z.is_diagonal(), &op.is_diagonal());
                c.eq(&format!("{} {} vars/bond/constant", how, name), &(z.get_vars().to_vec(), z.get_bond(), z.is_constant()), &(vars.clone(), bond, constant));
            }
            c.ck(xs == ys, || format!("{}: symmetric edit variants disagree", name));
        }
        hits(&["BasicOp::clone", "BasicOp::eq", "BasicOp::fmt", "BasicOp::serde", "OpType::clone", "OpType::eq", "OpType::fmt", "OpType::serde"]);
        value_type_checks(&mut c, "BasicOp(diagonal)", &d, Some(&o));
        value_type_checks(&mut c, "BasicOp(offdiagonal)", &o, Some(&d));
        // an op written with `offdiagonal` although it changes nothing (the crate's own tests write constant ops like this):
        // copies and snapshots must give back exactly this op (same variant, hence same `is_diagonal()`)
        let oo = FastOp::offdiagonal(vars.clone(), bond, ins.clone(), ins.clone(), constant);
        value_type_checks(&mut c, "BasicOp(offdiagonal with equal values)", &oo, Some(&d));
        if let Ok(rt) = json_rt(&oo) {
            c.eq("C14 is_diagonal() of a restored offdiagonal-with-equal-values op", &rt.is_diagonal(), &oo.is_diagonal());
        }
        let too: OpType<SubSt> = OpType::Offdiagonal(ins.iter().cloned().collect(), ins.iter().cloned().collect());
        value_type_checks(&mut c, "OpType::Offdiagonal(s, s)", &too, None);
        let other_bond = FastOp::diagonal(vars.clone(), bond + 1, ins.clone(), constant);
        let other_const = FastOp::diagonal(vars.clone(), bond, ins.clone(), !constant);
        c.ck(d != other_bond && d != other_const && d != o, || "BasicOp::eq ignores bond / constant / values".into());
        c.ck(format!("{:?}", d).contains("BasicOp") && format!("{:?}", d).contains("Diagonal"), || "BasicOp Debug".into());
        let td: OpType<SubSt> = OpType::Diagonal(ins.iter().cloned().collect());
        let to: OpType<SubSt> = OpType::Offdiagonal(ins.iter().cloned().collect(), outs.iter().cloned().collect());
        value_type_checks(&mut c, "OpType::Diagonal", &td, Some(&to));
        value_type_checks(&mut c, "OpType::Offdiagonal", &to, Some(&td));
        c.ck(td != to, || "OpType::eq".into());
        hits(&["OpSide::clone", "OpSide::eq", "OpSide::fmt", "OpSide::serde", "OpSide::reverse"]);
        value_type_checks(&mut c, "OpSide", &OpSide::Inputs, Some(&OpSide::Outputs));
        value_type_checks(&mut c, "OpSide", &OpSide::Outputs, Some(&OpSide::Inputs));
        c.ck(OpSide::Inputs.reverse() == OpSide::Outputs && OpSide::Outputs.reverse() == OpSide::Inputs && OpSide::Inputs != OpSide::Outputs, || "OpSide::reverse".into());
        hits(&["PRel::from", "PRel::clone", "PRel::eq", "PRel::fmt", "PRel::serde"]);
        let pr = PRel::from((bond, k));
        c.ck(pr.p == bond && pr.relv == k && pr == PRel { p: bond, relv: k }, || "PRel::from".into());
        value_type_checks(&mut c, "PRel", &pr, Some(&PRel { p: bond, relv: k + 1 }));
        value_type_checks(&mut c, "PRel", &pr, Some(&PRel { p: bond + 1, relv: k }));
        c.ck(js(&pr)["p"].as_u64() == Some(bond as u64) && js(&pr)["relv"].as_u64() == Some(k as u64), || format!("PRel snapshot {}", js(&pr)));
        hits(&["VarPos::default", "VarPos::clone", "VarPos::fmt", "VarPos_into::from"]);
        let vp = VarPos::default();
        let vp2 = vp;
        c.ck(usize::from(vp2) == 0 && format!("{:?}", vp.clone()).contains("VarPos"), || "VarPos default / Debug".into());
        case(true, &input, c.done());
    }
}

// ------------------------------------------------------------------------------------------------------------------
// c11: accessors of the optimised container = scan; the naive container drives the generic sampler
// ------------------------------------------------------------------------------------------------------------------
fn accessor_checks(r: &mut SplitMix64, c: &mut Chk, m: &mut FastOps, state: &[bool], nbonds: usize) {
    let s = scan(m);
    let occ = occupied(&s);
    let nvars = m.get_nvars();
    c.res(check_nav(m, nbonds));
    if s.len() > 1 {
        // the container only ever grows: a smaller value leaves everything as it is
        let j0 = js(m);
        m.set_cutoff(r.below(s.len() as u64) as usize);
        c.ck(js(m) == j0 && m.get_cutoff() == s.len(), || "C12 OpContainer::set_cutoff with a smaller value changed the container".into());
    }
    hits(&["RvbUpdater::constant_ops_on_var", "RvbUpdater::spin_flips_on_var"]);
    for v in 0..nvars {
        let mut ps = vec![777usize];
        m.constant_ops_on_var(v, &mut ps);
        let mut e = vec![777usize];
        e.extend(s.iter().flatten().filter(|o| o.constant && o.vars.contains(&v)).map(|o| o.p));
        c.eq(&format!("C11 constant_ops_on_var({})", v), &ps, &e);
        let mut ps = vec![777usize];
        m.spin_flips_on_var(v, &mut ps);
        let mut e = vec![777usize];
        e.extend(s.iter().flatten().filter(|o| o.vars.iter().position(|x| *x == v).map(|k| o.ins[k] != o.outs[k]).unwrap_or(false)).map(|o| o.p));
        c.eq(&format!("C11 spin_flips_on_var({})", v), &ps, &e);
    }
    hits(&["DebugOps::count_diagonal_and_off", "DebugOps::count_constant_ops", "ClusterUpdater::find_constant_op"]);
    let nd = s.iter().flatten().filter(|o| o.ins == o.outs).count();
    c.eq("C11 count_diagonal_and_off", &DebugOps::count_diagonal_and_off(m), &(nd, occ.len() - nd));
    c.eq("C11 count_constant_ops", &DebugOps::count_constant_ops(m), &s.iter().flatten().filter(|o| o.constant).count());
    c.eq("C09 find_constant_op", &m.find_constant_op(), &s.iter().flatten().find(|o| o.constant && o.vars.len() == 1).map(|o| o.p));
    // nodes: get_op / get_op_mut / get_node_mut
    hits(&["LoopUpdater::get_node_mut", "OpNode::get_op", "OpNode::get_op_mut", "FastOpNodeTemplate::clone", "FastOpNodeTemplate::fmt", "FastOpNodeTemplate::serde"]);
    let j0 = js(m);
    for p in 0..s.len() {
        match (m.get_node_mut(p), &s[p]) {
            (None, None) => {}
            (Some(node), Some(o)) => {
                c.ck(sop(p, &node.get_op()) == *o, || format!("C11 get_op at {}", p));
                node.get_op_mut().edit_in_out_symmetric(|st| st.iter_mut().for_each(|b| *b = !*b));
                let flipped = sop(p, node.get_op_ref());
                c.ck(flipped.ins == xor(&o.ins, &vec![true; o.ins.len()]) && flipped.diag == o.diag, || format!("get_op_mut edit at {}", p));
                node.get_op_mut().edit_in_out_symmetric(|st| st.iter_mut().for_each(|b| *b = !*b));
                let node = m.get_node_ref(p).unwrap();
                let cl = node.clone();
                c.ck(js(&cl) == js(node) && format!("{:?}", cl) == format!("{:?}", node), || format!("FastOpNode clone at {}", p));
                match json_rt(node) {
                    Ok(rt) => c.ck(js(&rt) == js(node), || format!("C14 FastOpNode serde at {}", p)),
                    Err(e) => c.ck(false, || e),
                }
            }
            (a, b) => c.ck(false, || format!("C11 get_node_mut({}) is_some = {} but slot occupied = {}", p, a.is_some(), b.is_some())),
        }
    }
    c.ck(js(m) == j0, || "get_node_mut round trip changed the container".into());
    // get_propagated_substate_with_hint
    if let Ok((entering, _)) = propagate(&s, state) {
        hit("DiagonalSubsection::get_propagated_substate_with_hint");
        for _ in 0..6 {
            if s.is_empty() {
                break;
            }
            let p = r.below(s.len() as u64) as usize;
            let vars: Vec<usize> = (0..nvars).filter(|_| r.coin()).collect();
            let hints: Vec<Option<usize>> = vars
                .iter()
                .map(|v| {
                    let on: Vec<usize> = s.iter().flatten().filter(|o| o.vars.contains(v)).map(|o| o.p).collect();
                    if on.is_empty() || r.coin() {
                        None
                    } else {
                        Some(*r.pick(&on))
                    }
                })
                .collect();
            let mut sub: Vec<bool> = vars.iter().map(|v| state[*v]).collect();
            let e: Vec<bool> = vars.iter().map(|v| entering[p][*v]).collect();
            if c.call("get_propagated_substate_with_hint", || m.get_propagated_substate_with_hint(p, &mut sub, state, &vars, hints.iter().cloned())).is_some() {
                c.eq(&format!("C11/C06 get_propagated_substate_with_hint(p={}, vars={:?}, hints={:?})", p, vars, hints), &sub, &e);
            }
        }
    }
    // iter_ops_above_p
    hit("DiagonalSubsection::iter_ops_above_p");
    for _ in 0..4 {
        if s.is_empty() {
            break;
        }
        let p = r.below(s.len() as u64) as usize;
        let got = m.iter_ops_above_p(
            p,
            Vec::<(usize, bool)>::new(),
            |q, _node, mut t| {
                t.push((q, false));
                (t, true)
            },
            |_node, mut t| {
                t.push((usize::MAX, true));
                (t, true)
            },
        );
        let mut e: Vec<(usize, bool)> = vec![];
        if s[p].is_some() {
            e.push((usize::MAX, true));
        }
        e.extend(occ.iter().rev().filter(|q| **q < p).map(|q| (*q, false)));
        c.eq(&format!("C11 iter_ops_above_p({})", p), &got, &e);
        let first_only = m.iter_ops_above_p(
            p,
            Vec::<(usize, bool)>::new(),
            |q, _node, mut t| {
                t.push((q, false));
                (t, false)
            },
            |_node, mut t| {
                t.push((usize::MAX, true));
                (t, false)
            },
        );
        c.eq(&format!("C11 iter_ops_above_p({}) stops when told", p), &first_only, &e.iter().take(1).cloned().collect::<Vec<_>>());
    }
    // MutateArgs accessors, pool balance of get_empty_args / return_args
    hits(&["MutateArgs::n_subvars", "MutateArgs::subvar_to_var", "MutateArgs::var_to_subvar", "FastOpMutateArgs::fmt", "SubvarAccess::fmt"]);
    let a0 = alloc_snap(m);
    pool_begin();
    let all = m.get_empty_args(SubvarAccess::All);
    c.eq("MutateArgs(All) n_subvars", &all.n_subvars(), &nvars);
    for v in 0..nvars {
        c.ck(all.subvar_to_var(v) == v && all.var_to_subvar(v) == Some(v), || format!("MutateArgs(All) maps {}", v));
    }
    c.ck(format!("{:?}", all).contains("FastOpMutateArgs"), || "FastOpMutateArgs Debug".into());
    m.return_args(all);
    let sub: Vec<usize> = (0..nvars).filter(|_| r.coin()).collect();
    c.ck(format!("{:?}", SubvarAccess::<FastOpMutateArgs>::Varlist(&sub)).contains("Varlist"), || "SubvarAccess Debug".into());
    let va = m.get_empty_args(SubvarAccess::Varlist(&sub));
    let va = m.get_empty_args(SubvarAccess::Args(va));
    c.eq("MutateArgs(Varlist) n_subvars", &va.n_subvars(), &sub.len());
    for (i, v) in sub.iter().enumerate() {
        c.ck(va.subvar_to_var(i) == *v, || format!("MutateArgs(Varlist) subvar_to_var({})", i));
    }
    for v in 0..nvars {
        c.eq(&format!("MutateArgs(Varlist) var_to_subvar({})", v), &va.var_to_subvar(v), &sub.iter().position(|x| *x == v));
    }
    m.return_args(va);
    c.res(pool_end("get_empty_args/return_args"));
    c.ck(alloc_snap(m) == a0, || "C18 get_empty_args/return_args changed the pool occupancy".into());
    // sub-variable mutation through the public `DiagonalSubsection` API: remove the diagonal ops living on a subset of the
    // variables inside a window, put them back; args prepared by `fill_args_at_p` or by `fill_args_at_p_with_hint`
    hits(&["DiagonalSubsection::get_empty_args", "DiagonalSubsection::fill_args_at_p", "DiagonalSubsection::fill_args_at_p_with_hint", "DiagonalSubsection::mutate_subsection"]);
    for _ in 0..4 {
        if s.is_empty() || nvars == 0 {
            break;
        }
        let mut sub: Vec<usize> = (0..nvars).filter(|_| r.coin()).collect();
        if sub.is_empty() {
            sub.push(r.below(nvars as u64) as usize);
        }
        let pstart = r.below(s.len() as u64) as usize;
        let pend = pstart + r.below((s.len() - pstart) as u64 + 1) as usize;
        let victims: Vec<usize> = (pstart..pend).filter(|p| s[*p].as_ref().map(|o| o.ins == o.outs && o.vars.iter().all(|v| sub.contains(v))).unwrap_or(false)).collect();
        let originals: BTreeMap<usize, FastOp> = victims.iter().map(|p| (*p, m.get_pth(*p).unwrap().clone())).collect();
        let use_hint = r.coin();
        let hints: Vec<Option<usize>> = sub
            .iter()
            .map(|v| {
                let on: Vec<usize> = s.iter().flatten().filter(|o| o.vars.contains(v)).map(|o| o.p).collect();
                if on.is_empty() || r.coin() {
                    None
                } else {
                    Some(*r.pick(&on))
                }
            })
            .collect();
        let what = format!("window {}..{} vars {:?} {}", pstart, pend, sub, if use_hint { format!("hints {:?}", hints) } else { "fill_args_at_p".into() });
        let j0 = js(m);
        let a0 = alloc_snap(m);
        for pass in 0..2 {
            // documented boundary of the NON-hint fill (design_notes/C11.md, F-C11-a): with no op on any listed variable
            // it leaves `last_p = None` even if other ops precede the window; such a cursor is outside the API's domain
            let boundary = !sub.iter().any(|v| m.does_var_have_ops(*v)) && (0..pstart).any(|p| m.get_pth(p).is_some());
            if boundary && !use_hint {
                stat("c11.varlist_nohint_boundary_avoided", 1);
            }
            let use_hint = use_hint || boundary;
            pool_begin();
            let ok = c.call(&format!("sub-variable mutation ({})", what), || {
                let mut args = m.get_empty_args(SubvarAccess::Varlist(&sub));
                let args = if use_hint {
                    // (a hint must point to an op that is there: the removed ones are no hints for the second pass)
                    let hs: Vec<Option<usize>> = hints.iter().map(|h| h.filter(|p| pass == 0 || !victims.contains(p))).collect();
                    m.fill_args_at_p_with_hint(pstart, &mut args, &sub, hs.into_iter());
                    args
                } else {
                    m.fill_args_at_p(pstart, args)
                };
                m.mutate_subsection(
                    pstart,
                    pend,
                    pstart,
                    |_, _op, p| {
                        let act = if victims.contains(&p) {
                            if pass == 0 {
                                Some(None)
                            } else {
                                Some(Some(originals[&p].clone()))
                            }
                        } else {
                            None
                        };
                        (act, p + 1)
                    },
                    Some(args),
                );
            });
            if ok.is_none() {
                return;
            }
            c.res(pool_end("sub-variable mutation"));
            c.ck(alloc_snap(m) == a0, || "C18 sub-variable mutation changed the pool occupancy".into());
            let mut e = s.clone();
            if pass == 0 {
                victims.iter().for_each(|p| e[*p] = None);
            }
            c.eq(&format!("C11 slots after pass {} of the sub-variable mutation ({})", pass, what), &scan(m), &e);
            c.res(check_nav(m, nbonds).map_err(|x| format!("after pass {} of the sub-variable mutation ({}): {}", pass, what, x)));
            c.ck(m.verify(state), || "C06 removing / re-inserting diagonal ops broke the world lines".into());
        }
        c.res(json_same(&format!("C11 container after removing and re-inserting ops ({})", what), &j0, &js(m), &[]));
        if !c.errs.is_empty() {
            return;
        }
    }
    // op-only sweeps (FastOps overrides of the provided methods): visiting without changing anything leaves container and pool alone
    hits(&["DiagonalUpdater::mutate_ops", "DiagonalSubsection::mutate_subsection_ops", "DiagonalUpdater::iterate_ops"]);
    if !s.is_empty() {
        let j0 = js(m);
        let len = s.len();
        let seen = pooled(c, "mutate_ops (no change)", m, |mm| {
            mm.mutate_ops(0, len, Vec::<usize>::new(), |_, _, p, mut t| {
                t.push(p);
                (None, t)
            })
        });
        c.eq("C11 mutate_ops visits exactly the occupied slots in order", &seen, &Some(occ.clone()));
        let sub: Vec<usize> = (0..nvars).filter(|_| r.coin()).collect();
        let e: Vec<usize> = s.iter().flatten().filter(|o| o.vars.iter().any(|v| sub.contains(v))).map(|o| o.p).collect();
        let seen = pooled(c, "mutate_subsection_ops (sub-variables, no change)", m, |mm| {
            let args = mm.get_empty_args(SubvarAccess::Varlist(&sub));
            let args = mm.fill_args_at_p(0, args);
            mm.mutate_subsection_ops(
                0,
                len,
                Vec::<usize>::new(),
                |_, _, p, mut t| {
                    t.push(p);
                    (None, t)
                },
                Some(args),
            )
        });
        c.eq(&format!("C11 mutate_subsection_ops over variables {:?} visits the ops touching them, in order", sub), &seen, &Some(e));
        c.eq("C11 iterate_ops", &m.iterate_ops(0, len, vec![], |_, _, p, mut t: Vec<usize>| {
            t.push(p);
            t
        }), &occ);
        // sub-ranges that begin on an occupied slot (in particular on the LAST one) or anywhere else
        let mut starts = vec![r.below(len as u64) as usize];
        if let Some(last) = occ.last() {
            starts.push(*last);
            starts.push(*r.pick(&occ));
        }
        starts.sort_unstable();
        starts.dedup();
        for pstart in starts {
            let e: Vec<usize> = occ.iter().cloned().filter(|p| *p >= pstart).collect();
            let it = m.iterate_ops(pstart, len, vec![], |_, _, p, mut t: Vec<usize>| {
                t.push(p);
                t
            });
            c.eq(&format!("C11 iterate_ops({}, {})", pstart, len), &it, &e);
            let tr: Result<Vec<usize>, ()> = m.try_iterate_ops(pstart, len, vec![], |_, _, p, mut t: Vec<usize>| {
                t.push(p);
                Ok(t)
            });
            c.eq(&format!("C11 try_iterate_ops({}, {})", pstart, len), &tr, &Ok(e.clone()));
            let mu = pooled(c, "mutate_ops on a sub-range (no change)", m, |mm| {
                mm.mutate_ops(pstart, len, Vec::<usize>::new(), |_, _, p, mut t| {
                    t.push(p);
                    (None, t)
                })
            });
            c.eq(&format!("C11 mutate_ops({}, {})", pstart, len), &mu, &Some(e));
        }
        c.ck(js(m) == j0, || "C11 visiting sweeps changed the container".into());
    }
    // rebuild from the operator list: no per-bond counters, same answers
    hits(&["FastOpsTemplate::new_from_ops", "FastOpsTemplate::clone", "FastOpsTemplate::serde", "FastOpsTemplate::fmt", "OpContainer::itime_fold"]);
    let ops: Vec<(usize, FastOp)> = (0..s.len()).filter_map(|p| m.get_pth(p).map(|o| (p, o.clone()))).collect();
    if let Some(mut rebuilt) = c.call("new_from_ops", || FastOps::new_from_ops(nvars, ops.clone())) {
        rebuilt.set_cutoff(s.len());
        c.eq("C11 new_from_ops holds the same operators", &scan(&rebuilt), &s);
        c.res(check_nav(&rebuilt, nbonds).map_err(|e| format!("rebuilt by new_from_ops: {}", e)));
        c.ck(rebuilt.verify(state), || "C06 rebuilt container does not verify".into());
    }
    let cl = m.clone();
    c.res(json_same("C13 FastOps clone", &js(m), &js(&cl), &[]));
    c.ck(format!("{:?}", cl) == format!("{:?}", m), || "FastOps Debug of clone".into());
    match json_rt(m) {
        Ok(rt) => {
            c.res(json_same("C14 FastOps serde round trip", &js(m), &js(&rt), &[]));
            c.res(check_nav(&rt, nbonds).map_err(|e| format!("restored container: {}", e)));
        }
        Err(e) => c.ck(false, || e),
    }
    if let Ok((entering, _)) = propagate(&s, state) {
        let mut st = state.to_vec();
        let fold = m.itime_fold(
            &mut st,
            |mut acc: Vec<Vec<bool>>, x: &[bool]| {
                acc.push(x.to_vec());
                acc
            },
            vec![],
        );
        c.eq("C17 itime_fold states", &fold, &entering);
    }
}
fn mode_c11(r: &mut SplitMix64, n: usize) {
    // constructors of the container
    {
        let mut c = Chk::new();
        hits(&["OpContainerConstructor::new_with_bonds", "OpContainerConstructor::new"]);
        for nv in 0..4 {
            for nb in 0..4 {
                let a = <FastOps as OpContainerConstructor>::new_with_bonds(nv, nb);
                c.res(json_same("new_with_bonds vs new_from_nvars_and_nbonds", &js(&FastOps::new_from_nvars_and_nbonds(nv, Some(nb))), &js(&a), &[]));
                c.eq("new_with_bonds bond counters", &js(&a)["bond_counters"].as_array().map(|x| x.len()), &Some(nb));
                c.ck(a.get_nvars() == nv && a.get_n() == 0 && a.get_cutoff() == 0 && a.get_first_p().is_none() && a.get_last_p().is_none(), || "empty container getters".into());
            }
            let b = <FastOps as OpContainerConstructor>::new(nv);
            c.res(json_same("new vs new_from_nvars", &js(&FastOps::new_from_nvars(nv)), &js(&b), &[]));
            c.ck(js(&b)["bond_counters"].is_null(), || "new(nvars) must not allocate bond counters".into());
            // an empty operator list is a legal argument of new_from_ops: same container as new_from_nvars, full pool
            hit("FastOpsTemplate::new_from_ops");
            pool_begin();
            if let Some(e) = c.call("new_from_ops(empty)", || FastOps::new_from_ops(nv, Vec::<(usize, FastOp)>::new())) {
                c.res(pool_end("new_from_ops(empty)"));
                c.res(json_same("C18/C11 new_from_ops(empty) vs new_from_nvars", &js(&FastOps::new_from_nvars(nv)), &js(&e), &[]));
            }
        }
        case(true, "c11 container-constructors", c.done());
    }
    for _ in 0..n {
        let mut c = Chk::new();
        let input;
        if r.coin() {
            let (s, g, beta) = warm_ising(r, None);
            input = format!("c11 accessors {}", ising_ctx(&s, &g, beta));
            let mut m = g.get_manager_ref().clone();
            accessor_checks(r, &mut c, &mut m, g.state_ref(), ising_nbonds(&g));
            hits(&["QmcDebug::get_debug_manager", "QmcDebug::count_diagonal_and_off", "QmcDebug::count_constant_ops"]);
            let sc = scan(g.get_manager_ref());
            let nd = sc.iter().flatten().filter(|o| o.ins == o.outs).count();
            c.eq("C11 QmcDebug::count_diagonal_and_off", &QmcDebug::count_diagonal_and_off(&g), &(nd, occupied(&sc).len() - nd));
            c.eq("C11 QmcDebug::count_constant_ops", &QmcDebug::count_constant_ops(&g), &sc.iter().flatten().filter(|o| o.constant).count());
            c.ck(std::ptr::eq(g.get_debug_manager(), g.get_manager_ref()), || "get_debug_manager is not the sampler's manager".into());
            case(g.get_n() > 0, &input, c.done());
        } else {
            let (gs, q, beta) = warm_generic(r);
            input = format!("c11 accessors {}", generic_ctx(&gs, &q, beta));
            let mut m = q.get_manager_ref().clone();
            accessor_checks(r, &mut c, &mut m, q.state_ref(), gs.terms.len());
            case(q.get_manager_ref().get_n() > 0, &input, c.done());
        }
    }
    // the naive container under the generic sampler
    for _ in 0..n {
        let gs = gen_generic_spec(r);
        let st = gen_state(r, gs.nvars);
        let seed = r.next();
        let beta = gen_beta(r);
        let steps = r.range(2, 8) as usize;
        let input = format!(
            "c11 naive-container kind={} {} loops={} hb={} state={} beta={} seed={} steps={}",
            gs.kind,
            terms_token(gs.nvars, &gs.terms),
            gs.loops,
            gs.heatbath,
            bits(&st),
            rat(beta),
            seed,
            steps
        );
        let mut c = Chk::new();
        let mut qf = build_generic(&gs, st.clone(), seed);
        let mut qn: Qmc<SplitMix64, NaiveOps> = Qmc::new_with_state(gs.nvars, SplitMix64::new(seed), st.clone(), gs.loops);
        c.res(add_terms(&mut qn, &gs.terms));
        qn.set_do_heatbath(gs.heatbath);
        let vars = generic_vars(qf.get_bonds());
        let bonds = qf.get_bonds().to_vec();
        let table = generic_table(&bonds, &vars);
        let hv = generic_view(&bonds, &table);
        let mut nt = false;
        hits(&[
            "DiagonalUpdater::mutate_ops",
            "DiagonalUpdater::try_iterate_ops",
            "DiagonalUpdater::post_diagonal_update_hook",
            "LoopUpdater::post_loop_update_hook",
            "ClusterUpdater::post_cluster_update_hook",
        ]);
        for step in 0..steps {
            let rf = c.call("timestep on FastOps", || {
                qf.timestep(beta);
            });
            let rn = c.call("timestep on the naive container", || {
                qn.timestep(beta);
            });
            if rf.is_none() || rn.is_none() {
                break;
            }
            let (mf, mn) = (qf.get_manager_ref(), qn.get_manager_ref());
            let ops_f: Vec<SOp> = scan(mf).into_iter().flatten().collect();
            let ops_n: Vec<SOp> = scan(mn).into_iter().flatten().collect();
            nt |= !ops_f.is_empty();
            c.eq(&format!("C11 step {}: operators on FastOps vs naive slot array", step, ), &ops_f, &ops_n);
            c.eq(&format!("C11 step {}: state", step), &qf.state_ref().to_vec(), &qn.state_ref().to_vec());
            c.eq(&format!("C11/C12 step {}: cutoff", step), &qf.get_cutoff(), &qn.get_cutoff());
            c.eq(&format!("C11 step {}: n", step), &QmcStepper::get_n(&qf), &QmcStepper::get_n(&qn));
            c.res(check_config(mn, qn.state_ref(), &hv).map_err(|e| format!("naive container: {}", e)));
            c.res(check_nav(mn, hv.nbonds).map_err(|e| format!("naive container: {}", e)));
            c.eq("C18 naive container: buffers borrowed = returned", &mn.gets, &mn.rets);
            // provided iteration methods on the naive container against the scan
            let cnt = mn.iterate_ops(0, mn.get_cutoff(), 0usize, |_, _, _, k| k + 1);
            let cnt2 = mn.iterate_ps(0, mn.get_cutoff(), 0usize, |_, op, k| k + op.is_some() as usize);
            c.ck(cnt == ops_n.len() && cnt2 == ops_n.len(), || "default iterate_ops / iterate_ps on the naive container".into());
            if !c.errs.is_empty() {
                break;
            }
        }
        let hk = qn.get_manager_ref().hooks;
        stat("naive.hook_diag", hk[0]);
        stat("naive.hook_loop", hk[1]);
        stat("naive.hook_cluster", hk[2]);
        stat("naive.dirty_returns", qn.get_manager_ref().dirty_returns);
        if !gs.heatbath {
            c.eq("post_diagonal_update_hook runs once per Metropolis sweep", &hk[0], &steps);
        }
        if gs.loops {
            c.eq("post_loop_update_hook runs once per loop update", &hk[1], &steps);
        }
        // manual default mutate_ops / try_iterate_ops over a sub-range (exclusive end, as documented by the defaults)
        let mn = qn.get_manager_ref();
        let len = mn.get_cutoff();
        if len > 0 {
            let (a, b) = {
                let x = r.below(len as u64 + 1) as usize;
                let y = r.below(len as u64 + 1) as usize;
                (x.min(y), x.max(y))
            };
            let seen = mn.try_iterate_ops(a, b, vec![], |_, op, p, mut acc: Vec<(usize, usize)>| -> Result<_, ()> {
                acc.push((p, op.get_bond()));
                Ok(acc)
            });
            // the default passes a position counter that starts at 0 for the sub-range
            let e: Vec<(usize, usize)> = (a..b).filter_map(|p| mn.get_pth(p).map(|o| (p - a, o.get_bond()))).collect();
            c.eq(&format!("default try_iterate_ops({}, {})", a, b), &seen, &Ok(e));
        }
        case(nt, &input, c.done());
    }
}
/// witness (not part of `all`): the provided `LoopUpdater::get_nth_p` has no wrap-around, `make_loop_update(Some(n))` asks
/// for the n-th of n ops; FastOps answers with op 0 (n % n), a container inheriting the default panics
/// witness (not part of `all`): with ONE replica the serial `tempering_step` returns before touching the container rng, the
/// thread-parallel `parallel_tempering_step` draws the order coin; results are equal, the container rng is not
fn mode_partemp1() {
    let mut c = Chk::new();
    let mk = || {
        let mut t: TC = TemperingContainer::new(SplitMix64::new(5));
        t.add_qmc_stepper(G::new_with_rng(vec![((0, 1), 1.0)], 1.0, 0.0, 4, SplitMix64::new(9), None), 1.0).unwrap();
        t
    };
    let (mut a, mut b) = (mk(), mk());
    a.timesteps(2);
    b.parallel_timesteps(2);
    a.tempering_step();
    b.parallel_tempering_step();
    c.res(json_same("[single replica: parallel_tempering_step draws from the container rng, tempering_step does not] serial vs parallel container", &js(&a), &js(&b), &["graph_ham_eq_a", "graph_ham_eq_b"]));
    case(true, "partemp1 one replica: tempering_step vs parallel_tempering_step", c.done());
}
fn mode_nthwit() {
    let mut c = Chk::new();
    let mk = |_p: usize| FastOp::diagonal(vec![0usize], 0, vec![false], true);
    let mut nv = <NaiveOps as OpContainerConstructor>::new(1);
    nv.mutate_ps(0, 3, (), |_, _, t| (Some(Some(mk(0))), t));
    let mut fo = FastOps::new_from_ops(1, (0..3).map(|p| (p, mk(p))));
    let h = |_: &[usize], _: usize, _: &[bool], _: &[bool]| 1.0;
    let (mut s1, mut s2) = (vec![false], vec![false]);
    let rf = catch(|| fo.make_loop_update_with_rng(Some(3), h, &mut s1, &mut SplitMix64::new(1)));
    let rn = catch(|| nv.make_loop_update_with_rng(Some(3), h, &mut s2, &mut SplitMix64::new(1)));
    c.ck(rf.is_ok(), || format!("FastOps: {:?}", rf));
    c.ck(rn.is_ok(), || format!("[F26: default get_nth_p walks off the end for make_loop_update(Some(n)) with n ops] naive container: {:?}", rn));
    case(true, "nthwit make_loop_update_with_rng(Some(3)) on 3 constant single-site ops", c.done());
}

// ------------------------------------------------------------------------------------------------------------------
// c12: cutoff API
// ------------------------------------------------------------------------------------------------------------------
fn mode_c12(r: &mut SplitMix64, n: usize) {
    for _ in 0..n {
        // Ising: raw setters upwards (downwards leaves the documented domain), copies keep the cutoff, the rule afterwards
        let (s, mut g, beta) = warm_ising(r, None);
        let ghost = g.clone();
        let cut0 = g.get_cutoff();
        let target = cut0 + r.below(12) as usize;
        let by_trait = r.coin();
        let input = format!("c12 ising set_cutoff {} via_trait={} {}", target, by_trait, ising_ctx(&s, &g, beta));
        let mut c = Chk::new();
        let before = scan(g.get_manager_ref());
        hits(&["QmcIsingGraph::set_cutoff", "SwapManagers::set_op_cutoff", "SwapManagers::get_op_cutoff", "QmcIsingGraph::get_cutoff"]);
        if r.coin() {
            // storage grown by hand through the manager handle: the sampler's cutoff is still what the setter is given
            let spare = target + 1 + r.below(8) as usize;
            g.get_manager_mut().set_cutoff(spare);
            c.eq("C12 growing the container by hand leaves the reported cutoff", &g.get_cutoff(), &cut0);
        }
        let mut twin = g.clone();
        if by_trait {
            SwapManagers::set_op_cutoff(&mut g, target);
            twin.set_cutoff(target);
        } else {
            g.set_cutoff(target);
            SwapManagers::set_op_cutoff(&mut twin, target);
        }
        c.res(json_same("set_op_cutoff vs set_cutoff", &js(&g), &js(&twin), &[]));
        c.eq("C12 reported cutoff after the setter", &g.get_cutoff(), &target);
        c.eq("C10 get_op_cutoff = get_cutoff", &SwapManagers::get_op_cutoff(&g), &g.get_cutoff());
        c.ck(g.get_manager_ref().get_cutoff() >= target, || "C12 container shorter than the cutoff after the setter".into());
        c.eq("C12 operators untouched by the setter", &scan(g.get_manager_ref()).into_iter().flatten().collect::<Vec<_>>(), &before.into_iter().flatten().collect::<Vec<_>>());
        let cl = g.clone();
        c.eq("C12/C13 clone keeps the cutoff", &cl.get_cutoff(), &target);
        c.eq("C12/C13 clone keeps the container length", &cl.get_manager_ref().get_cutoff(), &g.get_manager_ref().get_cutoff());
        let sg: SerializeQmcGraph<FastOps> = g.clone().into();
        let back = sg.into_qmc(rng_of(&g));
        c.eq("C12/C14 rng-less snapshot keeps the cutoff", &back.get_cutoff(), &target);
        match json_rt(&g) {
            Ok(rt) => c.eq("C12/C14 serde keeps the cutoff", &rt.get_cutoff(), &target),
            Err(e) => c.ck(false, || e),
        }
        let mut last = target;
        for _ in 0..3 {
            if c.call("timestep", || {
                g.timestep(beta);
            })
            .is_none()
            {
                break;
            }
            c.ck(g.get_cutoff() >= last, || format!("C12 cutoff decreased {} -> {}", last, g.get_cutoff()));
            last = g.get_cutoff();
            c.res(cutoff_rule(g.get_cutoff(), g.get_n()));
            c.res(check_ising(&g, &ghost));
        }
        case(target > cut0, &input, c.done());

        // generic: increase_cutoff_to below / equal / above, set_cutoff upwards, copies
        let (gs, mut q, beta) = warm_generic(r);
        let cut0 = q.get_cutoff();
        let target = match r.below(3) {
            0 => r.below(cut0 as u64 + 1) as usize,
            1 => cut0,
            _ => cut0 + 1 + r.below(10) as usize,
        };
        let input = format!("c12 generic increase_cutoff_to {} {}", target, generic_ctx(&gs, &q, beta));
        let mut c = Chk::new();
        hits(&["Qmc::increase_cutoff_to", "Qmc::set_cutoff", "Qmc::get_cutoff", "Qmc::clone"]);
        let before: Vec<SOp> = scan(q.get_manager_ref()).into_iter().flatten().collect();
        q.increase_cutoff_to(target);
        c.eq("C12 increase_cutoff_to(c) reports max(old, c)", &q.get_cutoff(), &max(cut0, target));
        c.ck(q.get_manager_ref().get_cutoff() >= q.get_cutoff(), || "C12 container shorter than the cutoff".into());
        c.eq("C10 get_op_cutoff = get_cutoff", &SwapManagers::get_op_cutoff(&q), &q.get_cutoff());
        let up = q.get_cutoff() + r.below(6) as usize;
        let mut twin = q.clone();
        q.set_cutoff(up);
        SwapManagers::set_op_cutoff(&mut twin, up);
        c.res(json_same("set_op_cutoff vs set_cutoff", &js(&q), &js(&twin), &[]));
        c.eq("C12 reported cutoff after set_cutoff", &q.get_cutoff(), &up);
        c.eq("C12 operators untouched", &scan(q.get_manager_ref()).into_iter().flatten().collect::<Vec<_>>(), &before);
        let mut cl = q.clone();
        c.eq("C12/C13 clone keeps the cutoff", &cl.get_cutoff(), &up);
        c.eq("C12/C13 clone keeps the container length", &cl.get_manager_ref().get_cutoff(), &q.get_manager_ref().get_cutoff());
        let mut last = up;
        for _ in 0..3 {
            if c.call("timestep", || {
                q.timestep(beta);
                cl.timestep(beta);
            })
            .is_none()
            {
                break;
            }
            c.ck(q.get_cutoff() >= last, || format!("C12 cutoff decreased {} -> {}", last, q.get_cutoff()));
            last = q.get_cutoff();
            c.res(cutoff_rule(q.get_cutoff(), QmcStepper::get_n(&q)));
            c.res(check_generic(&q));
            c.res(json_same("C13 clone in lockstep", &js(&q), &js(&cl), &[]));
        }
        case(true, &input, c.done());
    }
}

// ------------------------------------------------------------------------------------------------------------------
// c10: trait-level tempering helpers, container helpers
// ------------------------------------------------------------------------------------------------------------------
fn close(a: f64, b: f64) -> bool {
    a == b || (a - b).abs() <= 1e-9 * a.abs().max(b.abs())
}
/// W_other(C_self) / W_self(C_self) recomputed from the operator string with the public matrix elements
fn ratio_from_ops(m: &FastOps, w_other: &dyn Fn(&SOp) -> f64, w_self: &dyn Fn(&SOp) -> f64) -> f64 {
    let mut t = 1.0;
    for op in scan(m).iter().flatten() {
        let (a, b) = (w_other(op), w_self(op));
        if a == 0.0 {
            return 0.0;
        }
        t *= a / b;
    }
    t
}
fn ising_w<'a>(g: &'a G) -> impl Fn(&SOp) -> f64 + 'a {
    move |op| G::hamiltonian(&g.make_haminfo(), &op.vars, op.bond, &op.ins, &op.outs)
}
fn same_except_config(what: &str, orig: &Value, now: &Value) -> Result<(), String> {
    json_same(what, orig, now, &["state", "op_manager", "manager", "cutoff"])
}
fn mode_c10(r: &mut SplitMix64, n: usize) {
    for _ in 0..n {
        // ---- a pair of Ising replicas
        let s = gen_ising_spec(r, None);
        let s2 = if r.chance(1, 4) { s.clone() } else { scale_spec(r, &s) };
        let (ba, bb) = (gen_beta(r), gen_beta(r));
        let mut ga = build_ising(&s, r.range(1, 10) as usize, Some(gen_state(r, s.nvars)), r.next());
        let mut gb = build_ising(&s2, r.range(1, 10) as usize, Some(gen_state(r, s.nvars)), r.next());
        for _ in 0..r.range(1, 5) {
            ga.timestep(ba);
            gb.timestep(bb);
        }
        let input = format!("c10 ising-pair A={} B={} betas={},{} | A: {} | B: {}", spec_token(&s), spec_token(&s2), rat(ba), rat(bb), ising_ctx(&s, &ga, ba), ising_ctx(&s2, &gb, bb));
        let mut c = Chk::new();
        hits(&[
            "GraphWeights::relative_weight",
            "OpWeights::relative_weight_for_hamiltonians",
            "GraphWeights::ham_eq",
            "SwapManagers::can_swap_graphs",
            "QmcIsingGraph::can_swap_managers",
            "StateGetter::get_state_ref",
            "SwapManagers::swap_graphs",
            "QmcIsingGraph::swap_manager_and_state",
        ]);
        for (x, y, nx, ny) in [(&ga, &gb, "A", "B"), (&gb, &ga, "B", "A")] {
            let e = ratio_from_ops(x.get_manager_ref(), &ising_w(y), &ising_w(x));
            if let Some(got) = c.call("relative_weight", || x.relative_weight(y)) {
                c.ck(close(got, e), || format!("C10 {}.relative_weight({}) = {} but W_{}(C_{})/W_{}(C_{}) from the operator string = {}", nx, ny, got, ny, nx, nx, nx, e));
            }
            let (hy, hx) = (
                |v: &[usize], b: usize, i: &[bool], o: &[bool]| G::hamiltonian(&y.make_haminfo(), v, b, i, o),
                |v: &[usize], b: usize, i: &[bool], o: &[bool]| G::hamiltonian(&x.make_haminfo(), v, b, i, o),
            );
            if let Some(got) = c.call("relative_weight_for_hamiltonians", || x.get_manager_ref().relative_weight_for_hamiltonians(hy, hx)) {
                c.ck(close(got, e), || format!("C10 manager of {}: relative_weight_for_hamiltonians(H_{}, H_{}) = {} expected {}", nx, ny, nx, got, e));
            }
            c.ck(close(x.get_manager_ref().relative_weight_for_hamiltonians(hx, hx), 1.0), || "relative_weight_for_hamiltonians(H, H) != 1".into());
            c.eq(&format!("StateGetter::get_state_ref of {}", nx), &StateGetter::get_state_ref(x).to_vec(), &x.state_ref().to_vec());
            c.eq(&format!("C10 get_op_cutoff of {}", nx), &SwapManagers::get_op_cutoff(x), &x.get_cutoff());
        }
        let same_model = s.edges == s2.edges && s.gamma == s2.gamma && s.h == s2.h;
        c.eq("C10 ham_eq(A, B) = all parameters equal", &ga.ham_eq(&gb), &same_model);
        c.eq("C10 ham_eq symmetric", &gb.ham_eq(&ga), &same_model);
        c.ck(ga.ham_eq(&ga), || "ham_eq not reflexive".into());
        {
            let tiny = |gamma: f64, h: f64| G::new_with_rng(s.edges.clone(), gamma, h, 2, SplitMix64::new(1), None);
            let (u, v) = (2f64.powi(-60), 2f64.powi(-61));
            c.ck(!tiny(u, 0.0).ham_eq(&tiny(v, 0.0)) && tiny(u, 0.0).make_haminfo() != tiny(v, 0.0).make_haminfo(), || "C10 ham_eq true for transverse fields 2^-60 and 2^-61".into());
            c.ck(!tiny(1.0, u).ham_eq(&tiny(1.0, v)) && tiny(1.0, u).make_haminfo() != tiny(1.0, v).make_haminfo(), || "C10 ham_eq true for longitudinal fields 2^-60 and 2^-61".into());
            c.ck(tiny(u, v).ham_eq(&tiny(u, v)), || "ham_eq false for equal tiny fields".into());
        }
        c.eq("can_swap_graphs = can_swap_managers", &ga.can_swap_graphs(&gb), &ga.can_swap_managers(&gb));
        c.ck(ga.can_swap_graphs(&gb).is_ok(), || format!("C10 replicas of one lattice with equal signs refused: {:?}", ga.can_swap_graphs(&gb)));
        // a replica with one coupling sign flipped / another lattice must be refused by both entry points
        {
            let mut s3 = s2.clone();
            let k = r.below(s3.edges.len() as u64) as usize;
            s3.edges[k].1 = -s3.edges[k].1;
            let gc = build_ising(&s3, 4, None, 1);
            c.ck(ga.can_swap_graphs(&gc).is_err() && ga.can_swap_managers(&gc).is_err(), || "C10 a replica with a flipped coupling sign is accepted".into());
            c.eq("can_swap_graphs = can_swap_managers (refusal)", &ga.can_swap_graphs(&gc), &ga.can_swap_managers(&gc));
            let mut s4 = s2.clone();
            s4.edges.pop();
            if !s4.edges.is_empty() && s4.edges.iter().map(|((a, b), _)| max(*a, *b)).max().unwrap() + 1 == s.nvars {
                let gd = build_ising(&s4, 4, None, 1);
                c.ck(ga.can_swap_graphs(&gd).is_err() && gd.can_swap_graphs(&ga).is_err(), || "C10 a replica with fewer edges is accepted".into());
            }
        }
        // the exchange itself
        let (ja, jb) = (js(&ga), js(&gb));
        let (mut a1, mut b1, mut a2, mut b2) = (ga.clone(), gb.clone(), ga.clone(), gb.clone());
        let r1 = c.call("swap_graphs", || SwapManagers::swap_graphs(&mut a1, &mut b1));
        let r2 = c.call("swap_manager_and_state", || a2.swap_manager_and_state(&mut b2));
        if r1.is_some() && r2.is_some() {
            c.res(json_same("swap_graphs vs swap_manager_and_state (first)", &js(&a2), &js(&a1), &[]));
            c.res(json_same("swap_graphs vs swap_manager_and_state (second)", &js(&b2), &js(&b1), &[]));
            c.res(same_except_config("C10 position A keeps Hamiltonian, offset, rng, options", &ja, &js(&a1)));
            c.res(same_except_config("C10 position B keeps Hamiltonian, offset, rng, options", &jb, &js(&b1)));
            c.eq("C10 A holds B's state", &a1.state_ref().to_vec(), &gb.state_ref().to_vec());
            c.eq("C10 B holds A's state", &b1.state_ref().to_vec(), &ga.state_ref().to_vec());
            let ops = |g: &G| scan(g.get_manager_ref()).into_iter().flatten().collect::<Vec<_>>();
            c.eq("C10 A holds B's operators", &ops(&a1), &ops(&gb));
            c.eq("C10 B holds A's operators", &ops(&b1), &ops(&ga));
            let mx = max(ga.get_cutoff(), gb.get_cutoff());
            c.eq("C10 both replicas share the larger cutoff (A)", &a1.get_cutoff(), &mx);
            c.eq("C10 both replicas share the larger cutoff (B)", &b1.get_cutoff(), &mx);
            c.res(check_ising(&a1, &ga));
            c.res(check_ising(&b1, &gb));
            if c.call("timestep after the exchange", || {
                a1.timestep(ba);
                b1.timestep(bb);
            })
            .is_some()
            {
                c.res(check_ising(&a1, &ga));
                c.res(check_ising(&b1, &gb));
                c.res(cutoff_rule(a1.get_cutoff(), a1.get_n()));
            }
        }
        case(ga.get_n() + gb.get_n() > 0, &input, c.done());

        // ---- a pair of generic replicas: equal bonds (exchangeable) and scaled bonds (ratio 2^n)
        let gs = gen_generic_spec(r);
        let beta = gen_beta(r);
        let mut qa = build_generic(&gs, gen_state(r, gs.nvars), r.next());
        let mut qb = build_generic(&gs, gen_state(r, gs.nvars), r.next());
        let scaled = GenSpec {
            kind: gs.kind,
            nvars: gs.nvars,
            terms: gs.terms.iter().map(|t| Term { ctor: t.ctor, mat: t.mat.iter().map(|x| x * 2.0).collect(), vars: t.vars.clone() }).collect(),
            loops: gs.loops,
            heatbath: gs.heatbath,
        };
        let qc = build_generic(&scaled, gen_state(r, gs.nvars), 7);
        for _ in 0..r.range(1, 5) {
            qa.timestep(beta);
            qb.timestep(beta);
        }
        let input = format!("c10 generic-pair A: {} | B: state={} slots={}", generic_ctx(&gs, &qa, beta), bits(qb.state_ref()), show_slots(qb.get_manager_ref()));
        let mut c = Chk::new();
        hits(&["Qmc::can_swap_managers", "Qmc::swap_manager_and_state", "Interaction::eq"]);
        c.ck(qa.ham_eq(&qb) && qb.ham_eq(&qa), || "C10 ham_eq false for equal bonds".into());
        c.ck(!qa.ham_eq(&qc), || "C10 ham_eq true for bonds scaled by 2".into());
        c.eq("can_swap_graphs = can_swap_managers (equal bonds)", &qa.can_swap_graphs(&qb), &qa.can_swap_managers(&qb));
        c.ck(qa.can_swap_graphs(&qb).is_ok(), || "C10 equal bonds refused".into());
        c.eq("can_swap_graphs = can_swap_managers (scaled bonds)", &qa.can_swap_graphs(&qc), &qa.can_swap_managers(&qc));
        c.ck(qa.can_swap_graphs(&qc).is_err(), || "C10 unequal bonds accepted".into());
        let na = QmcStepper::get_n(&qa);
        for q in [&qa, &qb] {
            c.eq("C10 get_op_cutoff = get_cutoff (generic, after steps)", &SwapManagers::get_op_cutoff(q), &q.get_cutoff());
        }
        if let Some(got) = c.call("relative_weight", || qa.relative_weight(&qc)) {
            c.ck(close(got, 2f64.powi(na as i32)), || format!("C10 relative_weight against bonds scaled by 2 = {} expected 2^{}", got, na));
        }
        if let Some(got) = c.call("relative_weight", || qa.relative_weight(&qb)) {
            c.ck(close(got, 1.0), || format!("C10 relative_weight against equal bonds = {}", got));
        }
        let (hc, ha) = (gen_hclosure(qc.get_bonds()), gen_hclosure(qa.get_bonds()));
        c.ck(close(qa.get_manager_ref().relative_weight_for_hamiltonians(hc, ha), 2f64.powi(na as i32)), || "C10 relative_weight_for_hamiltonians (scaled)".into());
        c.ck(close(qa.get_manager_ref().relative_weight_for_hamiltonians(ha, hc), 0.5f64.powi(na as i32)), || "C10 relative_weight_for_hamiltonians (inverse)".into());
        let (ja, jb) = (js(&qa), js(&qb));
        let (mut a1, mut b1, mut a2, mut b2) = (qa.clone(), qb.clone(), qa.clone(), qb.clone());
        let r1 = c.call("swap_graphs", || SwapManagers::swap_graphs(&mut a1, &mut b1));
        let r2 = c.call("swap_manager_and_state", || a2.swap_manager_and_state(&mut b2));
        if r1.is_some() && r2.is_some() {
            c.res(json_same("swap_graphs vs swap_manager_and_state (first)", &js(&a2), &js(&a1), &[]));
            c.res(json_same("swap_graphs vs swap_manager_and_state (second)", &js(&b2), &js(&b1), &[]));
            c.res(same_except_config("C10 position A keeps bonds, offset, rng, options", &ja, &js(&a1)));
            c.res(same_except_config("C10 position B keeps bonds, offset, rng, options", &jb, &js(&b1)));
            c.eq("C10 A holds B's state", &a1.state_ref().to_vec(), &qb.state_ref().to_vec());
            c.eq("C10 B holds A's state", &b1.state_ref().to_vec(), &qa.state_ref().to_vec());
            let mx = max(qa.get_cutoff(), qb.get_cutoff());
            c.eq("C10 shared cutoff (A)", &a1.get_cutoff(), &mx);
            c.eq("C10 shared cutoff (B)", &b1.get_cutoff(), &mx);
            c.res(check_generic(&a1));
            c.res(check_generic(&b1));
            if c.call("timestep after the exchange", || {
                a1.timestep(beta);
                b1.timestep(beta);
            })
            .is_some()
            {
                c.res(check_generic(&a1));
                c.res(check_generic(&b1));
            }
        }
        case(na > 0, &input, c.done());

        // ---- a container of generic replicas (serial and thread-parallel driver)
        let mut c = Chk::new();
        let cseed = r.next();
        let b2 = gen_beta(r);
        let mut tq: TQ = TemperingContainer::new(SplitMix64::new(cseed));
        c.ck(tq.add_qmc_stepper(qa.clone(), beta).is_ok() && tq.add_qmc_stepper(qb.clone(), b2).is_ok(), || "add_qmc_stepper refused equal bonds".into());
        c.ck(tq.add_qmc_stepper(qc.clone(), beta).is_err() && tq.num_graphs() == 2, || "C10 add_qmc_stepper accepted a replica with other bonds".into());
        let mut tp = tq.clone();
        let originals: Vec<Value> = tq.graph_ref().iter().map(|(q, _)| js(q)).collect();
        for round in 0..3 {
            if c
                .call("generic container steps", || {
                    tq.timesteps(2);
                    tq.tempering_step();
                    tp.parallel_timesteps(2);
                    tp.parallel_tempering_step();
                })
                .is_none()
            {
                break;
            }
            c.res(json_same(&format!("C13 round {}: thread-parallel driver vs serial driver", round), &js(&tq), &js(&tp), &[]));
            let cut: Vec<usize> = tq.graph_ref().iter().map(|(q, _)| q.get_cutoff()).collect();
            c.ck(cut.iter().all(|x| *x == cut[0]), || format!("C10 generic replicas do not share one cutoff: {:?}", cut));
            for (k, (q, _)) in tq.graph_ref().iter().enumerate() {
                c.res(json_same(&format!("C10 slot {} keeps bonds, offset, options", k), &originals[k], &js(q), &["state", "manager", "cutoff", "rng", "bond_weights"]));
                c.res(check_generic(q));
            }
        }
        case(true, &format!("c10 generic-container betas={},{} cseed={} A: {}", rat(beta), rat(b2), cseed, generic_ctx(&gs, &qa, beta)), c.done());
    }

    // ---- containers
    for it in 0..max(2, n / 2) {
        let s = gen_ising_spec(r, None);
        let nrep = r.range(1, 4) as usize;
        let specs: Vec<IsingSpec> = (0..nrep).map(|k| if k == 0 { s.clone() } else { scale_spec(r, &s) }).collect();
        let betas: Vec<f64> = (0..nrep).map(|_| gen_beta(r)).collect();
        let seeds: Vec<u64> = (0..nrep).map(|_| r.next()).collect();
        let cuts: Vec<usize> = (0..nrep).map(|_| r.range(1, 9) as usize).collect();
        let cseed = r.next();
        let toks: Vec<String> = specs.iter().map(spec_token).collect();
        let input = format!("c10 container {} betas={} cutoffs={} seeds={} cseed={}", toks.join(" "), rats(&betas), list(&cuts), list(&seeds), cseed);
        let mut c = Chk::new();
        hits(&["tempering_container::new_with_rng", "TemperingContainer::new", "TemperingContainer::num_graphs", "TemperingContainer::iter_over_states", "ParallelQmcTimeSteps::parallel_iter_over_states"]);
        let mut ta: TC = new_with_rng::<SplitMix64, SplitMix64>(SplitMix64::new(cseed));
        let mut tb: TC = TemperingContainer::new(SplitMix64::new(cseed));
        c.res(json_same("new_with_rng vs TemperingContainer::new (empty)", &js(&tb), &js(&ta), &[]));
        c.ck(ta.num_graphs() == 0 && ta.get_total_swaps() == 0 && ta.graph_ref().is_empty(), || "fresh container not empty".into());
        for k in 0..nrep {
            let mk = || build_ising(&specs[k], cuts[k], None, seeds[k]);
            c.ck(ta.add_qmc_stepper(mk(), betas[k]).is_ok() && tb.add_qmc_stepper(mk(), betas[k]).is_ok(), || "add_qmc_stepper refused a scaled replica".into());
        }
        c.eq("num_graphs", &ta.num_graphs(), &nrep);
        let mut originals: Vec<Value> = ta.graph_ref().iter().map(|(g, _)| js(g)).collect();
        let mut ghosts: Vec<G> = ta.graph_ref().iter().map(|(g, _)| g.clone()).collect();
        let mut betas = betas;
        let extend = r.coin();
        let extra = (scale_spec(r, &s), gen_beta(r), r.next());
        let mut ok = true;
        for round in 0..4 {
            if round == 2 && extend {
                // the ladder grows after exchange steps have already run
                let mk = || build_ising(&extra.0, 3, None, extra.2);
                c.ck(ta.add_qmc_stepper(mk(), extra.1).is_ok() && tb.add_qmc_stepper(mk(), extra.1).is_ok(), || "add_qmc_stepper refused a scaled replica (late)".into());
                originals.push(js(&mk()));
                ghosts.push(mk());
                betas.push(extra.1);
            }
            let nrep = ta.num_graphs();
            ok &= c
                .call("timesteps + tempering_step", || {
                    ta.timesteps(2);
                    tb.timesteps(2);
                    ta.tempering_step();
                    tb.tempering_step();
                })
                .is_some();
            if !ok {
                break;
            }
            c.res(json_same(&format!("C13 round {}: new_with_rng vs new", round), &js(&tb), &js(&ta), &[]));
            let cut: Vec<usize> = ta.graph_ref().iter().map(|(g, _)| g.get_cutoff()).collect();
            c.ck(nrep == 1 || cut.iter().all(|x| *x == cut[0]), || format!("C10 replicas do not share one cutoff after an exchange step: {:?}", cut));
            c.ck(ta.verify(), || "Verify::verify of the container".into());
            for (k, (g, b)) in ta.graph_ref().iter().enumerate() {
                c.eq("beta kept", b, &betas[k]);
                c.res(json_same(&format!("C10 slot {} keeps its model, offset, options", k), &originals[k], &js(g), &["state", "op_manager", "cutoff", "rng", "total_rvb_successes", "rvb_clusters_counted"]));
                c.res(check_ising(g, &ghosts[k]));
            }
            // state visitors
            let seen = RefCell::new(Vec::<Vec<bool>>::new());
            ta.iter_over_states(|st| seen.borrow_mut().push(st.to_vec()));
            let e: Vec<Vec<bool>> = ta.graph_ref().iter().map(|(g, _)| g.state_ref().to_vec()).collect();
            c.eq("C17 iter_over_states visits every replica's state in order", &seen.into_inner(), &e);
            let seen = std::sync::Mutex::new(Vec::<Vec<bool>>::new());
            ta.parallel_iter_over_states(|st| seen.lock().unwrap().push(st.to_vec()));
            let (mut got, mut e2) = (seen.into_inner().unwrap(), e.clone());
            got.sort();
            e2.sort();
            c.eq("C17 parallel_iter_over_states visits every replica's state once", &got, &e2);
        }
        if ok {
            hits(&[
                "TemperingContainer::clone",
                "TemperingContainer::fmt",
                "TemperingContainer::serde",
                "SerializeTemperingContainer::from",
                "SerializeTemperingContainer_tuple::from",
                "SerializeTemperingContainer::num_graphs",
                "SerializeTemperingContainer::into_tempering_container_gen_rngs",
                "SerializeTemperingContainer::fmt",
                "SerializeTemperingContainer::serde",
            ]);
            let mut copies: Vec<(&'static str, TC)> = vec![("clone", ta.clone())];
            c.ck(format!("{:?}", ta).contains("TemperingContainer") && format!("{:?}", ta) == format!("{:?}", copies[0].1), || "Debug of the container / of its clone".into());
            match json_rt(&ta) {
                Ok(t) => copies.push(("serde", t)),
                Err(e) => c.ck(false, || e),
            }
            if let Some(t) = c.call("rng-less tuple snapshot", || {
                let (st, rng, rngs): (SerializeTemperingContainer<FastOps>, SplitMix64, Vec<SplitMix64>) = ta.clone().into();
                let n = st.num_graphs();
                assert_eq!(n, ta.num_graphs());
                assert!(format!("{:?}", st).contains("SerializeTemperingContainer"));
                let st2: SerializeTemperingContainer<FastOps> = json_rt(&st).expect("snapshot round trip");
                assert_eq!(js(&st2), js(&st));
                st2.into_tempering_container_from_vec(rng, rngs)
            }) {
                copies.push(("rng-less snapshot", t));
            }
            let jt = js(&ta);
            for (name, t) in copies.iter() {
                c.res(json_same(&format!("C13/C14 {} of the container", name), &jt, &js(t), &["graph_ham_eq_a", "graph_ham_eq_b"]));
            }
            let run = |t: &mut TC| {
                t.timesteps(1);
                t.tempering_step();
                t.timesteps_sample(8, 1, 1)
            };
            if let Some(base) = c.call("continue original", || run(&mut ta)) {
                for (name, t) in copies.iter_mut() {
                    if let Some(got) = c.call("continue copy", || run(t)) {
                        c.ck(got.len() == base.len() && got.iter().zip(base.iter()).all(|(x, y)| x.0 == y.0 && x.1.to_bits() == y.1.to_bits()), || format!("C13/C14 {} of the container returns other samples / energies", name));
                        c.res(json_same(&format!("C13/C14 {} of the container after continuing", name), &js(&ta), &js(t), &["graph_ham_eq_a", "graph_ham_eq_b"]));
                    }
                }
            }
            c.res(json_same("C13 the twin built by `new` untouched meanwhile", &jt, &js(&tb), &[]));
            // rng-less snapshot with generated replica rngs: seeds come from the container rng, in order
            use rand::rngs::SmallRng;
            use rand::SeedableRng;
            let st: SerializeTemperingContainer<FastOps> = ta.clone().into();
            let st_b: SerializeTemperingContainer<FastOps> = ta.clone().into();
            let nrep_now = ta.num_graphs();
            c.eq("SerializeTemperingContainer::num_graphs", &st.num_graphs(), &nrep_now);
            let gseed = r.next();
            let auto = c.call("into_tempering_container_gen_rngs", || st.into_tempering_container_gen_rngs::<SplitMix64, SmallRng>(SplitMix64::new(gseed)));
            let mut crng = SplitMix64::new(gseed);
            let rngs: Vec<SmallRng> = (0..nrep_now).map(|_| SmallRng::seed_from_u64(crng.gen())).collect();
            let mut manual = st_b.into_tempering_container_from_vec(crng, rngs);
            if let Some(mut auto) = auto {
                let ra = c.call("continue gen_rngs", || {
                    auto.timesteps(2);
                    auto.tempering_step();
                    auto.timesteps_sample(4, 2, 1)
                });
                manual.timesteps(2);
                manual.tempering_step();
                let rm = manual.timesteps_sample(4, 2, 1);
                if let Some(ra) = ra {
                    c.ck(ra.len() == rm.len() && ra.iter().zip(rm.iter()).all(|(x, y)| x.0 == y.0 && x.1.to_bits() == y.1.to_bits()), || "C14 gen_rngs: replica rngs are not seeded from the container rng in order".into());
                    c.eq("C14 gen_rngs swap counter", &auto.get_total_swaps(), &manual.get_total_swaps());
                    c.eq("C14 gen_rngs container rng", &auto.rng_mut().next_u64(), &manual.rng_mut().next_u64());
                }
            }
        }
        case(true, &format!("{} late_replica={}", input, extend), c.done());

        // thread_rng container and samplers: invariants only
        if it < 1 {
            let mut c = Chk::new();
            hits(&["tempering_container::new_thread_rng", "qmc_ising::new_qmc"]);
            if let Some(mut t) = c.call("new_thread_rng", new_thread_rng) {
                c.ck(t.num_graphs() == 0 && t.get_total_swaps() == 0, || "new_thread_rng not empty".into());
                for k in 0..nrep {
                    let e = specs[k].edges.clone();
                    let added = t.add_qmc_stepper(new_qmc(e, specs[k].gamma, specs[k].h, cuts[k], None), betas[k]);
                    c.ck(added.is_ok(), || format!("add_qmc_stepper: {:?}", added));
                }
                for _ in 0..3 {
                    if c.call("thread_rng container steps", || {
                        t.timesteps(2);
                        t.tempering_step();
                    })
                    .is_none()
                    {
                        break;
                    }
                    c.ck(t.verify(), || "verify of the thread_rng container".into());
                    let cut: Vec<usize> = t.graph_ref().iter().map(|(g, _)| g.get_cutoff()).collect();
                    c.ck(cut.iter().all(|x| *x == cut[0]), || format!("C10 cutoffs differ after an exchange step: {:?}", cut));
                    for (k, (g, _)) in t.graph_ref().iter().enumerate() {
                        c.res(check_ising(g, &ghosts[k]));
                    }
                }
                let cnt = RefCell::new(0usize);
                t.iter_over_states(|_| *cnt.borrow_mut() += 1);
                c.eq("iter_over_states count", &cnt.into_inner(), &nrep);
            }
            case(true, &format!("c10 thread-rng-container {}", toks.join(" ")), c.done());
        }
    }
}

// ------------------------------------------------------------------------------------------------------------------
// c13: Clone / Debug / serde of the samplers and helper types; copies continue identically and independently
// ------------------------------------------------------------------------------------------------------------------
fn random_ising_call(g: &mut G, which: u64, beta: f64) {
    match which {
        0 => {
            g.timestep(beta);
        }
        1 => g.single_diagonal_step(beta),
        2 => {
            g.single_cluster_step();
        }
        3 => {
            g.single_rvb_sweep(None);
        }
        _ => {
            g.timesteps(2, beta);
        }
    }
}
fn mode_c13(r: &mut SplitMix64, n: usize) {
    for _ in 0..n {
        let s = gen_ising_spec(r, None);
        let beta = gen_beta(r);
        let mut g = build_ising(&s, r.range(1, 10) as usize, None, r.next());
        let (rvb, hb) = (r.coin(), r.coin());
        g.set_run_rvb(rvb);
        g.set_enable_heatbath(hb);
        for _ in 0..r.range(0, 5) {
            g.timestep(beta);
        }
        let (toggle, manual) = (r.chance(1, 3), r.chance(1, 3));
        if toggle {
            g.set_run_rvb(!rvb);
        }
        if manual {
            g.single_rvb_sweep(Some(1));
        }
        let input = format!("c13 ising-copies rvb={} toggled={} manual_sweep={} hb={} {}", rvb, toggle, manual, hb, ising_ctx(&s, &g, beta));
        let mut c = Chk::new();
        hits(&[
            "QmcIsingGraph::clone",
            "QmcIsingGraph::fmt",
            "QmcIsingGraph::serde",
            "SerializeQmcGraph::clone",
            "SerializeQmcGraph::fmt",
            "SerializeQmcGraph::serde",
            "SerializeQmcGraph::from",
            "BondWeights::clone",
            "BondWeights::fmt",
            "BondWeights::serde",
        ]);
        let j0 = js(&g);
        let mut copies: Vec<(&'static str, G)> = vec![("clone", g.clone())];
        c.ck(format!("{:?}", g) == format!("{:?}", copies[0].1) && format!("{:?}", g).starts_with("QmcIsingGraph"), || "Debug of the sampler / of its clone".into());
        match json_rt(&g) {
            Ok(x) => copies.push(("serde", x)),
            Err(e) => c.ck(false, || format!("C14 {}", e)),
        }
        if let Some(x) = c.call("rng-less snapshot", || {
            let sg: SerializeQmcGraph<FastOps> = g.clone().into();
            let sg2 = sg.clone();
            assert_eq!(js(&sg), js(&sg2), "SerializeQmcGraph clone");
            assert_eq!(format!("{:?}", sg), format!("{:?}", sg2));
            assert!(format!("{:?}", sg).starts_with("SerializeQmcGraph"));
            let sg3: SerializeQmcGraph<FastOps> = json_rt(&sg2).expect("snapshot serde");
            assert_eq!(js(&sg), js(&sg3), "SerializeQmcGraph serde");
            sg3.into_qmc(rng_of(&g))
        }) {
            copies.push(("rng-less snapshot + same rng", x));
        }
        for (name, x) in copies.iter() {
            c.res(json_same(&format!("C13/C14 {}", name), &j0, &js(x), &[]));
            c.ck(x.verify(), || format!("C14 {} does not pass verify()", name));
            c.ck(x.rvb_success_rate().to_bits() == g.rvb_success_rate().to_bits(), || format!("{}: rvb_success_rate differs", name));
        }
        if hb {
            let vars: Vec<usize> = (0..s.nvars).collect();
            let ghost = g.clone();
            let bw = ising_bond_weights(&IsingHam { g: &ghost, vars: &vars });
            let bw2 = bw.clone();
            c.ck(js(&bw) == js(&bw2) && format!("{:?}", bw) == format!("{:?}", bw2) && format!("{:?}", bw).contains("BondWeights"), || "BondWeights clone / Debug".into());
            match json_rt(&bw) {
                Ok(x) => c.ck(js(&x) == js(&bw), || "C14 BondWeights serde".into()),
                Err(e) => c.ck(false, || e),
            }
            c.res(json_same("C14 heat-bath table inside the copies", &js(&bw), &j0["bond_weights"], &[]));
        }
        // stepping the copies alone leaves the original untouched; afterwards the original catches up identically
        let script: Vec<u64> = (0..5).map(|_| r.below(5)).collect();
        let mut ok = true;
        for (_, x) in copies.iter_mut() {
            ok &= c.call("steps on a copy", || script.iter().for_each(|w| random_ising_call(x, *w, beta))).is_some();
        }
        c.res(json_same("C13 original untouched by stepping its copies", &j0, &js(&g), &[]));
        if ok && c.call("steps on the original", || script.iter().for_each(|w| random_ising_call(&mut g, *w, beta))).is_some() {
            let j1 = js(&g);
            for (name, x) in copies.iter() {
                c.res(json_same(&format!("C13/C14 {} after {:?}", name, script), &j1, &js(x), &[]));
            }
            let ghost = build_ising(&s, 1, None, 1);
            c.res(check_ising(&g, &ghost));
        }
        let _ = qmc::sse::qmc_traits::rvb::verif_hooks::take_trace();
        case(true, &input, c.done());

        // generic sampler after steps (heat-bath cache filled, loops)
        let (gs, mut q, beta) = warm_generic(r);
        let input = format!("c13 generic-copies {}", generic_ctx(&gs, &q, beta));
        let mut c = Chk::new();
        hits(&["Qmc::clone", "Qmc::fmt", "Qmc::serde", "ManagerRef::fmt"]);
        let j0 = js(&q);
        let mut copies: Vec<(&'static str, Q)> = vec![("clone", q.clone())];
        c.ck(format!("{:?}", q) == format!("{:?}", copies[0].1), || "Debug of the generic sampler / of its clone".into());
        match json_rt(&q) {
            Ok(x) => copies.push(("serde", x)),
            Err(e) => c.ck(false, || format!("C14 {}", e)),
        }
        for (name, x) in copies.iter() {
            c.res(json_same(&format!("C13/C14 {}", name), &j0, &js(x), &[]));
        }
        let mut ok = true;
        for (_, x) in copies.iter_mut() {
            ok &= c.call("steps on a copy", || (0..4).for_each(|_| {
                x.timestep(beta);
            }))
            .is_some();
        }
        c.res(json_same("C13 original untouched by stepping its copies", &j0, &js(&q), &[]));
        if ok && c.call("steps on the original", || (0..4).for_each(|_| {
            q.timestep(beta);
        }))
        .is_some()
        {
            let j1 = js(&q);
            for (name, x) in copies.iter() {
                c.res(json_same(&format!("C13/C14 {} after 4 steps", name), &j1, &js(x), &[]));
            }
            c.res(check_generic(&q));
        }
        let m = q.get_manager_ref();
        let d1 = format!("{:?}", ManagerRef::<FastOps, FastOps>::Diagonal(m));
        let d2 = format!("{:?}", ManagerRef::<FastOps, FastOps>::Looper(m));
        c.ck(d1.starts_with("Diagonal(") && d2.starts_with("Looper("), || "ManagerRef Debug".into());
        case(true, &input, c.done());
    }
}

// ------------------------------------------------------------------------------------------------------------------
// c17: every measuring helper = manual loop on a clone
// ------------------------------------------------------------------------------------------------------------------
fn same_f(a: f64, b: f64) -> bool {
    a.to_bits() == b.to_bits() || (a.is_nan() && b.is_nan())
}
fn measure_checks<S>(c: &mut Chk, base: &S, offset: f64, beta: f64, t: usize, f: Option<usize>, zip_len: usize)
where
    S: QmcStepper + Clone + serde::Serialize,
{
    let fr = f.unwrap_or(1);
    // manual loop
    let mut man = base.clone();
    let mut states: Vec<Vec<bool>> = vec![];
    let mut ns: Vec<usize> = vec![];
    let mut all_ns: Vec<usize> = vec![];
    for k in 0..t {
        man.timestep(beta);
        all_ns.push(man.get_n());
        if (k + 1) % fr == 0 {
            states.push(man.state_ref().to_vec());
            ns.push(man.get_n());
        }
    }
    let energy = |ns: &[usize]| -((ns.iter().sum::<usize>() as f64 / ns.len() as f64) / beta) + offset;
    let (e, e_all) = (energy(&ns), energy(&all_ns));
    let jm = js(&man);
    c.eq("C17 number of folds = floor(T/f)", &states.len(), &(t / fr));
    let fin = |c: &mut Chk, what: &str, x: &S| c.res(json_same(&format!("C17 {}: sampler after the run vs manual loop", what), &jm, &js(x), &[]));
    hits(&[
        "QmcStepper::timesteps",
        "QmcStepper::timesteps_sample",
        "QmcStepper::timesteps_sample_iter",
        "QmcStepper::timesteps_sample_iter_zip",
        "QmcStepper::timesteps_measure",
        "QmcStepper::timesteps_iter_zip_with_self",
        "QmcStepper::timesteps_measure_with_self",
    ]);
    {
        let mut x = base.clone();
        if let Some(got) = c.call("timesteps", || x.timesteps(t, beta)) {
            c.ck(same_f(got, e_all), || format!("C17 timesteps({}) = {} expected -<n>/beta + offset over every step = {}", t, got, e_all));
            fin(c, "timesteps", &x);
        }
    }
    {
        let mut x = base.clone();
        if let Some((st, got)) = c.call("timesteps_sample", || x.timesteps_sample(t, beta, f)) {
            c.eq("C17 timesteps_sample states", &st, &states);
            c.ck(same_f(got, e), || format!("C17 timesteps_sample energy {} expected {}", got, e));
            fin(c, "timesteps_sample", &x);
        }
    }
    {
        let mut x = base.clone();
        let seen = RefCell::new(Vec::<Vec<bool>>::new());
        if let Some(got) = c.call("timesteps_sample_iter", || x.timesteps_sample_iter(t, beta, f, |s| seen.borrow_mut().push(s.to_vec()))) {
            c.eq("C17 timesteps_sample_iter states", &seen.into_inner(), &states);
            c.ck(same_f(got, e), || format!("C17 timesteps_sample_iter energy {} expected {}", got, e));
            fin(c, "timesteps_sample_iter", &x);
        }
    }
    let zipped: Vec<(usize, Vec<bool>)> = states.iter().cloned().enumerate().take(zip_len).map(|(i, s)| (i + 100, s)).collect();
    {
        let mut x = base.clone();
        let seen = RefCell::new(Vec::<(usize, Vec<bool>)>::new());
        if let Some(got) = c.call("timesteps_sample_iter_zip", || x.timesteps_sample_iter_zip(t, beta, f, 100..100 + zip_len, |i, s| seen.borrow_mut().push((i, s.to_vec())))) {
            c.eq("C17 timesteps_sample_iter_zip pairs (stops with the shorter side)", &seen.into_inner(), &zipped);
            c.ck(same_f(got, e), || format!("C17 timesteps_sample_iter_zip energy {} expected {}", got, e));
            fin(c, "timesteps_sample_iter_zip", &x);
        }
    }
    {
        let mut x = base.clone();
        let seen = RefCell::new(Vec::<(usize, Vec<bool>, usize)>::new());
        if let Some(got) = c.call("timesteps_iter_zip_with_self", || {
            x.timesteps_iter_zip_with_self(t, beta, f, 100..100 + zip_len, |i, s: &S| seen.borrow_mut().push((i, s.state_ref().to_vec(), s.get_n())))
        }) {
            let ez: Vec<(usize, Vec<bool>, usize)> = zipped.iter().cloned().zip(ns.iter()).map(|((i, s), n)| (i, s, *n)).collect();
            c.eq("C17 timesteps_iter_zip_with_self (index, state, n)", &seen.into_inner(), &ez);
            c.ck(same_f(got, e), || format!("C17 timesteps_iter_zip_with_self energy {} expected {}", got, e));
            fin(c, "timesteps_iter_zip_with_self", &x);
        }
    }
    {
        let mut x = base.clone();
        if let Some((acc, got)) = c.call("timesteps_measure", || {
            x.timesteps_measure(
                t,
                beta,
                vec![],
                |mut acc: Vec<Vec<bool>>, s| {
                    acc.push(s.to_vec());
                    acc
                },
                f,
            )
        }) {
            c.eq("C17 timesteps_measure fold", &acc, &states);
            c.ck(same_f(got, e), || format!("C17 timesteps_measure energy {} expected {}", got, e));
            fin(c, "timesteps_measure", &x);
        }
    }
    {
        let mut x = base.clone();
        if let Some((acc, got)) = c.call("timesteps_measure_with_self", || {
            x.timesteps_measure_with_self(
                t,
                beta,
                vec![],
                |mut acc: Vec<(Vec<bool>, usize)>, s: &S| {
                    acc.push((s.state_ref().to_vec(), s.get_n()));
                    acc
                },
                f,
            )
        }) {
            let ez: Vec<(Vec<bool>, usize)> = states.iter().cloned().zip(ns.iter().cloned()).collect();
            c.eq("C17 timesteps_measure_with_self fold", &acc, &ez);
            c.ck(same_f(got, e), || format!("C17 timesteps_measure_with_self energy {} expected {}", got, e));
            fin(c, "timesteps_measure_with_self", &x);
        }
    }
}
fn mode_c17(r: &mut SplitMix64, n: usize) {
    for _ in 0..n {
        let t = r.range(0, 9) as usize;
        let f = if r.chance(1, 3) { None } else { Some(r.range(1, 4) as usize) };
        let zl = r.below(t as u64 + 2) as usize;
        let mut c = Chk::new();
        if r.coin() {
            let (s, mut g, beta) = warm_ising(r, None);
            g.set_run_rvb(r.coin());
            let input = format!("c17 ising T={} f={:?} zip={} {}", t, f, zl, ising_ctx(&s, &g, beta));
            measure_checks(&mut c, &g, g.get_offset(), beta, t, f, zl);
            let _ = qmc::sse::qmc_traits::rvb::verif_hooks::take_trace();
            case(t > 0, &input, c.done());
        } else {
            let (gs, q, beta) = warm_generic(r);
            let input = format!("c17 generic T={} f={:?} zip={} {}", t, f, zl, generic_ctx(&gs, &q, beta));
            measure_checks(&mut c, &q, q.get_offset(), beta, t, f, zl);
            case(t > 0, &input, c.done());
        }
    }
}

// ------------------------------------------------------------------------------------------------------------------
// c18: allocator public surface; c03: BondContainer against a naive list
// ------------------------------------------------------------------------------------------------------------------
trait Scratch: Default {
    fn empty(&self) -> bool;
    fn dirty(&mut self);
}
impl Scratch for Vec<bool> {
    fn empty(&self) -> bool {
        self.is_empty()
    }
    fn dirty(&mut self) {
        self.resize(5000, true)
    }
}
impl Scratch for Vec<usize> {
    fn empty(&self) -> bool {
        self.is_empty()
    }
    fn dirty(&mut self) {
        self.resize(5000, 7)
    }
}
impl Scratch for Vec<Option<usize>> {
    fn empty(&self) -> bool {
        self.is_empty()
    }
    fn dirty(&mut self) {
        self.resize(5000, Some(7))
    }
}
impl Scratch for Vec<OpSide> {
    fn empty(&self) -> bool {
        self.is_empty()
    }
    fn dirty(&mut self) {
        self.resize(5000, OpSide::Inputs)
    }
}
impl Scratch for Vec<(usize, OpSide)> {
    fn empty(&self) -> bool {
        self.is_empty()
    }
    fn dirty(&mut self) {
        self.resize(5000, (1, OpSide::Outputs))
    }
}
impl Scratch for Vec<f64> {
    fn empty(&self) -> bool {
        self.is_empty()
    }
    fn dirty(&mut self) {
        self.resize(5000, 0.5)
    }
}
impl Scratch for BondContainer<usize> {
    fn empty(&self) -> bool {
        self.is_empty() && self.get_total_weight() == 0.0 && (0..8).all(|k| !self.contains(&k)) && self.iter().count() == 0
    }
    fn dirty(&mut self) {
        self.insert(3, 0.5);
        self.insert(1, 0.25);
    }
}
impl Scratch for BondContainer<VarPos> {
    fn empty(&self) -> bool {
        self.is_empty() && self.get_total_weight() == 0.0 && !self.contains(&VarPos::default())
    }
    fn dirty(&mut self) {
        self.insert(VarPos::default(), 0.5);
    }
}
impl Scratch for BinaryHeap<Reverse<usize>> {
    fn empty(&self) -> bool {
        self.is_empty()
    }
    fn dirty(&mut self) {
        self.push(Reverse(3))
    }
}
/// one pooled type on one factory: instances come out empty, go back (dirty) and come out empty again; occupancy restored
fn factory_checks<F, T>(c: &mut Chk, what: &str, a: &mut F, snap: &dyn Fn(&F) -> Value, pooled: bool, capacity: Option<usize>)
where
    F: Factory<T>,
    T: Scratch,
{
    let s0 = snap(a);
    pool_begin();
    let mut x: T = a.get_instance();
    c.ck(x.empty(), || format!("C18 {}: a fresh instance is not empty", what));
    let log = verif_log::take();
    c.ck(log.len() == pooled as usize && log.iter().all(|e| e.1 == 1), || format!("C18 {}: hook log of one get_instance: {:?}", what, log));
    if pooled {
        c.ck(snap(a) != s0, || format!("C18 {}: occupancy unchanged by get_instance", what));
    }
    x.dirty();
    a.return_instance(x);
    let log = verif_log::take();
    c.ck(log.len() == pooled as usize && log.iter().all(|e| e.1 == -1 && e.2), || format!("C18 {}: hook log of returning a used buffer: {:?}", what, log));
    c.ck(snap(a) == s0, || format!("C18 {}: occupancy not restored by return_instance", what));
    let y: T = a.get_instance();
    c.ck(y.empty(), || format!("C18 {}: a buffer returned used comes back NOT emptied", what));
    a.return_instance(y);
    c.ck(snap(a) == s0, || format!("C18 {}: occupancy not restored", what));
    let _ = verif_log::take();
    // bounded pool: `capacity` instances can be out at once, all come back
    if let Some(cap) = capacity {
        let mut out: Vec<T> = vec![];
        let got = catch(std::panic::AssertUnwindSafe(|| {
            for _ in 0..cap {
                out.push(a.get_instance());
            }
        }));
        c.ck(got.is_ok(), || format!("C18 {}: pool of capacity {} exhausted early: {:?}", what, cap, got));
        c.ck(out.iter().all(|t| t.empty()), || format!("C18 {}: instance not empty", what));
        for t in out.drain(..) {
            a.return_instance(t);
        }
        c.ck(snap(a) == s0, || format!("C18 {}: occupancy not restored after {} instances in flight", what, cap));
        let _ = verif_log::take();
    }
}
fn all_types<F>(c: &mut Chk, what: &str, a: &mut F, snap: &dyn Fn(&F) -> Value, pooled: bool, caps: Option<[usize; 9]>)
where
    F: FastOpAllocatorLike,
{
    let cap = |i: usize| caps.map(|x| x[i]);
    factory_checks::<F, Vec<usize>>(c, &format!("{} Vec<usize>", what), a, snap, pooled, cap(0));
    factory_checks::<F, Vec<bool>>(c, &format!("{} Vec<bool>", what), a, snap, pooled, cap(1));
    factory_checks::<F, Vec<OpSide>>(c, &format!("{} Vec<OpSide>", what), a, snap, pooled, cap(2));
    factory_checks::<F, Vec<(usize, OpSide)>>(c, &format!("{} Vec<Leg>", what), a, snap, pooled, cap(3));
    factory_checks::<F, Vec<Option<usize>>>(c, &format!("{} Vec<Option<usize>>", what), a, snap, pooled, cap(4));
    factory_checks::<F, Vec<f64>>(c, &format!("{} Vec<f64>", what), a, snap, pooled, cap(5));
    factory_checks::<F, BondContainer<usize>>(c, &format!("{} BondContainer<usize>", what), a, snap, pooled, cap(6));
    factory_checks::<F, BondContainer<VarPos>>(c, &format!("{} BondContainer<VarPos>", what), a, snap, pooled, cap(7));
    factory_checks::<F, BinaryHeap<Reverse<usize>>>(c, &format!("{} BinaryHeap", what), a, snap, pooled, cap(8));
}
/// everything that hands out all nine pooled types
trait FastOpAllocatorLike:
    Factory<Vec<usize>>
    + Factory<Vec<bool>>
    + Factory<Vec<OpSide>>
    + Factory<Vec<(usize, OpSide)>>
    + Factory<Vec<Option<usize>>>
    + Factory<Vec<f64>>
    + Factory<BondContainer<usize>>
    + Factory<BondContainer<VarPos>>
    + Factory<BinaryHeap<Reverse<usize>>>
{
}
impl FastOpAllocatorLike for DefaultFastOpAllocator {}
impl FastOpAllocatorLike for SwitchableFastOpAllocator<DefaultFastOpAllocator> {}
impl<A: FastOpAllocator> FastOpAllocatorLike for FastOpsTemplate<FastOp, A> {}
const POOL_FIELDS: [&str; 9] = [
    "usize_alloc",
    "bool_alloc",
    "opside_alloc",
    "leg_alloc",
    "option_usize_alloc",
    "f64_alloc",
    "bond_container_alloc",
    "bond_container_varpos_alloc",
    "binary_heap_alloc",
];
fn caps_of(v: &Value) -> Option<[usize; 9]> {
    let mut out = [0usize; 9];
    for (i, f) in POOL_FIELDS.iter().enumerate() {
        out[i] = v.get(*f)?.get("instances")?.as_u64()? as usize;
    }
    Some(out)
}
fn mode_c18(_r: &mut SplitMix64, n: usize) {
    for round in 0..max(1, n / 4) {
        let mut c = Chk::new();
        hits(&[
            "Factory::get_instance",
            "Factory::return_instance",
            "DefaultFastOpAllocator::default",
            "DefaultFastOpAllocator::clone",
            "DefaultFastOpAllocator::fmt",
            "DefaultFastOpAllocator::serde",
            "SwitchableFastOpAllocator::new",
            "SwitchableFastOpAllocator::default",
            "SwitchableFastOpAllocator::clone",
            "SwitchableFastOpAllocator::fmt",
            "SwitchableFastOpAllocator::serde",
        ]);
        // the bounded default pool
        let mut d = DefaultFastOpAllocator::default();
        let caps = caps_of(&js(&d));
        c.ck(caps.is_some(), || format!("snapshot of the default allocator has an unexpected shape: {}", js(&d)));
        all_types(&mut c, "DefaultFastOpAllocator", &mut d, &|a| js(a), true, caps);
        let d2 = d.clone();
        c.ck(js(&d2) == js(&d) && format!("{:?}", d2) == format!("{:?}", d) && format!("{:?}", d).contains("DefaultFastOpAllocator"), || "DefaultFastOpAllocator clone / Debug".into());
        // a snapshot taken while buffers are in flight records the reduced occupancy, and a restore keeps it (C14)
        let held: Vec<usize> = Factory::<Vec<usize>>::get_instance(&mut d);
        match json_rt(&d) {
            Ok(rt) => c.ck(js(&rt) == js(&d) && js(&rt) != js(&d2), || "C14/C18 allocator serde round trip loses the occupancy".into()),
            Err(e) => c.ck(false, || e),
        }
        c.ck(js(&d.clone()) == js(&d), || "C13 allocator clone loses the occupancy".into());
        d.return_instance(held);
        c.ck(js(&d) == js(&d2), || "C18 occupancy not restored".into());
        let _ = verif_log::take();
        // the public wrapper: in front of a bounded pool / without a pool
        let mut sp = SwitchableFastOpAllocator::new(Some(DefaultFastOpAllocator::default()));
        all_types(&mut c, "Switchable(pool)", &mut sp, &|a| js(a), true, caps);
        c.ck(js(&sp)["alloc"] == js(&DefaultFastOpAllocator::default()), || "Switchable(pool) does not wrap the allocator it was given".into());
        let mut sn = SwitchableFastOpAllocator::<DefaultFastOpAllocator>::new(None);
        all_types(&mut c, "Switchable(none)", &mut sn, &|a| js(a), false, Some([20; 9]));
        let mut sd = SwitchableFastOpAllocator::<DefaultFastOpAllocator>::default();
        c.ck(js(&sd) == js(&sn) && js(&sd)["alloc"].is_null(), || "SwitchableFastOpAllocator::default is not the pool-less wrapper".into());
        all_types(&mut c, "Switchable::default", &mut sd, &|a| js(a), false, None);
        for (name, a) in [("pool", &sp), ("none", &sn)] {
            let cl = a.clone();
            c.ck(js(&cl) == js(a) && format!("{:?}", cl) == format!("{:?}", a) && format!("{:?}", a).contains("SwitchableFastOpAllocator"), || format!("Switchable({}) clone / Debug", name));
            match json_rt(a) {
                Ok(rt) => c.ck(js(&rt) == js(a), || format!("C14 Switchable({}) serde", name)),
                Err(e) => c.ck(false, || e),
            }
        }
        // the containers forward to their allocator
        let mut m = FastOps::new_from_nvars(3);
        all_types(&mut c, "FastOps", &mut m, &|a| alloc_snap(a), true, caps);
        let mut mp = FastOpsTemplate::<FastOp, SwitchableFastOpAllocator>::new_from_nvars_and_nbonds_and_alloc(3, Some(2), SwitchableFastOpAllocator::new(Some(Default::default())));
        all_types(&mut c, "FastOps<Switchable(pool)>", &mut mp, &|a| alloc_snap(a), true, caps);
        let mut mn = FastOpsTemplate::<FastOp, SwitchableFastOpAllocator>::new_from_nvars_and_nbonds_and_alloc(3, None, SwitchableFastOpAllocator::new(None));
        all_types(&mut c, "FastOps<Switchable(none)>", &mut mn, &|a| alloc_snap(a), false, None);
        // Reset
        hit("Reset::reset");
        let mut v = vec![1usize, 2, 3];
        Reset::reset(&mut v);
        let mut hp: BinaryHeap<Reverse<usize>> = BinaryHeap::new();
        hp.push(Reverse(2));
        Reset::reset(&mut hp);
        let mut bc: BondContainer<usize> = Default::default();
        bc.dirty();
        Reset::reset(&mut bc);
        c.ck(v.is_empty() && hp.is_empty() && bc.empty(), || "C18 Reset::reset leaves data behind".into());
        c.ck(v.verif_is_clean() && hp.verif_is_clean() && bc.verif_is_clean(), || "C18 verif_is_clean after reset".into());
        case(round == 0, "c18 factory-surface all-types", c.done());
    }
}
fn mode_c03(r: &mut SplitMix64, n: usize) {
    for _ in 0..n {
        let mut bc: BondContainer<usize> = Default::default();
        let mut naive: Vec<(usize, f64)> = vec![];
        let mut maplen = 0usize;
        let mut trace: Vec<String> = vec![];
        let mut c = Chk::new();
        hits(&["BondContainer::default", "BondContainer::clone", "BondContainer::fmt", "BondContainer::serde"]);
        let steps = r.range(10, 60);
        for _ in 0..steps {
            let k = r.below(8) as usize;
            match r.below(10) {
                0..=4 => {
                    let w = *r.pick(&[0.0, 0.25, 0.5, 1.0, 2.0, 0.125]);
                    trace.push(format!("i{}:{}", k, rat(w)));
                    let new = bc.insert(k, w);
                    let pos = naive.iter().position(|x| x.0 == k);
                    c.eq("insert returns `is new`", &new, &pos.is_none());
                    match pos {
                        Some(i) => naive[i].1 = w,
                        None => naive.push((k, w)),
                    }
                    maplen = maplen.max(k + 1);
                }
                5..=7 => {
                    if k < maplen {
                        trace.push(format!("r{}", k));
                        let was = bc.remove(&k);
                        let pos = naive.iter().position(|x| x.0 == k);
                        c.eq("remove returns `was present`", &was, &pos.is_some());
                        if let Some(i) = pos {
                            naive.swap_remove(i);
                        }
                    }
                }
                8 => {
                    if r.chance(1, 3) {
                        trace.push("c".into());
                        bc.clear();
                        naive.clear();
                    }
                }
                _ => {
                    let total: f64 = naive.iter().map(|x| x.1).sum();
                    if total > 0.0 {
                        let w = r.next();
                        trace.push(format!("g{}", w));
                        let mut rec = RecRng::scripted(vec![w], 1);
                        let got = bc.get_random(&mut rec).cloned();
                        // rand 0.8 f64 range: ((w >> 12) / 2^52) * (high - low) + low
                        let mut p = ((w >> 12) as f64 / (1u64 << 52) as f64) * total;
                        let mut e = None;
                        for kw in naive.iter() {
                            p -= kw.1;
                            if p <= 0.0 && kw.1 > 0.0 {
                                e = Some(*kw);
                                break;
                            }
                        }
                        c.eq("C03 get_random picks by the cumulative walk, never a zero-weight entry", &got, &e);
                        c.eq("get_random draws one word", &rec.log.len(), &1);
                    } else if naive.is_empty() {
                        let mut rec = RecRng::new(1);
                        c.ck(bc.get_random(&mut rec).is_none() && rec.log.is_empty(), || "get_random on an empty container".into());
                    }
                }
            }
            // observers against the naive list
            c.eq("len", &bc.len(), &naive.len());
            c.eq("is_empty", &bc.is_empty(), &naive.is_empty());
            c.eq("C03 total weight = sum of weights", &bc.get_total_weight(), &naive.iter().map(|x| x.1).sum::<f64>());
            c.eq("iter order", &bc.iter().cloned().collect::<Vec<_>>(), &naive);
            for q in 0..10usize {
                let e = naive.iter().find(|x| x.0 == q).map(|x| x.1);
                c.eq(&format!("contains({})", q), &bc.contains(&q), &e.is_some());
                c.eq(&format!("get_weight({})", q), &bc.get_weight(&q), &e);
            }
            // representation invariant (BC.Inv): map is the inverse of keys, weights non-negative, total = sum
            let j = js(&bc);
            let (map, keys) = (j["map"].as_array().cloned().unwrap_or_default(), j["keys"].as_array().cloned().unwrap_or_default());
            for (i, kw) in keys.iter().enumerate() {
                let key = kw[0].as_u64().unwrap() as usize;
                c.ck(map.get(key).and_then(|x| x.as_u64()) == Some(i as u64), || format!("C03 BC.Inv: keys[{}] = {} but map[{}] = {:?}", i, key, key, map.get(key)));
                c.ck(kw[1].as_f64().map(|w| w >= 0.0).unwrap_or(false), || "C03 BC.Inv: negative weight".into());
            }
            for (key, a) in map.iter().enumerate() {
                if let Some(i) = a.as_u64() {
                    c.ck(keys.get(i as usize).map(|kw| kw[0].as_u64() == Some(key as u64)).unwrap_or(false), || format!("C03 BC.Inv: map[{}] = {} points to another key", key, i));
                }
            }
            c.eq("map never shrinks", &map.len(), &maplen);
            if !c.errs.is_empty() {
                break;
            }
        }
        // weights that are not dyadic: after every key was taken out again, clear() leaves an EMPTY container (total exactly 0)
        {
            let mut f: BondContainer<usize> = Default::default();
            let ws = [0.1, 0.3, 0.6, 0.7, 1.1, 1.4];
            let keys: Vec<usize> = (0..r.range(2, 6) as usize).collect();
            let mut order = keys.clone();
            for k in keys.iter() {
                f.insert(*k, *r.pick(&ws));
            }
            for i in (1..order.len()).rev() {
                let j = r.below(i as u64 + 1) as usize;
                order.swap(i, j);
            }
            let mut tr = vec![];
            for k in order.iter() {
                tr.push(format!("{}:{}", k, f.get_weight(k).unwrap()));
                f.remove(k);
            }
            c.ck(f.is_empty() && f.get_total_weight() >= 0.0 && f.get_total_weight() < 1e-12, || format!("C03 total after removing everything ({}) = {}", tr.join(","), f.get_total_weight()));
            f.clear();
            c.ck(f.empty() && f.verif_is_clean(), || format!("C18 clear() after removing everything ({}) leaves total {}", tr.join(","), f.get_total_weight()));
            let mut g: BondContainer<usize> = Default::default();
            g.insert(2, 0.3);
            g.insert(0, 0.7);
            Reset::reset(&mut g);
            c.ck(g.empty() && g.verif_is_clean(), || "C18 Reset::reset of a bond container".into());
        }
        // copies
        let cl = bc.clone();
        c.ck(js(&cl) == js(&bc) && format!("{:?}", cl) == format!("{:?}", bc) && format!("{:?}", bc).contains("BondContainer"), || "BondContainer clone / Debug".into());
        match json_rt(&bc) {
            Ok(mut rt) => {
                c.ck(js(&rt) == js(&bc), || "C14 BondContainer serde round trip".into());
                let mut orig = bc.clone();
                c.ck(rt.insert(2, 0.75) == orig.insert(2, 0.75) && js(&rt) == js(&orig), || "C14 restored BondContainer behaves differently".into());
            }
            Err(e) => c.ck(false, || e),
        }
        let d: BondContainer<usize> = Default::default();
        c.ck(d.empty() && js(&d)["map"].as_array().map(|m| m.is_empty()).unwrap_or(false), || "BondContainer::default is not empty".into());
        case(true, &format!("c03 bondcontainer {}", trace.join(",")), c.done());
    }
}

// @@NEXT@@

/// a library panic outside an individually guarded call still becomes a failing case (never a crash of the bin)
fn guarded(what: &str, f: impl FnOnce()) {
    if let Err(e) = catch(f) {
        case(true, &format!("{} aborted", what), Err(format!("the library panicked outside an individually guarded call: {}", e)));
    }
}

fn main() {
    quiet_panics();
    let a = args();
    let scale = if a.thorough { 80 } else { 10 };
    let table: Vec<(&str, fn(&mut SplitMix64, usize), usize)> = vec![
        ("c01", mode_c01, 10),
        ("c03", mode_c03, 12),
        ("c04", mode_c04, 10),
        ("c06", mode_c06, 8),
        ("c07", mode_c07, 40),
        ("c08", mode_c08, 8),
        ("c09", mode_c09, 12),
        ("c10", mode_c10, 4),
        ("c11", mode_c11, 10),
        ("c12", mode_c12, 10),
        ("c13", mode_c13, 8),
        ("c17", mode_c17, 16),
        ("c18", mode_c18, 1),
        ("c19", mode_c19, 12),
    ];
    if a.mode == "partemp1" {
        mode_partemp1();
        flush_cov();
        return;
    }
    if a.mode == "nthwit" {
        mode_nthwit();
        flush_cov();
        return;
    }
    let mut known = false;
    for (name, f, reps) in table.iter() {
        if a.mode != "all" && a.mode != *name {
            continue;
        }
        known = true;
        // fixed per-mode seed derived from --seed
        let tag = name.bytes().fold(0u64, |h, b| h.wrapping_mul(131).wrapping_add(b as u64));
        let mut r = SplitMix64::new(SplitMix64::new(a.seed.wrapping_mul(0x2545_F491_4F6C_DD1D) ^ tag.wrapping_mul(0x9E6C_63D0_676A_9A99)).next());
        let reps = if *name == "c18" { 1 + a.thorough as usize } else { reps * scale };
        for k in 0..reps {
            // every repetition is one guarded scenario
            guarded(&format!("{} scenario {}", name, k), || f(&mut r, 1));
        }
    }
    if !known {
        eprintln!("unknown mode {}", a.mode);
        std::process::exit(2);
    }
    flush_cov();
}
